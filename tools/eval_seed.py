#!/venv/bin/python
"""Evaluate a candidate seeded change (manual tool, not a check).

  tools/eval_seed.py <dir with patch.diff + demo.py> [--keep]

1. fresh scratch worktree of /repo HEAD under /tmp: demo passes without the patch, fails with it, test suite green with it;
2. every check of /verif is run against the patch *in memory* (overlay) and the rules that report a new finding are listed;
3. the scratch worktree is removed."""
import json
import os
import subprocess
import sys
import shutil

VERIF = os.path.dirname(os.path.dirname(os.path.abspath(__file__)))
sys.path.insert(0, VERIF)
sys.dont_write_bytecode = True
from wnstatic.arming import patch_overlay_from_diff, findings_of, base  # noqa: E402


def sh(cmd, **kw):
    return subprocess.run(cmd, shell=True, capture_output=True, text=True, **kw)


def main():
    d = os.path.abspath(sys.argv[1])
    name = os.path.basename(d.rstrip('/'))
    patch = os.path.join(d, 'patch.diff')
    demo = os.path.join(d, 'demo.py')
    wt = f'/tmp/ev-{name}'
    out = {'name': name}
    if '--static-only' not in sys.argv:
        sh(f'git -C /repo worktree remove --force {wt}')
        r = sh(f'git -C /repo worktree add -q --detach {wt} HEAD')
        if r.returncode:
            print('worktree failed', r.stderr)
            return 2
        try:
            env = dict(os.environ, PYTHONPATH=wt, PYTHONDONTWRITEBYTECODE='1')
            r0 = sh(f'/venv/bin/python {demo}', env=env, cwd='/tmp')
            out['demo_without_patch'] = r0.returncode
            r = sh(f'git -C {wt} apply {patch}')
            if r.returncode:
                print('patch does not apply:', r.stderr)
                out['applies'] = False
            else:
                out['applies'] = True
                r1 = sh(f'/venv/bin/python {demo}', env=env, cwd='/tmp')
                out['demo_with_patch'] = r1.returncode
                out['demo_message'] = (r1.stdout + r1.stderr).strip().split('\n')[-1][:300]
                rt = sh('/venv/bin/python -m pytest -q -p no:cacheprovider --timeout=900 -x', cwd=wt,
                        env=dict(os.environ, PYTHONDONTWRITEBYTECODE='1'))
                out['tests'] = rt.stdout.strip().split('\n')[-1]
        finally:
            sh(f'git -C /repo worktree remove --force {wt}')
            shutil.rmtree(wt, ignore_errors=True)
    overlay, err = patch_overlay_from_diff(patch)
    if err:
        print('overlay:', err)
        return 2
    fired = {}
    for i in range(1, 21):
        pid = f'C{i:02d}'
        bk, _ = base(pid)
        try:
            keys, errors = findings_of(pid, overlay)
        except Exception as exc:  # noqa: BLE001
            keys, errors = {}, [f'{type(exc).__name__}: {exc}']
        new = {k: v for k, v in keys.items() if k not in bk}
        if new or errors:
            fired[pid] = {'rules': sorted({k[0] for k in new}), 'first': [f'{k[0]} [{k[1][:80]}]: {v[:160]}' for k, v in list(new.items())[:2]],
                          'errors': [e[:200] for e in errors[:2]]}
    out['fired'] = fired
    print(json.dumps(out, indent=1))
    return 0


if __name__ == '__main__':
    sys.exit(main())
