#!/venv/bin/python
"""Print the importer's INSERT bindings (table.column <- source descriptors) as they are in /repo now.
The output is *reviewed by hand* against wn/schema.sql and the WN-LMF model and then frozen in
wnstatic/rules/c01_bindings.py; the check never regenerates it."""
import os
import sys
VERIF = os.path.dirname(os.path.dirname(os.path.abspath(__file__)))
sys.path.insert(0, VERIF)
sys.dont_write_bytecode = True
from wnstatic.runtime import Ctx  # noqa: E402
from wnstatic.rules.c01 import computed_bindings  # noqa: E402

ctx = Ctx()
table = computed_bindings(ctx)
print('BINDINGS = {')
for (t, c), alts in sorted(table.items()):
    print(f'    ({t!r}, {c!r}): [')
    for a in sorted(alts):
        print(f'        {a!r},')
    print('    ],')
print('}')
