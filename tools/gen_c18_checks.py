#!/venv/bin/python
"""Write wnstatic/rules/c18_checks.py: for every check function registered in wn.validate._codes (and the helpers they
share) the effects that decide WHICH items are reported - the stores into the result, the auxiliary collections and the
returns - in the name-free normal form of wnstatic/effects.py.  The table is a reference confirmed by reading each predicate
against the check's documented meaning; re-run only after reviewing a changed predicate (the diff of the generated file is
the review item)."""
import os
import sys
sys.path.insert(0, os.path.join(os.path.dirname(os.path.abspath(__file__)), '..'))
from wnstatic.runtime import Ctx  # noqa: E402
from wnstatic.rules.c18 import check_functions, decisive_rows  # noqa: E402

ctx = Ctx()
here = os.path.join(os.path.dirname(os.path.dirname(os.path.abspath(__file__))), 'wnstatic', 'rules', 'c18_checks.py')
with open(here, 'w') as fh:
    fh.write('"""reported-item predicates of the validation checks (tools/gen_c18_checks.py); reviewed against each docstring"""\n')
    fh.write('PREDICATES = {\n')
    n = 0
    for name in check_functions(ctx):
        fh.write(f'    {name!r}: [\n')
        for row in decisive_rows(ctx, name):
            fh.write(f'        {row!r},\n')
            n += 1
        fh.write('    ],\n')
    fh.write('}\n')
print('wrote', here, n, 'rows')
