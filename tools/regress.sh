#!/bin/bash
# full regression of the machinery on the unchanged tree: all checks, the self-test corpus (incl. seeded changes),
# the rename sweep and every stored behaviour-preserving / property-preserving feature patch.   usage: tools/regress.sh
cd "$(dirname "$0")/.."
fail=0
for i in $(seq -w 1 20); do
  out=$(./check C$i 2>&1); rc=$?
  echo "C$i rc=$rc $(echo "$out" | grep -E '^(OK|VIOLATION|KNOWN-FINDING|ANALYSIS-ERROR)' | tr '\n' ' ' | cut -c1-200)"
  [ $rc -ne 0 ] && fail=1
done
/venv/bin/python -B selftest/run.py 2>&1 | tail -3
/venv/bin/python -B selftest/rename.py 2>&1 | tail -1
/venv/bin/python -B selftest/swapif.py 2>&1 | tail -1
for b in benign/*/patch.diff features/*/patch.diff; do
  (/venv/bin/python -B tools/eval_benign.py $b 2>&1 | tail -1) &
  while [ $(jobs -r | wc -l) -ge 8 ]; do sleep 0.5; done
done
wait
exit $fail
