#!/venv/bin/python
"""Write wnstatic/known_funcs.py: the module-level functions of /repo/wn as they are now.  The analyses were written against
these; a private helper that is not in the list (introduced later by an 'extract function' refactoring) is expanded at its
call sites by wnstatic/normalize.py.  Re-run only after reviewing that the rules model any new helper correctly."""
import ast
import os
import sys
root = '/repo'
out = {}
meths = {}
bags = {}
mbags = {}


def token_bag(fn):
    """identifiers, attribute names and string constants a function body uses (its own name and parameters excluded)"""
    own = {fn.name} | {a.arg for a in fn.args.posonlyargs + fn.args.args + fn.args.kwonlyargs}
    out = set()
    for st in fn.body:
        for n in ast.walk(st):
            if isinstance(n, ast.Name) and n.id not in own:
                out.add(n.id)
            elif isinstance(n, ast.Attribute):
                out.add('.' + n.attr)
            elif isinstance(n, ast.Constant) and isinstance(n.value, str) and 0 < len(n.value) <= 40 and '\n' not in n.value:
                out.add(repr(n.value))
    return sorted(out)


modnames = {}
sigs = {}
bodies = {}


def body_digest(fn):
    """digest of a function body without docstring and annotations (parameter names kept, their order not part of it)"""
    import hashlib
    body = [st for st in fn.body if not (isinstance(st, ast.Expr) and isinstance(st.value, ast.Constant) and isinstance(st.value.value, str))]
    return hashlib.sha1('\n'.join(ast.dump(st, annotate_fields=False) for st in body).encode()).hexdigest()[:16]


for dirpath, dirs, files in os.walk(os.path.join(root, 'wn')):
    dirs[:] = sorted(d for d in dirs if d != '__pycache__')
    for f in sorted(files):
        if f.endswith('.py'):
            rel = os.path.relpath(os.path.join(dirpath, f), root)
            tree = ast.parse(open(os.path.join(root, rel), encoding='utf-8').read())
            out[rel] = sorted(n.name for n in tree.body if isinstance(n, (ast.FunctionDef, ast.AsyncFunctionDef)))
            sigs[rel] = {n.name: [a.arg for a in n.args.posonlyargs + n.args.args + n.args.kwonlyargs]
                         for n in tree.body if isinstance(n, ast.FunctionDef) and n.name.startswith('_')}
            bodies[rel] = {n.name: body_digest(n) for n in tree.body if isinstance(n, ast.FunctionDef) and n.name.startswith('_')}
            modnames[rel] = sorted({t.id for st in tree.body if isinstance(st, (ast.Assign, ast.AnnAssign))
                                 for t in (st.targets if isinstance(st, ast.Assign) else [st.target]) if isinstance(t, ast.Name)})
            bags[rel] = {n.name: token_bag(n) for n in tree.body if isinstance(n, ast.FunctionDef) and n.name.startswith('_')}
            mbags[rel] = {c.name: {m.name: token_bag(m) for m in c.body if isinstance(m, ast.FunctionDef) and m.name.startswith('_')
                                   and not m.name.startswith('__')} for c in tree.body if isinstance(c, ast.ClassDef)}
            meths[rel] = {c.name: sorted(m.name for m in c.body if isinstance(m, (ast.FunctionDef, ast.AsyncFunctionDef)))
                          for c in tree.body if isinstance(c, ast.ClassDef)}
here = os.path.join(os.path.dirname(os.path.dirname(os.path.abspath(__file__))), 'wnstatic', 'known_funcs.py')
with open(here, 'w') as fh:
    fh.write('"""module-level functions of wn/ known to the analyses (tools/gen_known_funcs.py); see wnstatic/normalize.py"""\n')
    fh.write('KNOWN = {\n')
    for rel, names in sorted(out.items()):
        fh.write(f'    {rel!r}: {names!r},\n')
    fh.write('}\n')
    fh.write('KNOWN_SIGS = {\n')
    for rel, d in sorted(sigs.items()):
        if d:
            fh.write(f'    {rel!r}: {d!r},\n')
    fh.write('}\n')
    fh.write('KNOWN_BODIES = {\n')
    for rel, d in sorted(bodies.items()):
        if d:
            fh.write(f'    {rel!r}: {d!r},\n')
    fh.write('}\n')
    fh.write('KNOWN_NAMES = {\n')
    for rel, d in sorted(modnames.items()):
        if d:
            fh.write(f'    {rel!r}: {d!r},\n')
    fh.write('}\n')
    fh.write('KNOWN_BAGS = {\n')
    for rel, d in sorted(bags.items()):
        if d:
            fh.write(f'    {rel!r}: {d!r},\n')
    fh.write('}\n')
    fh.write('KNOWN_METHOD_BAGS = {\n')
    for rel, d in sorted(mbags.items()):
        if any(d.values()):
            fh.write(f'    {rel!r}: { {k: v for k, v in d.items() if v}!r},\n')
    fh.write('}\n')
    fh.write('KNOWN_METHODS = {\n')
    for rel, cl in sorted(meths.items()):
        if cl:
            fh.write(f'    {rel!r}: {cl!r},\n')
    fh.write('}\n')
print('wrote', here, sum(len(v) for v in out.values()), 'functions')
