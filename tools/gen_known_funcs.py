#!/venv/bin/python
"""Write wnstatic/known_funcs.py: the module-level functions of /repo/wn as they are now.  The analyses were written against
these; a private helper that is not in the list (introduced later by an 'extract function' refactoring) is expanded at its
call sites by wnstatic/normalize.py.  Re-run only after reviewing that the rules model any new helper correctly."""
import ast
import os
import sys
root = '/repo'
out = {}
meths = {}
for dirpath, dirs, files in os.walk(os.path.join(root, 'wn')):
    dirs[:] = sorted(d for d in dirs if d != '__pycache__')
    for f in sorted(files):
        if f.endswith('.py'):
            rel = os.path.relpath(os.path.join(dirpath, f), root)
            tree = ast.parse(open(os.path.join(root, rel), encoding='utf-8').read())
            out[rel] = sorted(n.name for n in tree.body if isinstance(n, (ast.FunctionDef, ast.AsyncFunctionDef)))
            meths[rel] = {c.name: sorted(m.name for m in c.body if isinstance(m, (ast.FunctionDef, ast.AsyncFunctionDef)))
                          for c in tree.body if isinstance(c, ast.ClassDef)}
here = os.path.join(os.path.dirname(os.path.dirname(os.path.abspath(__file__))), 'wnstatic', 'known_funcs.py')
with open(here, 'w') as fh:
    fh.write('"""module-level functions of wn/ known to the analyses (tools/gen_known_funcs.py); see wnstatic/normalize.py"""\n')
    fh.write('KNOWN = {\n')
    for rel, names in sorted(out.items()):
        fh.write(f'    {rel!r}: {names!r},\n')
    fh.write('}\n')
    fh.write('KNOWN_METHODS = {\n')
    for rel, cl in sorted(meths.items()):
        if cl:
            fh.write(f'    {rel!r}: {cl!r},\n')
    fh.write('}\n')
print('wrote', here, sum(len(v) for v in out.values()), 'functions')
