#!/venv/bin/python
"""Which effect summaries change under a patch?  (diagnostic for the normal form: a behaviour-preserving patch should change
none, apart from functions whose interface changed.)   usage: tools/summary_diff.py <patch.diff> [-v]"""
import os
import sys
sys.path.insert(0, os.path.join(os.path.dirname(os.path.abspath(__file__)), '..'))
from wnstatic.runtime import Ctx  # noqa: E402
from wnstatic.src import Repo  # noqa: E402
from wnstatic.effects import module_summary  # noqa: E402
from wnstatic.inline import Opaque  # noqa: E402
from wnstatic.arming import patch_overlay_from_diff  # noqa: E402


def summ(ctx, f):
    try:
        _, effs = module_summary(ctx, f.module.short, f.qualname)
        return {repr(e) for e in effs}
    except Opaque as exc:
        return {f'OPAQUE {exc}'}
    except RecursionError:
        return {'RECURSION'}


def main():
    patch = sys.argv[1]
    verbose = '-v' in sys.argv
    ov, err = patch_overlay_from_diff(patch)
    if err:
        print(err)
        return 2
    a, b = Ctx(), Ctx(Repo(overlay=ov))
    same = changed = 0
    for rel in ov:
        ma = [m for m in a.repo.modules.values() if m.relpath == rel]
        mb = [m for m in b.repo.modules.values() if m.relpath == rel]
        if not ma or not mb:
            continue
        for q, fa in ma[0].funcs.items():
            fb = mb[0].funcs.get(q)
            if fb is None:
                continue
            sa, sb = summ(a, fa), summ(b, fb)
            if sa == sb:
                same += 1
            else:
                changed += 1
                print(f'CHANGED {rel}:{q}  (-{len(sa - sb)} +{len(sb - sa)})')
                if verbose:
                    for x in sorted(sa - sb)[:4]:
                        print('   - ' + x[:300])
                    for x in sorted(sb - sa)[:4]:
                        print('   + ' + x[:300])
    print(f'{same} summaries unchanged, {changed} changed')


if __name__ == '__main__':
    sys.exit(main())
