#!/venv/bin/python
"""Regenerate /verif/MANIFEST.json from the rule modules that exist (run from /verif)."""
import importlib
import json
import os
import sys

VERIF = os.path.dirname(os.path.dirname(os.path.abspath(__file__)))
sys.path.insert(0, VERIF)
sys.dont_write_bytecode = True

props = [json.loads(line) for line in open(os.path.join(VERIF, 'properties.jsonl'))]
PENDING = 'check not yet built (framework under construction; see DESIGN.md section 3 for the planned rule)'

checks = []
na = []
served = []
for p in props:
    pid = p['id']
    try:
        mod = importlib.import_module(f'wnstatic.rules.{pid.lower()}')
    except ModuleNotFoundError:
        na.append({'property_id': pid, 'reason': PENDING})
        continue
    if getattr(mod, 'NOT_APPLICABLE', None):
        na.append({'property_id': pid, 'reason': mod.NOT_APPLICABLE})
        continue
    meta = mod.META
    served.append(pid)
    checks.append({
        'property_id': pid,
        'quick_cmd': f'./check {pid} --tier quick',
        'thorough_cmd': f'./check {pid} --tier thorough',
        'evidence_file': f'/verif/evidence/{pid}.json',
        'replay_cmd_template': f'./check {pid} --replay {{path}}',
        'engine': 'wnstatic',
        'level_claimed': {
            'category': 'other',
            'text': meta['explanation'],
            'design_ref': f'DESIGN.md section 3, {pid}',
        },
        'level_note': 'Static analysis of the current /repo source (ast, embedded SQL compiled with EXPLAIN against '
                      'wn/schema.sql on an empty in-memory database, TypedDict model). Decides the named structural '
                      'clauses, not the runtime behaviour as a whole. Trusted base: CPython ast, the SQLite statement '
                      'compiler, and the binding/exemption tables in wnstatic/rules. '
                      + ' '.join(meta.get('assumptions', [])),
        'technique': meta.get('technique', 'custom static analysis over the syntax tree and embedded SQL'),
    })

manifest = {
    'version': 1,
    'setup_cmd': 'true',
    'hooks': {
        'guard': 'WN_VERIF',
        'enable': 'none needed: the checks are static and never import or run wn; no hook exists in /repo',
        'baseline_off_cmd': 'cd /repo && /venv/bin/python -m pytest -ra -q -p no:cacheprovider --timeout=900 '
                            '--continue-on-collection-errors',
        'source_commits': [],
        'add_only': True,
    },
    'engines': [{
        'name': 'wnstatic',
        'path': '/verif/wnstatic',
        'serves_properties': served,
        'kind_free_text': 'repository-specific static analyser: Python ast + name-resolved call graph + '
                          'path-enumerating extractor for embedded SQL + schema / TypedDict model + dataflow rules; '
                          'stdlib only, run with /venv/bin/python',
    }],
    'checks': checks,
    'not_applicable': na,
    'notes': 'Exit codes: 0 ok (KNOWN-FINDING lines for entries of known_findings.json), 1 VIOLATION, 2 ANALYSIS-ERROR. '
             'Fix commits in /repo are listed in known_findings.json ("fixed").',
}
with open(os.path.join(VERIF, 'MANIFEST.json'), 'w') as fh:
    json.dump(manifest, fh, indent=1)
print(f'claimed: {served}; not applicable/pending: {[x["property_id"] for x in na]}')
