#!/venv/bin/python
"""Run all 20 checks (in memory) against a patch that is claimed to be behaviour-preserving and list EVERY new finding or
analysis error: each one is either a false alarm of the machinery (to be fixed there) or an inadvertent behaviour change of
the patch (to be confirmed by reading / a reproducer).

usage: tools/eval_benign.py <patch.diff> [Cxx ...]
"""
import json
import os
import sys

sys.path.insert(0, os.path.join(os.path.dirname(os.path.abspath(__file__)), '..'))
from wnstatic.arming import patch_overlay_from_diff, findings_of, base  # noqa: E402


def main():
    patch = sys.argv[1]
    only = sys.argv[2:]
    overlay, err = patch_overlay_from_diff(patch)
    if err:
        print('overlay:', err)
        return 2
    n = 0
    for i in range(1, 21):
        pid = f'C{i:02d}'
        if only and pid not in only:
            continue
        bk, _ = base(pid)
        try:
            keys, errors = findings_of(pid, overlay)
        except Exception as exc:  # noqa: BLE001
            keys, errors = {}, [f'{type(exc).__name__}: {exc}']
        new = {k: v for k, v in keys.items() if k not in bk}
        for k, v in new.items():
            n += 1
            print(f'{pid} {k[0]} [{k[1][:90]}]\n      {v[:400]}')
        for e in errors:
            n += 1
            print(f'{pid} ANALYSIS-ERROR {e[:400]}')
    print(f'-- {n} alarm(s) for {patch}')
    return 0


if __name__ == '__main__':
    sys.exit(main())
