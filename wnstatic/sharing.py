"""Unintended sharing of mutable objects.

Two exact structural rules; both need the *mutation* as well as the sharing, so an edit that merely shares an object
that nobody writes to stays silent.

A. shared module-level / default-argument object handed out and written to
   a function may return (on some path) a mutable container bound once at module level (or a mutable default
   argument), and a caller writes into the result (or the function itself writes into it): the write is visible to every
   later call - hidden state.

B. one local mutable stored in several records that are updated in place
   a list/dict/set created at loop depth d is stored (itself, not a copy) into a container at a deeper loop depth, i.e.
   once per inner iteration, and the function later updates elements of that container in place: the update lands in
   all records that received the object.
"""
from __future__ import annotations
import ast
from .src import walk_no_nested, norm
from .pyutil import binding_sites

MUTATORS = {'append', 'extend', 'insert', 'update', 'add', 'setdefault', 'pop', 'popitem', 'remove', 'discard', 'clear',
            'sort', 'reverse', 'set', '__setitem__', 'appendleft', 'extendleft'}
_FRESH_CALLS = {'list', 'dict', 'set', 'defaultdict', 'OrderedDict', 'Counter', 'deque', 'sorted'}


def is_fresh_mutable(v):
    if isinstance(v, (ast.List, ast.Dict, ast.Set, ast.ListComp, ast.DictComp, ast.SetComp)):
        return True
    if isinstance(v, ast.Call):
        f = v.func
        n = f.id if isinstance(f, ast.Name) else f.attr if isinstance(f, ast.Attribute) else None
        return n in _FRESH_CALLS
    return False


def module_mutables(module):
    """{name: node} for module-level names bound exactly once to a mutable display / constructor."""
    out, count = {}, {}
    for st in module.tree.body:
        tg = []
        if isinstance(st, ast.Assign):
            tg, v = st.targets, st.value
        elif isinstance(st, ast.AnnAssign) and st.value is not None:
            tg, v = [st.target], st.value
        for t in tg:
            if isinstance(t, ast.Name):
                count[t.id] = count.get(t.id, 0) + 1
                if is_fresh_mutable(v) and not (isinstance(v, ast.Call) and getattr(v.func, 'id', '') == 'sorted'):
                    out[t.id] = st
    return {k: v for k, v in out.items() if count[k] == 1}


def _may_be(expr, depth=0):
    """names the value of `expr` may be identical to (through `or`, `and`, conditional expressions, walrus)."""
    if isinstance(expr, ast.Name):
        return {expr.id}
    if isinstance(expr, ast.BoolOp):
        s = set()
        for v in expr.values:
            s |= _may_be(v)
        return s
    if isinstance(expr, ast.IfExp):
        return _may_be(expr.body) | _may_be(expr.orelse)
    if isinstance(expr, ast.NamedExpr):
        return _may_be(expr.value)
    if isinstance(expr, ast.Call) and isinstance(expr.func, ast.Name) and expr.func.id == 'cast' and len(expr.args) == 2:
        return _may_be(expr.args[1])
    return set()


def local_aliases(fnode):
    """{local name: set of names it may be identical to} (transitive, flow-insensitive)."""
    al = {}
    for n in walk_no_nested(fnode):
        if isinstance(n, ast.Assign):
            for t in n.targets:
                if isinstance(t, ast.Name):
                    al.setdefault(t.id, set()).update(_may_be(n.value))
        elif isinstance(n, ast.AnnAssign) and n.value is not None and isinstance(n.target, ast.Name):
            al.setdefault(n.target.id, set()).update(_may_be(n.value))
    changed = True
    while changed:
        changed = False
        for k, s in al.items():
            for x in list(s):
                for y in al.get(x, ()):
                    if y not in s and y != k:
                        s.add(y)
                        changed = True
    return al


def _root_and_depth(e):
    """for `C[a][b].attr` -> ('C', number of subscripts/attributes)"""
    d = 0
    while isinstance(e, (ast.Subscript, ast.Attribute)):
        d += 1
        e = e.value
    if isinstance(e, ast.Name):
        return e.id, d
    return None, d


def mutations_in(fnode):
    """[(root name, depth, node)] for every in-place write: `X[..] = v`, `X[..] += v`, `del X[..]`, `X.append(..)` ..."""
    out = []
    for n in walk_no_nested(fnode):
        if isinstance(n, (ast.Assign, ast.AugAssign, ast.AnnAssign, ast.Delete)):
            tg = n.targets if isinstance(n, (ast.Assign, ast.Delete)) else [n.target]
            for t in tg:
                for x in ([t] if not isinstance(t, (ast.Tuple, ast.List)) else t.elts):
                    if isinstance(x, ast.Subscript):
                        r, d = _root_and_depth(x.value)
                        if r:
                            out.append((r, d, n))
        elif isinstance(n, ast.Call) and isinstance(n.func, ast.Attribute) and n.func.attr in MUTATORS:
            r, d = _root_and_depth(n.func.value)
            if r:
                out.append((r, d, n))
    return out


def _returns(fnode):
    return [n for n in walk_no_nested(fnode) if isinstance(n, ast.Return) and n.value is not None]


# ---------------------------------------------------------------------------------------------------------------- A

def shared_object_sources(ctx, modules=None):
    """functions that may return a module-level mutable or a mutable default argument:  {func key: (FuncInfo, what, node)}"""
    out = {}
    for m in ctx.repo.modules.values():
        if modules is not None and m.short not in modules:
            continue
        mm = module_mutables(m)
        for f in m.funcs.values():
            al = local_aliases(f.node)
            defaults = {}
            a = f.node.args
            pos = a.posonlyargs + a.args
            for p, d in list(zip(pos[len(pos) - len(a.defaults):], a.defaults)) + [(p, d) for p, d in zip(a.kwonlyargs, a.kw_defaults) if d is not None]:
                if is_fresh_mutable(d):
                    defaults[p.arg] = d
            for r in _returns(f.node):
                cands = set()
                for x in _may_be(r.value):
                    cands |= {x} | al.get(x, set())
                for x in cands:
                    if x in mm and not binding_sites(f.node, x):
                        out[f.key] = (f, f'the module-level object `{x}`', mm[x])
                    elif x in defaults:
                        out[f.key] = (f, f'its mutable default argument `{x}`', defaults[x])
    return out


def shared_object_writes(ctx, modules=None):
    """[(key, loc, message)] - rule A."""
    srcs = shared_object_sources(ctx, modules)
    out = []
    insts = []
    for fk, (f, what, node) in sorted(srcs.items()):
        insts.append((f'shared-source:{fk}', f.module.loc(f.node), what))
    if not srcs:
        return insts, out
    by_name = {}
    for fk, (f, what, node) in srcs.items():
        by_name.setdefault(f.name, []).append((f, what))
    for g in ctx.repo.all_funcs():
        muts = None
        for n in walk_no_nested(g.node):
            if not (isinstance(n, ast.Call) and (getattr(n.func, 'id', None) in by_name or getattr(n.func, 'attr', None) in by_name)):
                continue
            cal = [c for c in ctx.cg.resolve_call(g, n) if c.key in srcs]
            if not cal:
                continue
            f, what, _ = srcs[cal[0].key]
            # the result is bound to a local that is written to, or written to directly
            par = getattr(n, '_parent', None)
            names = set()
            if isinstance(par, (ast.Assign, ast.AnnAssign)) and par.value is n:
                for t in (par.targets if isinstance(par, ast.Assign) else [par.target]):
                    if isinstance(t, ast.Name):
                        names.add(t.id)
            if isinstance(par, ast.Attribute) and par.attr in MUTATORS and isinstance(getattr(par, '_parent', None), ast.Call):
                out.append((f'shared-object-written:{g.key}:{f.name}', g.module.loc(n),
                            f'{g.key} writes into the result of {f.key}(), which may be {what} ({f.module.loc(f.node)}): the write '
                            f'stays in that object and shows up in every later result'))
            if isinstance(par, ast.Subscript) and isinstance(getattr(par, '_parent', None), (ast.Assign, ast.AugAssign)) \
                    and par in getattr(par._parent, 'targets', [getattr(par._parent, 'target', None)]):
                out.append((f'shared-object-written:{g.key}:{f.name}', g.module.loc(n),
                            f'{g.key} assigns into the result of {f.key}(), which may be {what}'))
            if names:
                if muts is None:
                    muts = mutations_in(g.node)
                al = local_aliases(g.node)
                for r, d, mn in muts:
                    if r in names or names & al.get(r, set()):
                        out.append((f'shared-object-written:{g.key}:{f.name}', g.module.loc(mn),
                                    f'{g.key} binds the result of {f.key}() to `{sorted(names)[0]}` and then writes into it '
                                    f'(`{norm(mn)[:70]}`); that result may be {what} ({f.module.loc(f.node)}), so the write stays in the '
                                    f'shared object and shows up in every later result of {f.name}()'))
                        break
    # the source function itself writing into what it hands out
    for fk, (f, what, node) in srcs.items():
        nm = what.split('`')[1]
        for r, d, mn in mutations_in(f.node):
            if r == nm:
                out.append((f'shared-object-written:{fk}:self', f.module.loc(mn), f'{fk} writes into {what} which it also returns'))
                break
    return insts, out


# ---------------------------------------------------------------------------------------------------------------- B

def _loop_stack(node, fnode):
    st = []
    n = getattr(node, '_parent', None)
    prev = node
    while n is not None and n is not fnode:
        if isinstance(n, (ast.For, ast.AsyncFor, ast.While)) and prev not in n.orelse and prev is not getattr(n, 'iter', None):
            st.append(n)
        prev = n
        n = getattr(n, '_parent', None)
    return list(reversed(st))


def _stored_names(v):
    """names whose object itself becomes reachable from the stored value `v`"""
    s = set(_may_be(v))
    if isinstance(v, ast.Dict):
        for x in v.values:
            if x is not None:
                s |= _stored_names(x)
    elif isinstance(v, (ast.List, ast.Tuple, ast.Set)):
        for x in v.elts:
            s |= _stored_names(x)
    elif isinstance(v, ast.Call) and isinstance(v.func, ast.Name) and v.func.id in ('dict',) and v.keywords:
        for k in v.keywords:
            s |= _stored_names(k.value)
    return s


def stores_in(fnode):
    """[(container root, value expr, stmt)] for `C[k] = V`, `C.append(V)`, `C.setdefault(k, V)`, `C.insert(i, V)`, `C.add(V)`"""
    out = []
    for n in walk_no_nested(fnode):
        if isinstance(n, ast.Assign):
            for t in n.targets:
                if isinstance(t, ast.Subscript):
                    r, d = _root_and_depth(t.value)
                    if r:
                        out.append((r, n.value, n))
        elif isinstance(n, ast.Call) and isinstance(n.func, ast.Attribute) and n.func.attr in ('append', 'setdefault', 'insert', 'add', 'appendleft'):
            r, d = _root_and_depth(n.func.value)
            if r and n.args:
                out.append((r, n.args[-1], n))
    return out


def element_bindings(fnode):
    """{local name: container root} for names bound to an element of a container: `z = C[k]`, `z = C.get(k)`,
    `z = C.setdefault(..)`, `for z in C` / `C.values()`, `for k, z in C.items()`"""
    out = {}
    for n in walk_no_nested(fnode):
        if isinstance(n, ast.Assign) and len(n.targets) == 1 and isinstance(n.targets[0], ast.Name):
            v = n.value
            if isinstance(v, ast.Subscript):
                r, d = _root_and_depth(v.value)
                if r:
                    out[n.targets[0].id] = r
            elif isinstance(v, ast.Call) and isinstance(v.func, ast.Attribute) and v.func.attr in ('get', 'setdefault', 'pop'):
                r, d = _root_and_depth(v.func.value)
                if r:
                    out[n.targets[0].id] = r
        elif isinstance(n, (ast.For, ast.comprehension)):
            it = n.iter
            if isinstance(it, ast.Call) and isinstance(it.func, ast.Attribute) and it.func.attr in ('values', 'items') and not it.args:
                r, d = _root_and_depth(it.func.value)
                tg = n.target
                if it.func.attr == 'items' and isinstance(tg, ast.Tuple) and len(tg.elts) == 2:
                    tg = tg.elts[1]
                if r and isinstance(tg, ast.Name):
                    out[tg.id] = r
            elif isinstance(it, ast.Name) and isinstance(n.target, ast.Name):
                out[n.target.id] = it.id
    return out


def shared_between_records(ctx, modules):
    """rule B -> (instances, findings)"""
    insts, out = [], []
    for m in ctx.repo.modules.values():
        if m.short not in modules:
            continue
        for f in m.funcs.values():
            stores = stores_in(f.node)
            if not stores:
                continue
            created = {}
            for n in walk_no_nested(f.node):
                if isinstance(n, (ast.Assign, ast.AnnAssign)) and getattr(n, 'value', None) is not None and is_fresh_mutable(n.value):
                    for t in (n.targets if isinstance(n, ast.Assign) else [n.target]):
                        if isinstance(t, ast.Name):
                            created.setdefault(t.id, []).append(n)
            if not created:
                continue
            al = local_aliases(f.node)
            muts = mutations_in(f.node)
            elems = element_bindings(f.node)
            for root, val, st in stores:
                ls = _loop_stack(st, f.node)
                if not ls:
                    continue
                names = set()
                for x in _stored_names(val):
                    names |= {x} | al.get(x, set())
                for x in sorted(names & set(created)):
                    for cn in created[x]:
                        cs = _loop_stack(cn, f.node)
                        insts.append((f'stored-object:{f.key}:{root}:{x}', m.loc(st), f'created at loop depth {len(cs)}, stored at depth {len(ls)}'))
                        if not (len(cs) < len(ls) and ls[:len(cs)] == cs):
                            continue
                        # written through the container (an element of it), or through the object itself, anywhere in the function
                        hit = None
                        bare = any(x in ({y} | al.get(y, set())) for y in _may_be(val))
                        for r, d, mn in muts:
                            if mn is st or getattr(mn, '_parent', None) is st:
                                continue
                            # C[k][f].extend(..) / z = C[k]; z[f].extend(..): an update inside a record of C
                            if (r == root and d >= 2) or (elems.get(r) == root and d >= 1):
                                hit = mn
                                break
                            # C[k].append(..): the record itself is the shared object only when it was stored bare
                            if bare and ((r == root and d == 1) or (elems.get(r) == root and d == 0)) and isinstance(mn, ast.Call):
                                hit = mn
                                break
                        if hit is not None:
                            out.append((f'shared-between-records:{f.key}:{root}:{x}', m.loc(st),
                                        f'{f.key} stores the object `{x}` (created once per iteration of an outer loop, {m.loc(cn)}) into '
                                        f'`{root}` inside a deeper loop, so several records of `{root}` hold the same object; '
                                        f'`{norm(hit)[:70]}` ({m.loc(hit)}) then updates it in place and the update lands in all of them'))
    return insts, out


# ------------------------------------------------------------------------------------------------------ reporting

CONTROL = '''
_EMPTY: dict = {}


def _ctl_source(x):
    if x is None:
        return _EMPTY
    return dict(x)


def _ctl_writer(x):
    d = _ctl_source(x)
    d['k'] = 1
    return d


def _ctl_default(x, acc=[]):
    acc.append(x)
    return acc


def _ctl_records(groups):
    out = {}
    for g in groups:
        every = [m for m in g]
        for item in g:
            mine = item.get('own') or every
            if item['k'] in out:
                out[item['k']]['members'].extend(mine)
            else:
                out[item['k']] = {'k': item['k'], 'members': mine}
    return out
'''
CONTROL_EXPECT = {'shared-object-written:_zz_sharing_control._ctl_writer:_ctl_source',
                  'shared-object-written:_zz_sharing_control._ctl_default:self',
                  'shared-between-records:_zz_sharing_control._ctl_records:out:every'}


def _control(ctx):
    """the two rules must fire on the built-in positive example (and only there when the tree is clean)."""
    def run():
        from .src import Repo
        from .runtime import Ctx
        ov = dict(ctx.repo.overlay)
        ov['wn/_zz_sharing_control.py'] = CONTROL
        c2 = Ctx(Repo(ctx.repo.root, overlay=ov))
        _, a = shared_object_writes(c2, {'_zz_sharing_control'})
        _, b = shared_between_records(c2, {'_zz_sharing_control'})
        return {k for k, _, _ in a + b}
    return ctx.repo.cache('sharing-control', run)


def report(ctx, res, modules, prefix, rules=('A', 'B')):
    """run rules A / B over `modules` (None = whole package) and report under `prefix`."""
    from .src import AnalysisError
    got = _control(ctx)
    if not CONTROL_EXPECT <= got:
        raise AnalysisError(f'sharing analysis no longer fires on its positive control: missing {sorted(CONTROL_EXPECT - got)}')
    res.inst(f'{prefix}:sharing-control', 'wnstatic/sharing.py', f'{len(got)} control findings')
    mods = modules if modules is not None else {m.short for m in ctx.repo.modules.values()}
    nf = 0
    for m in ctx.repo.modules.values():
        if m.short in mods:
            nf += len(m.funcs)
    res.inst(f'{prefix}:sharing-scope', 'wn/', f'{nf} functions in {sorted(mods)[:6]}{"..." if len(mods) > 6 else ""}')
    if 'A' in rules:
        insts, finds = shared_object_writes(ctx, modules)
        for k, loc, d in insts:
            res.inst(f'{prefix}:{k}', loc, d)
        for k, loc, msg in finds:
            res.find(f'{prefix}:{k}', loc, msg)
    if 'B' in rules:
        insts, finds = shared_between_records(ctx, mods)
        for k, loc, d in sorted(set(insts)):
            res.inst(f'{prefix}:{k}', loc, d)
        for k, loc, msg in finds:
            res.find(f'{prefix}:{k}', loc, msg)
    return nf
