"""Effect summaries: a name-free normal form of what a function does.

`summary(func_node)` executes the body abstractly - forking at `if` / `try` / conditional expressions in assignments,
entering each loop body once with the loop variable symbolic - and returns the list of *effects* of the function:

    Effect(kind, text, guards, ctx)

    kind    'return' | 'yield' | 'raise' | 'store' (X[k] = v, X.a = v, cell = v) | 'aug' (X op= v) | 'call' (expression
            statement) | 'del'
    text    canonical text of the effect with every plain local substituted by its definition
    guards  frozenset of canonical condition texts that hold on the path (negations as `not (...)`)
    ctx     tuple of enclosing loop / with headers, outermost first: 'for <iterable>', 'while <cond>', 'with <expr>'

Canonical naming (so that renaming locals, introducing or removing temporaries, turning `x if c else y` into an
if-statement, `if c: continue` into an else-branch, or re-ordering independent assignments does not change the summary):

  * a local assigned only by straight-line code at the loop depth where it is used is *inlined*;
  * the variable of the k-th enclosing for-loop is `$k` (tuple targets `$k[0]`, `$k[1]`, ...);
  * a local that is mutated in place, or assigned both outside and inside a loop (loop-carried), is a *cell* named by its
    first initial value and order of creation: `#1<[$2]>`, `#2<set()>`; assignments to a scalar cell are 'store' effects;
  * variables bound by comprehensions / lambdas are renamed `_1`, `_2`, ... in order of appearance.

Nothing is evaluated; the summary is a syntactic normal form.  Functions that exceed the path bound raise Opaque.
"""
from __future__ import annotations
import ast
from .src import norm
from .inline import clone, _neg, Opaque

MUTATORS = {'append', 'extend', 'insert', 'update', 'add', 'setdefault', 'pop', 'popitem', 'remove', 'discard', 'clear',
            'sort', 'reverse', 'appendleft', 'extendleft', 'popleft'}
MAX_PATHS = 400


class Effect:
    __slots__ = ('kind', 'text', 'guards', 'ctx', 'node', 'lhs', 'rhs', 'op')

    def __init__(self, kind, text, guards, ctx, node, lhs=None, rhs=None, op=None):
        self.kind, self.text, self.guards, self.ctx, self.node = kind, text, frozenset(guards), tuple(ctx), node
        self.lhs, self.rhs, self.op = lhs, rhs, op

    def key(self):
        return (self.kind, self.text, self.guards, self.ctx)

    @property
    def lhs_text(self):
        return canon(self.lhs) if self.lhs is not None else ''

    @property
    def rhs_text(self):
        return canon(self.rhs) if self.rhs is not None else ''

    def __repr__(self):
        g = ' & '.join(sorted(self.guards)) or '-'
        c = ' > '.join(self.ctx) or '-'
        return f'<{self.kind} {self.text} | when {g} | in {c}>'


# ----------------------------------------------------------------------------------------------------- canonical text

class _Canon(ast.NodeTransformer):
    """rename comprehension / lambda variables in order of appearance"""

    def __init__(self):
        self.n = 0
        self.scopes = []

    def _new(self):
        self.n += 1
        return f'_{self.n}'

    def visit_Name(self, node):
        for sc in reversed(self.scopes):
            if node.id in sc:
                return ast.Name(id=sc[node.id], ctx=node.ctx)
        return node

    def _comp(self, node):
        sc = {}
        self.scopes.append(sc)
        for g in node.generators:
            g.iter = self.visit(g.iter)
            for x in ast.walk(g.target):
                if isinstance(x, ast.Name) and x.id not in sc:
                    sc[x.id] = self._new()
            g.target = self.visit(g.target)
            g.ifs = [self.visit(c) for c in g.ifs]
        for fld in ('elt', 'key', 'value'):
            if hasattr(node, fld):
                setattr(node, fld, self.visit(getattr(node, fld)))
        self.scopes.pop()
        return node

    visit_ListComp = visit_SetComp = visit_GeneratorExp = visit_DictComp = _comp

    _STR_METHODS = {'strip', 'lstrip', 'rstrip', 'lower', 'upper', 'casefold', 'title', 'replace', 'join', 'format'}

    def visit_Compare(self, node):
        self.generic_visit(node)
        # s.strip() == ''  ->  not s.strip()   (the left side is a str: emptiness and falsity coincide)
        if len(node.ops) == 1 and isinstance(node.ops[0], (ast.Eq, ast.NotEq)):
            a, b = node.left, node.comparators[0]
            if isinstance(a, ast.Constant) and a.value == '':
                a, b = b, a
            if isinstance(b, ast.Constant) and b.value == '' and (
                    isinstance(a, ast.JoinedStr)
                    or (isinstance(a, ast.Call) and isinstance(a.func, ast.Attribute) and a.func.attr in self._STR_METHODS)
                    or (isinstance(a, ast.Call) and isinstance(a.func, ast.Name) and a.func.id == 'str')):
                neg = ast.UnaryOp(op=ast.Not(), operand=a)
                return neg if isinstance(node.ops[0], ast.Eq) else ast.UnaryOp(op=ast.Not(), operand=neg)
        return node

    def visit_Lambda(self, node):
        sc = {}
        for a in node.args.posonlyargs + node.args.args + node.args.kwonlyargs:
            sc[a.arg] = self._new()
            a.arg = sc[a.arg]
        self.scopes.append(sc)
        node.body = self.visit(node.body)
        self.scopes.pop()
        return node


_FLIP = {ast.Eq: ast.NotEq, ast.NotEq: ast.Eq, ast.In: ast.NotIn, ast.NotIn: ast.In, ast.Is: ast.IsNot, ast.IsNot: ast.Is,
         ast.Lt: ast.GtE, ast.GtE: ast.Lt, ast.Gt: ast.LtE, ast.LtE: ast.Gt}


def neg_ast(t):
    """logical negation in a canonical spelling: comparisons are flipped, double negations removed"""
    if isinstance(t, ast.UnaryOp) and isinstance(t.op, ast.Not):
        return clone(t.operand)
    if isinstance(t, ast.Compare) and len(t.ops) == 1 and type(t.ops[0]) in _FLIP:
        c = clone(t)
        c.ops = [_FLIP[type(t.ops[0])]()]
        return c
    if isinstance(t, ast.Constant) and isinstance(t.value, bool):
        return ast.Constant(value=not t.value)
    if isinstance(t, ast.BoolOp):
        return ast.BoolOp(op=ast.And() if isinstance(t.op, ast.Or) else ast.Or(), values=[neg_ast(v) for v in t.values])
    return ast.UnaryOp(op=ast.Not(), operand=clone(t))


def conjuncts(t):
    """top-level conjuncts of a condition in negation normal form"""
    if isinstance(t, ast.UnaryOp) and isinstance(t.op, ast.Not) and isinstance(t.operand, ast.BoolOp):
        return conjuncts(neg_ast(t.operand))
    if isinstance(t, ast.UnaryOp) and isinstance(t.op, ast.Not) and isinstance(t.operand, ast.UnaryOp) and isinstance(t.operand.op, ast.Not):
        return conjuncts(t.operand.operand)
    if isinstance(t, ast.BoolOp) and isinstance(t.op, ast.And):
        out = []
        for v in t.values:
            out.extend(conjuncts(v))
        return out
    # `x not in (a, b)` is `x != a and x != b`
    if isinstance(t, ast.Compare) and len(t.ops) == 1 and isinstance(t.ops[0], ast.NotIn) \
            and isinstance(t.comparators[0], (ast.Tuple, ast.List, ast.Set)) and 1 <= len(t.comparators[0].elts) <= 4 \
            and not any(isinstance(e, ast.Starred) for e in t.comparators[0].elts):
        return [ast.Compare(left=clone(t.left), ops=[ast.NotEq()], comparators=[clone(e)]) for e in t.comparators[0].elts]
    return [t]


def _const_truth(t):
    """True / False when the test is decided by its spelling (None is None, not True, ...), else None"""
    if isinstance(t, ast.Constant):
        return bool(t.value)
    if isinstance(t, ast.Compare) and len(t.ops) == 1 and isinstance(t.left, ast.Constant) and isinstance(t.comparators[0], ast.Constant):
        l, r = t.left.value, t.comparators[0].value
        op = t.ops[0]
        if isinstance(op, ast.Is):
            return l is r
        if isinstance(op, ast.IsNot):
            return l is not r
        if isinstance(op, ast.Eq):
            return l == r
        if isinstance(op, ast.NotEq):
            return l != r
    if isinstance(t, ast.UnaryOp) and isinstance(t.op, ast.Not):
        v = _const_truth(t.operand)
        return None if v is None else not v
    return None


class _Hoist(ast.NodeTransformer):
    def visit_IfExp(self, node):
        self.generic_visit(node)
        # `False if c else True` / `True if c else False` over a comparison are `not c` / `c`
        if isinstance(node.body, ast.Constant) and isinstance(node.orelse, ast.Constant) and isinstance(node.body.value, bool) \
                and isinstance(node.orelse.value, bool) and node.body.value != node.orelse.value \
                and isinstance(node.test, (ast.Compare, ast.BoolOp)) or (isinstance(node.test, ast.UnaryOp) and isinstance(node.test.op, ast.Not)
                                                                          and isinstance(node.body, ast.Constant) and isinstance(node.orelse, ast.Constant)
                                                                          and isinstance(node.body.value, bool) and isinstance(node.orelse.value, bool)
                                                                          and node.body.value != node.orelse.value):
            return self.visit(node.test if node.body.value else neg_ast(node.test))
        v = _const_truth(node.test)
        if v is True:
            return node.body
        if v is False:
            return node.orelse
        # one orientation for `a if c else b` / `b if not c else a`: the test is positive (`x`, `==`, `in`) - except identity tests,
        # which are spelled `is not` (the common `v if v is not None else d`)
        t = node.test
        flip = (isinstance(t, ast.UnaryOp) and isinstance(t.op, ast.Not)) or \
            (isinstance(t, ast.Compare) and len(t.ops) == 1 and isinstance(t.ops[0], (ast.NotEq, ast.NotIn, ast.Is)))
        if flip:
            return ast.copy_location(ast.IfExp(test=neg_ast(t), body=node.orelse, orelse=node.body), node)
        return node

    """f(a if c else b) -> (f(a) if c else f(b)) for single-argument calls; not (not x) -> x; not (a == b) -> a != b"""

    def visit_Attribute(self, node):
        self.generic_visit(node)
        # math.inf is float('inf')
        if node.attr == 'inf' and isinstance(node.value, ast.Name) and node.value.id == 'math' and isinstance(node.ctx, ast.Load):
            return ast.Call(func=ast.Name(id='float', ctx=ast.Load()), args=[ast.Constant(value='inf')], keywords=[])
        return node

    _CONSUMERS = {'max', 'min', 'sum', 'any', 'all', 'sorted', 'set', 'frozenset', 'tuple', 'list', 'dict', 'unique_list', 'Counter'}

    def visit_Call(self, node):
        self.generic_visit(node)
        # operator.methodcaller('m', *a)(x)  ->  x.m(*a);  operator.attrgetter('a')(x) -> x.a;  operator.itemgetter(k)(x) -> x[k]
        if isinstance(node.func, ast.Call) and len(node.args) == 1 and not node.keywords:
            inner = node.func
            nm = inner.func.attr if isinstance(inner.func, ast.Attribute) else (inner.func.id if isinstance(inner.func, ast.Name) else None)
            if nm == 'methodcaller' and inner.args and isinstance(inner.args[0], ast.Constant) and isinstance(inner.args[0].value, str):
                return ast.Call(func=ast.Attribute(value=node.args[0], attr=inner.args[0].value, ctx=ast.Load()),
                                args=list(inner.args[1:]), keywords=list(inner.keywords))
            if nm == 'attrgetter' and len(inner.args) == 1 and isinstance(inner.args[0], ast.Constant) and isinstance(inner.args[0].value, str) \
                    and '.' not in inner.args[0].value:
                return ast.Attribute(value=node.args[0], attr=inner.args[0].value, ctx=ast.Load())
            if nm == 'itemgetter' and len(inner.args) == 1:
                return ast.Subscript(value=node.args[0], slice=inner.args[0], ctx=ast.Load())
        # f([x for ...])  ->  f((x for ...))  for callables that only iterate their argument once
        if node.args and isinstance(node.args[0], ast.ListComp) and (
                (isinstance(node.func, ast.Name) and node.func.id in self._CONSUMERS)
                or (isinstance(node.func, ast.Attribute) and node.func.attr in ('join', 'extend', 'update'))):
            lc = node.args[0]
            node.args[0] = ast.GeneratorExp(elt=lc.elt, generators=lc.generators)
        if isinstance(node.func, ast.Name) and node.func.id == 'map' and len(node.args) == 2 and not node.keywords \
                and isinstance(node.args[0], (ast.Name, ast.Attribute)):
            v = ast.Name(id='_m', ctx=ast.Load())
            return ast.GeneratorExp(elt=ast.Call(func=node.args[0], args=[v], keywords=[]),
                                    generators=[ast.comprehension(target=ast.Name(id='_m', ctx=ast.Store()), iter=node.args[1], ifs=[], is_async=0)])
        if isinstance(node.func, ast.Attribute) and node.func.attr == 'format' and isinstance(node.func.value, ast.Constant) \
                and isinstance(node.func.value.value, str) and not any(isinstance(a, ast.Starred) for a in node.args) \
                and not any(k.arg is None for k in node.keywords):
            # 'a{}b{x}'.format(u, x=v)  ->  f'a{u}b{v}'
            import string
            try:
                parts = list(string.Formatter().parse(node.func.value.value))
            except ValueError:
                parts = None
            if parts is not None and all((fs in (None, '') and cv is None) for _, fn_, fs, cv in parts):
                vals, auto, ok = [], 0, True
                kw = {k.arg: k.value for k in node.keywords}
                for lit, fn_, fs, cv in parts:
                    if lit:
                        vals.append(ast.Constant(value=lit))
                    if fn_ is None:
                        continue
                    if fn_ == '':
                        if auto < len(node.args):
                            v = node.args[auto]
                            auto += 1
                        else:
                            ok = False
                            break
                    elif fn_.isdigit() and int(fn_) < len(node.args):
                        v = node.args[int(fn_)]
                    elif fn_ in kw:
                        v = kw[fn_]
                    else:
                        ok = False
                        break
                    vals.append(ast.FormattedValue(value=v, conversion=-1, format_spec=None))
                if ok:
                    return ast.JoinedStr(values=vals)
        if len(node.args) == 1 and not node.keywords and isinstance(node.args[0], ast.IfExp) and isinstance(node.func, (ast.Name, ast.Attribute)):
            ie = node.args[0]
            a = clone(node)
            a.args = [ie.body]
            b = clone(node)
            b.args = [ie.orelse]
            return ast.IfExp(test=ie.test, body=self.visit(a), orelse=self.visit(b))
        return node

    def visit_UnaryOp(self, node):
        self.generic_visit(node)
        if isinstance(node.op, ast.Not):
            o = node.operand
            if isinstance(o, ast.UnaryOp) and isinstance(o.op, ast.Not):
                return o.operand
            if isinstance(o, ast.Compare) and len(o.ops) == 1 and type(o.ops[0]) in (ast.Eq, ast.NotEq, ast.In, ast.NotIn, ast.Is, ast.IsNot):
                return neg_ast(o)
            if isinstance(o, ast.BoolOp):
                return self.visit(neg_ast(o))
        return node


def hoist(node):
    return _Hoist().visit(clone(node)) if node is not None else None


def canon(node):
    try:
        return norm(_Canon().visit(_Hoist().visit(clone(node))))
    except Exception:  # noqa: BLE001
        return norm(node)


class _Subst(ast.NodeTransformer):
    def __init__(self, env):
        self.env = env

    def visit_Name(self, node):
        if isinstance(node.ctx, ast.Load) and node.id in self.env:
            return clone(self.env[node.id])
        return node

    def visit_Attribute(self, node):
        # a field of `self` that this function has just assigned reads as the assigned value
        if isinstance(node.ctx, ast.Load) and isinstance(node.value, ast.Name) and node.value.id == 'self' \
                and 'self.' + node.attr in self.env and 'self' not in self.env:
            return clone(self.env['self.' + node.attr])
        self.generic_visit(node)
        return node

    def _shadow(self, names):
        return _Subst({k: v for k, v in self.env.items() if k not in names})

    def visit_Lambda(self, node):
        inner = self._shadow({a.arg for a in node.args.posonlyargs + node.args.args + node.args.kwonlyargs})
        node.body = inner.visit(node.body)
        return node

    def _comp(self, node):
        shadow = set()
        for g in node.generators:
            shadow |= {x.id for x in ast.walk(g.target) if isinstance(x, ast.Name)}
        inner = self._shadow(shadow)
        first = True
        for g in node.generators:
            g.iter = (self if first else inner).visit(g.iter)
            first = False
            g.ifs = [inner.visit(c) for c in g.ifs]
        for fld in ('elt', 'key', 'value'):
            if hasattr(node, fld):
                setattr(node, fld, inner.visit(getattr(node, fld)))
        return node

    visit_ListComp = visit_SetComp = visit_GeneratorExp = visit_DictComp = _comp


def subst(expr, env):
    return _Subst(env).visit(clone(expr))


# ----------------------------------------------------------------------------------------------------------- pre-pass

def _loop_stack(node, fnode):
    st = []
    n = getattr(node, '_parent', None)
    prev = node
    while n is not None and n is not fnode:
        if isinstance(n, (ast.For, ast.AsyncFor, ast.While)) and (prev in n.body or any(prev is x for x in n.body)):
            st.append(n)
        elif isinstance(n, (ast.For, ast.AsyncFor)) and prev is n.target:
            st.append(n)
        prev = n
        n = getattr(n, '_parent', None)
    return tuple(reversed(st))


def _walk_own(fnode):
    stack = list(ast.iter_child_nodes(fnode))
    while stack:
        n = stack.pop()
        yield n
        if isinstance(n, (ast.FunctionDef, ast.AsyncFunctionDef, ast.ClassDef, ast.Lambda)):
            continue
        stack.extend(ast.iter_child_nodes(n))


def _is_loop_var(fnode, name):
    for n in _walk_own(fnode):
        if isinstance(n, (ast.For, ast.AsyncFor)) and any(isinstance(x, ast.Name) and x.id == name for x in ast.walk(n.target)):
            return True
    return False


def find_cells(fnode):
    """local names that must be treated as cells (objects with identity / loop-carried state)."""
    params = {a.arg for a in fnode.args.posonlyargs + fnode.args.args + fnode.args.kwonlyargs}
    binds = {}     # name -> [(loop stack, node)]
    reads = {}
    mutated = set()
    comp_bound = set()
    for n in _walk_own(fnode):
        if isinstance(n, (ast.ListComp, ast.SetComp, ast.GeneratorExp, ast.DictComp)):
            for g in n.generators:
                comp_bound |= {x.id for x in ast.walk(g.target) if isinstance(x, ast.Name)}
    for n in _walk_own(fnode):
        if isinstance(n, ast.Name):
            par = getattr(n, '_parent', None)
            in_comp_target = False
            p = par
            while p is not None and p is not fnode:
                if isinstance(p, ast.comprehension) and any(n is x for x in ast.walk(p.target)):
                    in_comp_target = True
                    break
                p = getattr(p, '_parent', None)
            if in_comp_target:
                continue
            if isinstance(n.ctx, (ast.Store, ast.Del)):
                binds.setdefault(n.id, []).append((_loop_stack(n, fnode), n))
            else:
                reads.setdefault(n.id, []).append((_loop_stack(n, fnode), n))
        if isinstance(n, ast.Call) and isinstance(n.func, ast.Attribute) and n.func.attr in MUTATORS:
            r = n.func.value
            while isinstance(r, (ast.Subscript, ast.Attribute)):
                r = r.value
            if isinstance(r, ast.Name):
                mutated.add(r.id)
        if isinstance(n, (ast.Assign, ast.AugAssign, ast.Delete, ast.AnnAssign)):
            tg = n.targets if isinstance(n, (ast.Assign, ast.Delete)) else [n.target]
            for t in tg:
                for x in ([t] if not isinstance(t, (ast.Tuple, ast.List)) else t.elts):
                    if isinstance(x, (ast.Subscript, ast.Attribute)):
                        r = x.value
                        while isinstance(r, (ast.Subscript, ast.Attribute)):
                            r = r.value
                        if isinstance(r, ast.Name):
                            mutated.add(r.id)
                    elif isinstance(n, ast.AugAssign) and isinstance(x, ast.Name) and not _is_loop_var(fnode, x.id):
                        mutated.add(x.id)
    # a local that is only an alias of (a part of) another local - `row = table[key]` - hands its mutations on to that local
    changed = True
    while changed:
        changed = False
        for n in _walk_own(fnode):
            if isinstance(n, ast.Assign) and len(n.targets) == 1 and isinstance(n.targets[0], ast.Name) and n.targets[0].id in mutated:
                r = n.value
                while isinstance(r, (ast.Subscript, ast.Attribute)):
                    r = r.value
                if isinstance(r, ast.Name) and r is not n.value and r.id not in mutated and r.id not in params:
                    mutated.add(r.id)
                    changed = True
    cells = set()
    for name, bl in binds.items():
        if name in params and name not in mutated:
            # a re-bound parameter is handled as a value
            continue
        if name in mutated and name not in params:
            cells.add(name)
            continue
        stacks = {tuple(id(x) for x in st) for st, _ in bl}
        # loop targets themselves are not cells
        loop_target = any(isinstance(getattr(nd, '_parent', None), (ast.For, ast.AsyncFor)) and nd is nd._parent.target
                          or _is_in_for_target(nd) for _, nd in bl)
        if loop_target and len(bl) == 1:
            continue
        for st, nd in bl:
            if not st:
                continue
            inner = st[-1]
            # bound inside loop `inner`: a cell if it is also bound or read outside that loop - except for occurrences inside
            # another loop whose own target binds the name (the same spelling re-used for an unrelated variable: every read
            # there sees that loop's binding)
            for st2, nd2 in bl + reads.get(name, []):
                if inner not in st2:
                    if any(lp is not inner and lp not in st and isinstance(lp, (ast.For, ast.AsyncFor))
                           and any(isinstance(x, ast.Name) and x.id == name for x in ast.walk(lp.target)) for lp in st2):
                        continue
                    if len(st) == 1 and isinstance(inner, (ast.For, ast.AsyncFor)) and any(nd is x for x in ast.walk(inner.target)) \
                            and nd2.lineno < inner.lineno:
                        continue       # the target of a top-level loop re-binds the name: earlier occurrences are unrelated
                    cells.add(name)
                    break
            # or read in the loop before (textually) its first binding there: loop-carried
            if name not in cells:
                first_bind = min(b.lineno * 10000 + b.col_offset for s2, b in bl if inner in s2)
                for st2, rd in reads.get(name, []):
                    if inner in st2 and rd.lineno * 10000 + rd.col_offset < first_bind and not _same_stmt_rhs(rd, bl):
                        cells.add(name)
                        break
    return cells - comp_bound


def _is_in_for_target(nd):
    p = getattr(nd, '_parent', None)
    c = nd
    while p is not None:
        if isinstance(p, (ast.For, ast.AsyncFor)):
            return any(c is x for x in ast.walk(p.target)) and (c is p.target or any(c is y for y in ast.walk(p.target)))
        if isinstance(p, ast.stmt):
            return False
        c = p
        p = getattr(p, '_parent', None)
    return False


def _same_stmt_rhs(rd, bl):
    return False


# -------------------------------------------------------------------------------------------------------- interpreter

def _is_path(e):
    while isinstance(e, (ast.Subscript, ast.Attribute)):
        e = e.value
    return isinstance(e, ast.Name)


def _single_exit(fn):
    """no yield; at most one return and that is the last statement of the body"""
    rets = [n for n in _walk_own(fn) if isinstance(n, ast.Return)]
    if any(isinstance(n, (ast.Yield, ast.YieldFrom, ast.Await)) for n in _walk_own(fn)):
        return False
    if not rets:
        return True
    return len(rets) == 1 and fn.body and fn.body[-1] is rets[0]


class _Prefixed:
    """view of the shared cell table in which a callee's local names are kept apart from the caller's"""

    def __init__(self, base, prefix):
        self.base, self.prefix = base, prefix

    def __contains__(self, k):
        return self.prefix + k in self.base

    def __getitem__(self, k):
        return self.base[self.prefix + k]

    def __setitem__(self, k, v):
        self.base[self.prefix + k] = v

    def __len__(self):
        return len(self.base)

    def pop(self, k, d=None):
        return self.base.pop(self.prefix + k, d)

    def items(self):
        return [(k[len(self.prefix):], v) for k, v in self.base.items() if k.startswith(self.prefix)]


class _State:
    __slots__ = ('env', 'guards', 'ctx', 'depth')

    def __init__(self, env, guards, ctx, depth):
        self.env, self.guards, self.ctx, self.depth = env, guards, ctx, depth

    def fork(self, **kw):
        s = _State(dict(self.env), list(self.guards), list(self.ctx), self.depth)
        for k, v in kw.items():
            setattr(s, k, v)
        return s

    def envkey(self):
        return tuple(sorted((k, norm(v)) for k, v in self.env.items()))

    def ctx_has_loop(self):
        return any(c.startswith(('for ', 'while ')) for c in self.ctx)


class Summarizer:
    def __init__(self, fnode, inline_call=None, helpers=None, depth=0):
        self.fnode = fnode
        self.cells = find_cells(fnode)
        self.cell_sym = {}
        self.effects = []
        self.helpers = helpers or {}      # name -> FunctionDef of module-level private helpers
        self.helper_nodes = {}            # every module-level function (for extend(<helper>) expansion)
        self.depth = depth
        self.closures = {}                # name -> FunctionDef of nested defs (statement-level inlining)
        self.closure_envs = {}            # name -> environment of the enclosing function where the nested def is made
        self.npaths = 0
        self.negof = {}
        self.gast = {}
        self.local_defs = {}
        self.inline_call = inline_call

    # -- helpers
    def val(self, e, st):
        v = subst(e, st.env)
        if self.local_defs:
            v = self._inline_local(v, st, 0)
            v = self._local_defs_as_values(v, st)
        if self.inline_call is not None:
            v = self.inline_call(v)
        return v

    def _local_defs_as_values(self, v, st):
        """a simple local function that is passed as a value (`key=weight`) is the lambda with the same body"""
        me = self
        called = {id(n.func) for n in ast.walk(v) if isinstance(n, ast.Call)}

        class L(ast.NodeTransformer):
            def visit_Name(self, node):
                if isinstance(node.ctx, ast.Load) and node.id in me.local_defs and id(node) not in called:
                    params, defaults, ret = me.local_defs[node.id]
                    if defaults:
                        return node
                    outer = {k: v2 for k, v2 in st.env.items() if k not in params}
                    args = ast.arguments(posonlyargs=[], args=[ast.arg(arg=p) for p in params], kwonlyargs=[], kw_defaults=[], defaults=[])
                    return ast.Lambda(args=args, body=subst(clone(ret), outer))
                return node
        return L().visit(v)

    def _inline_local(self, v, st, depth):
        """calls to side-effect-free closures defined in this function are replaced by their value"""
        me = self

        class L(ast.NodeTransformer):
            def visit_Call(self, node):
                self.generic_visit(node)
                if isinstance(node.func, ast.Name) and node.func.id in me.local_defs and depth < 3:
                    params, defaults, ret = me.local_defs[node.func.id]
                    if any(isinstance(a, ast.Starred) for a in node.args) or any(k.arg is None for k in node.keywords):
                        return node
                    env = dict(zip(params, node.args))
                    for k in node.keywords:
                        if k.arg in params:
                            env[k.arg] = k.value
                    for p_ in params:
                        if p_ not in env:
                            if p_ not in defaults:
                                return node
                            env[p_] = defaults[p_]
                    outer = {k: v2 for k, v2 in st.env.items() if k not in params}
                    return me._inline_local(subst(subst(ret, env), outer), st, depth + 1)
                return node
        return L().visit(v)

    def text(self, e, st):
        return canon(self.val(e, st))

    def emit(self, kind, text, st, node, lhs=None, rhs=None, op=None):
        gs = []
        asts = []
        for g in st.guards:
            a = self.gast.get(g)
            if a is None:
                gs.append(g)
            else:
                asts.extend(conjuncts(hoist(a)))
        # unit propagation: with the conjunct A, the conjunct `not A or B` is B and the conjunct `A or B` is true
        changed = True
        while changed:
            changed = False
            atoms = {canon(c) for c in asts if not (isinstance(c, ast.BoolOp) and isinstance(c.op, ast.Or))} | set(gs)
            for i, c in enumerate(asts):
                if isinstance(c, ast.BoolOp) and isinstance(c.op, ast.Or):
                    vals = list(c.values)
                    if any(canon(v) in atoms for v in vals):
                        asts.pop(i)
                        changed = True
                        break
                    keep = [v for v in vals if canon(neg_ast(v)) not in atoms]
                    if len(keep) != len(vals) and keep:
                        rest = keep[0] if len(keep) == 1 else ast.BoolOp(op=ast.Or(), values=keep)
                        asts[i:i + 1] = conjuncts(rest)
                        changed = True
                        break
        for c in asts:
            t = canon(c)
            if t not in self.negof:
                nt = canon(neg_ast(c))
                self.negof[t] = nt
                self.negof.setdefault(nt, t)
            gs.append(t)
        self.effects.append(Effect(kind, text, gs, st.ctx, node, hoist(lhs), hoist(rhs), op))

    def _split(self, g):
        a = self.gast.get(g)
        if a is None:
            return [g]
        return [canon(c) for c in conjuncts(hoist(a))]

    def _conj_texts(self, st):
        out = set()
        for g in st.guards:
            out.update(self._split(g))
        return out

    def guard(self, node):
        """canonical text of a (substituted) condition, remembered for conjunct splitting"""
        t = canon(node)
        self.gast[t] = node
        return t

    def emit_store(self, target_val, value_val, st, node, kind='store', op='='):
        self.emit(kind, f'{canon(target_val)} {op} {canon(value_val)}', st, node, lhs=target_val, rhs=value_val, op=op)

    def nfor(self, st):
        return sum(1 for c in st.ctx if c.startswith('for ')) + 1

    def expand_comp(self, sym, comp, st, node):
        """`sym = <comprehension>` as loop effects on the (already created, empty) cell `sym`."""
        cur = st.fork()
        for g in comp.generators:
            k = self.nfor(cur)
            it = self.text(g.iter, cur)
            cur.ctx.append(f'for {it}')
            self._bind_loop_target(g.target, ast.Name(id=f'${k}', ctx=ast.Load()), cur)
            for c in g.ifs:
                cur.guards.append(self.guard(self.val(c, cur)))
        if isinstance(comp, ast.DictComp):
            tgt = ast.Subscript(value=clone(sym), slice=self.val(comp.key, cur), ctx=ast.Store())
            self.emit_store(tgt, self._merged_display(comp.value, cur, node) or self.val(comp.value, cur), cur, node)
        else:
            meth = 'add' if isinstance(comp, ast.SetComp) else 'append'
            call = ast.Call(func=ast.Attribute(value=clone(sym), attr=meth, ctx=ast.Load()),
                            args=[self._merged_display(comp.elt, cur, node) or self.val(comp.elt, cur)], keywords=[])
            self.emit('call', canon(call), cur, node, lhs=sym, rhs=call.args[0], op=meth)

    def _merged_display(self, e, st, node):
        """`{..} | ({k: v} if c else {})` (a record with an optional key) is the record built in a fresh cell followed by the
        conditional store of the optional key - the form an explicit loop gives: -> the cell symbol, or None"""
        if not (isinstance(e, ast.BinOp) and isinstance(e.op, ast.BitOr) and isinstance(e.left, ast.Dict)
                and all(isinstance(k, ast.Constant) for k in e.left.keys)):
            return None
        r = e.right
        alts = []
        if isinstance(r, ast.Dict):
            alts = [(None, True, r)]
        elif isinstance(r, ast.IfExp) and isinstance(r.body, ast.Dict) and isinstance(r.orelse, ast.Dict):
            alts = [(r.test, True, r.body), (r.test, False, r.orelse)]
        else:
            return None
        if any(k is None or not isinstance(k, ast.Constant) for _, _, d in alts for k in d.keys):
            return None
        self._nmerge = getattr(self, '_nmerge', 0) + 1
        init = self.val(e.left, st)
        cell = self.new_cell(f'<merged display {self._nmerge}>', canon(init), st, node, init=init)
        for test, pol, d in alts:
            cur = st.fork()
            if test is not None:
                tv = self.val(test, st)
                cur.guards.append(self.guard(tv if pol else neg_ast(tv)))
            for k, v in zip(d.keys, d.values):
                self.emit_store(ast.Subscript(value=clone(cell), slice=clone(k), ctx=ast.Store()), self.val(v, st), cur, node)
        return cell

    _EMPTY = {ast.ListComp: '[]', ast.GeneratorExp: '[]', ast.SetComp: 'set()', ast.DictComp: '{}'}

    def split_ifexp(self, e):
        """[(guards [(test node, polarity)], expr)] - conditional expressions at the top (or as the only argument of a call)
        are split into alternatives."""
        if isinstance(e, ast.IfExp):
            out = []
            for g, x in self.split_ifexp(e.body):
                out.append(([(e.test, True)] + g, x))
            for g, x in self.split_ifexp(e.orelse):
                out.append(([(e.test, False)] + g, x))
            return out
        if isinstance(e, ast.Call) and len(e.args) == 1 and not e.keywords and isinstance(e.args[0], ast.IfExp):
            out = []
            for g, x in self.split_ifexp(e.args[0]):
                c = clone(e)
                c.args = [clone(x)]
                out.append((g, c))
            return out
        return [([], e)]

    # -- statements
    def run(self, stmts, states):
        for s in stmts:
            nxt = []
            for st in states:
                nxt.extend(self.step(s, st))
            states = self.merge(nxt)
            if len(states) > MAX_PATHS:
                raise Opaque(f'more than {MAX_PATHS} paths')
            if not states:
                break
        return states

    def merge(self, states):
        """states with the same environment and context whose guards differ only by one complementary test are joined."""
        changed = True
        while changed and len(states) > 1:
            changed = False
            for i in range(len(states)):
                for j in range(i + 1, len(states)):
                    a, b = states[i], states[j]
                    if a.ctx == b.ctx and a.envkey() == b.envkey():
                        ga, gb = set(a.guards), set(b.guards)
                        da, db = ga - gb, gb - ga
                        if len(da) == 1 and len(db) == 1 and self.negof.get(next(iter(da))) == next(iter(db)):
                            keep = [g for g in a.guards if g in gb]
                            states = [s for k, s in enumerate(states) if k not in (i, j)] + [a.fork(guards=keep)]
                            changed = True
                            break
                        if ga == gb:
                            states = [s for k, s in enumerate(states) if k != j]
                            changed = True
                            break
                if changed:
                    break
        return states

    def inline_stmt_call(self, call, st):
        """`call` is the whole right-hand side / statement.  If it calls a single-exit closure of this function or a single-exit
        private helper of the module, its body is executed here (parameters bound to the arguments, its own locals kept apart)
        and the returned value is handed back:  -> (states, value node or None)  or None when not applicable."""
        if self.depth >= 3 or not isinstance(call, ast.Call) or not isinstance(call.func, ast.Name):
            return None
        fn = self.closures.get(call.func.id)
        closure = fn is not None
        if fn is None:
            fn = self.helpers.get(call.func.id)
            if fn is None or call.func.id in st.env:
                return None
        if fn is self.fnode or any(isinstance(a, ast.Starred) for a in call.args) or any(k.arg is None for k in call.keywords):
            return None
        a = fn.args
        if a.vararg or a.kwarg:
            return None
        params = [p.arg for p in a.posonlyargs + a.args]
        defaults = dict(zip(params[len(params) - len(a.defaults):], a.defaults))
        for p_, d in zip(a.kwonlyargs, a.kw_defaults):
            params.append(p_.arg)
            if d is not None:
                defaults[p_.arg] = d
        env = {}
        for p_, arg in zip(params, call.args):
            env[p_] = self.val(arg, st)
        for k in call.keywords:
            if k.arg not in params:
                return None
            env[k.arg] = self.val(k.value, st)
        for p_ in params:
            if p_ not in env:
                if p_ not in defaults:
                    return None
                env[p_] = clone(defaults[p_])
        sub = Summarizer(fn, self.inline_call, self.helpers, self.depth + 1)
        sub.helper_nodes = self.helper_nodes
        sub.effects = self.effects
        sub.negof, sub.gast = self.negof, self.gast
        sub.cell_sym = _Prefixed(self.cell_sym, f'{call.func.id}@{getattr(call, "lineno", 0)}:')
        base = dict(st.env) if closure else {}
        base.update(env)
        mark = len(self.effects)
        body = list(fn.body)
        ret = None
        if body and isinstance(body[-1], ast.Return):
            ret = body[-1].value
            body = body[:-1]
        try:
            start = _State(base, list(st.guards), list(st.ctx), st.depth)
            ends = sub.run(body, [start])
        except Opaque:
            del self.effects[mark:]
            return None
        if len(ends) != 1:
            del self.effects[mark:]
            return None
        end = ends[0]
        value = None
        if ret is not None:
            if isinstance(ret, (ast.ListComp, ast.SetComp, ast.DictComp)):
                sym = sub.new_cell(f'<ret{ret.lineno}>', self._EMPTY[type(ret)], end, body[-1] if body else fn)
                sub.expand_comp(sym, ret, end, fn)
                value = sym
            else:
                value = sub.val(ret, end)
        out = st.fork()
        return [out], value

    def assign_name(self, name, value_node, st, node):
        """-> list of states"""
        inl = self.inline_stmt_call(value_node, st) if isinstance(value_node, ast.Call) else None
        if inl is not None and inl[1] is not None:
            states, value = inl
            s3 = states[0]
            s3.env[name] = value
            if isinstance(value, ast.Name) and value.id.startswith('#'):
                self.cells.discard(name)
            return [s3]
        s2 = st.fork()
        if name in self.cells and isinstance(value_node, ast.Call) and isinstance(value_node.func, ast.Name) \
                and value_node.func.id in ('set', 'list') and len(value_node.args) == 1 and not value_node.keywords \
                and isinstance(value_node.args[0], (ast.GeneratorExp, ast.ListComp, ast.SetComp)) \
                and not (value_node.func.id == 'list' and isinstance(value_node.args[0], ast.SetComp)):
            # x = set(f(t) for t in it), later updated in place  ==  x = {f(t) for t in it}
            inner = value_node.args[0]
            value_node = ast.copy_location((ast.SetComp if value_node.func.id == 'set' else ast.ListComp)(
                elt=inner.elt, generators=inner.generators), value_node)
        if isinstance(value_node, (ast.ListComp, ast.SetComp, ast.DictComp)):
            # x = [f(t) for t in it if c]  ==  x = []; for t in it: if c: x.append(f(t))
            self.cells.add(name)
            self.cell_sym.pop(name, None) if name not in self.cell_sym else None
            pre = st.fork()
            sym = self.new_cell(name, self._EMPTY[type(value_node)], s2, node)
            self.expand_comp(sym, value_node, pre, node)
            return [s2]
        vv = self.val(value_node, st)
        if name in self.cells and name not in self.cell_sym and _is_path(vv) and not self._rebound_in_loop(name):
            # an alias of (part of) an existing object, e.g. `row = table[key]`: no new object
            s2.env[name] = vv
            return [s2]
        if name in self.cells:
            if name not in self.cell_sym:
                self.new_cell(name, canon(vv), s2, node, init=vv)
            else:
                sym = ast.Name(id=self.cell_sym[name], ctx=ast.Load())
                s2.env[name] = sym
                self.emit_store(sym, vv, s2, node)
        else:
            s2.env[name] = vv
        return [s2]

    def _rebound_in_loop(self, name):
        n = 0
        for x in _walk_own(self.fnode):
            if isinstance(x, ast.Name) and x.id == name and isinstance(x.ctx, ast.Store):
                n += 1
        return n > 1

    def new_cell(self, name, init_text, st, node, init=None):
        if name in self.cell_sym:
            # re-created (e.g. once per iteration of an enclosing loop, or on another path): same symbol
            sym = ast.Name(id=self.cell_sym[name], ctx=ast.Load())
            st.env[name] = sym
            self.emit('new', sym.id, st, node, rhs=init)
            return sym
        self.cell_sym[name] = f'#{len(self.cell_sym) + 1}<{init_text}>'
        sym = ast.Name(id=self.cell_sym[name], ctx=ast.Load())
        st.env[name] = sym
        self.emit('new', sym.id, st, node, rhs=init)
        return sym

    def bind_target(self, t, vnode, st, node):
        """bind an assignment target to the value node (already a source-level node) -> states"""
        if isinstance(t, ast.Name):
            return self.assign_name(t.id, vnode, st, node)
        if isinstance(t, (ast.Tuple, ast.List)):
            states = [st]
            if isinstance(vnode, (ast.Tuple, ast.List)) and len(vnode.elts) == len(t.elts):
                for te, ve in zip(t.elts, vnode.elts):
                    nxt = []
                    for s in states:
                        nxt.extend(self.bind_target(te, ve, s, node))
                    states = nxt
                return states
            star = [i for i, te in enumerate(t.elts) if isinstance(te, ast.Starred)]
            for i, te in enumerate(t.elts):
                if isinstance(te, ast.Starred):
                    after = len(t.elts) - i - 1
                    sl = ast.Slice(lower=ast.Constant(value=i) if i else None, upper=ast.Constant(value=-after) if after else None)
                    sub = ast.Subscript(value=clone(vnode), slice=sl, ctx=ast.Load())
                    te = te.value
                elif star and i > star[0]:
                    sub = ast.Subscript(value=clone(vnode), slice=ast.Constant(value=i - len(t.elts)), ctx=ast.Load())
                else:
                    sub = ast.Subscript(value=clone(vnode), slice=ast.Constant(value=i), ctx=ast.Load())
                nxt = []
                for s in states:
                    nxt.extend(self.bind_target(te, sub, s, node))
                states = nxt
            return states
        # subscript / attribute store
        out = []
        tv = self.val(t, st) if not (isinstance(t, ast.Attribute) and isinstance(t.value, ast.Name) and t.value.id == 'self') else clone(t)
        whole = hoist(self.val(vnode, st))
        for g, v in self.split_ifexp(whole):
            s2 = st.fork()
            for tt_, pol in g:
                s2.guards.append(self.guard(tt_ if pol else neg_ast(tt_)))
            self.emit_store(tv, v, s2, node)
            out.append(s2)
        # the continuing state does not depend on which alternative was stored
        nxt = st.fork()
        if isinstance(t, ast.Attribute) and isinstance(t.value, ast.Name) and t.value.id == 'self':
            if len(norm(whole)) <= 60 and not st.ctx_has_loop():
                nxt.env['self.' + t.attr] = whole
            else:
                nxt.env['self.' + t.attr] = ast.Attribute(value=ast.Name(id='self', ctx=ast.Load()), attr=t.attr, ctx=ast.Load())
        return [nxt]

    def step(self, s, st):
        if isinstance(s, ast.Expr):
            if isinstance(s.value, ast.Constant):
                return [st]
            if isinstance(s.value, (ast.Yield, ast.YieldFrom)):
                v = s.value.value
                kind = 'yield' if isinstance(s.value, ast.Yield) else 'yield-from'
                self.emit(kind, self.text(v, st) if v is not None else 'None', st, s)
                return [st]
            c = s.value
            inl = self.inline_stmt_call(c, st) if isinstance(c, ast.Call) else None
            if inl is not None:
                return inl[0]
            if isinstance(c, ast.Call) and isinstance(c.func, ast.Attribute) and len(c.args) == 1 and not c.keywords:
                a0 = c.args[0]
                recv = self.val(c.func.value, st)
                if c.func.attr == 'extend' and isinstance(a0, ast.Call) and isinstance(a0.func, ast.Name) and a0.func.id in self.helper_nodes:
                    sb = _simple_body(self.helper_nodes[a0.func.id], allow_comp=True)
                    if sb is not None and isinstance(sb[2], (ast.ListComp, ast.GeneratorExp)) and not a0.keywords \
                            and len(a0.args) == len(sb[0]) and not any(isinstance(x, ast.Starred) for x in a0.args):
                        body = subst(sb[2], {p_: self.val(x, st) for p_, x in zip(sb[0], a0.args)})
                        pre = _State({}, list(st.guards), list(st.ctx), st.depth)
                        self.expand_comp(recv, ast.ListComp(elt=body.elt, generators=body.generators), pre, s)
                        return [st]
                if c.func.attr == 'extend' and isinstance(a0, (ast.ListComp, ast.GeneratorExp)):
                    self.expand_comp(recv, ast.ListComp(elt=a0.elt, generators=a0.generators), st, s)
                    return [st]
                if c.func.attr == 'extend' and not isinstance(a0, (ast.List, ast.Tuple)):
                    # X.extend(E)  ==  for e in E: X.append(e)
                    cur = st.fork()
                    k = self.nfor(cur)
                    cur.ctx.append(f'for {self.text(a0, st)}')
                    sym = ast.Name(id=f'${k}', ctx=ast.Load())
                    call = ast.Call(func=ast.Attribute(value=clone(recv), attr='append', ctx=ast.Load()), args=[sym], keywords=[])
                    self.emit('call', canon(call), cur, s, lhs=recv, rhs=sym, op='append')
                    return [st]
                if c.func.attr == 'update' and isinstance(a0, ast.DictComp):
                    self.expand_comp(recv, a0, st, s)
                    return [st]
                if c.func.attr == 'update' and isinstance(a0, (ast.ListComp, ast.GeneratorExp, ast.SetComp)) \
                        and not (isinstance(a0.elt, ast.Tuple) and len(a0.elt.elts) == 2):
                    # S.update(x for ...)  ==  for ...: S.add(x)
                    self.expand_comp(recv, ast.SetComp(elt=a0.elt, generators=a0.generators), st, s)
                    return [st]
                if c.func.attr == 'update' and isinstance(a0, (ast.ListComp, ast.GeneratorExp)) and isinstance(a0.elt, ast.Tuple) \
                        and len(a0.elt.elts) == 2:
                    self.expand_comp(recv, ast.DictComp(key=a0.elt.elts[0], value=a0.elt.elts[1], generators=a0.generators), st, s)
                    return [st]
            if isinstance(c, ast.Call) and isinstance(c.func, ast.Attribute):
                cv = self.val(c, st)
                self.emit('call', canon(cv), st, s, lhs=cv.func.value if isinstance(cv, ast.Call) and isinstance(cv.func, ast.Attribute) else None,
                          rhs=cv.args[0] if isinstance(cv, ast.Call) and cv.args else None, op=c.func.attr)
                return [st]
            self.emit('call', self.text(s.value, st), st, s)
            return [st]
        if isinstance(s, (ast.Assign, ast.AnnAssign)) and isinstance(getattr(s, 'value', None), ast.Call) \
                and not (isinstance(s.value.func, ast.Name) and (s.value.func.id in self.closures or s.value.func.id in self.helpers)):
            # the call is evaluated here, whatever becomes of its value
            cv = self.val(s.value, st)
            if isinstance(cv, ast.Call):
                self.emit('eval', canon(cv), st, s, rhs=cv)
        if isinstance(s, ast.Assign):
            states = [st]
            for t in s.targets:
                nxt = []
                for x in states:
                    nxt.extend(self.bind_target(t, s.value, x, s))
                states = nxt
            return states
        if isinstance(s, ast.AnnAssign):
            if s.value is None:
                return [st]
            return self.bind_target(s.target, s.value, st, s)
        if isinstance(s, ast.AugAssign):
            op = type(s.op).__name__
            sym = {'Add': '+', 'Sub': '-', 'Mult': '*', 'Div': '/', 'BitOr': '|', 'BitAnd': '&', 'FloorDiv': '//', 'Mod': '%'}.get(op, op)
            if isinstance(s.target, ast.Name) and s.target.id not in self.cells:
                cur = st.env.get(s.target.id, ast.Name(id=s.target.id, ctx=ast.Load()))
                s2 = st.fork()
                s2.env[s.target.id] = ast.BinOp(left=clone(cur), op=s.op, right=self.val(s.value, st))
                return [s2]
            tgt = self.val(s.target, st)
            if isinstance(s.target, ast.Name) and s.target.id in st.env:
                tgt = clone(st.env[s.target.id])
            self.emit_store(tgt, self.val(s.value, st), st, s, kind='aug', op=sym + '=')
            return [st]
        if isinstance(s, ast.Return):
            if s.value is None:
                self.emit('return', 'None', st, s)
                return []
            inl = self.inline_stmt_call(s.value, st) if isinstance(s.value, ast.Call) else None
            if inl is not None and inl[1] is not None:
                self.emit('return', canon(inl[1]), inl[0][0], s, rhs=inl[1])
                return []
            if isinstance(s.value, (ast.ListComp, ast.SetComp, ast.DictComp)):
                s2 = st.fork()
                sym = self.new_cell(f'<ret{s.lineno}>', self._EMPTY[type(s.value)], s2, s)
                self.expand_comp(sym, s.value, s2, s)
                self.emit('return', sym.id, s2, s, rhs=sym)
                return []
            for g, vv in self.split_ifexp(hoist(self.val(s.value, st))):
                s2 = st.fork()
                for t, pol in g:
                    s2.guards.append(self.guard(t if pol else neg_ast(t)))
                if isinstance(vv, (ast.ListComp, ast.SetComp, ast.DictComp)):
                    # `return [] if c else [comprehension]`: each arm is what the statement form would have returned
                    sym = self.new_cell(f'<ret{s.lineno}>', self._EMPTY[type(vv)], s2, s)
                    self.expand_comp(sym, vv, s2, s)
                    self.emit('return', sym.id, s2, s, rhs=sym)
                    continue
                self.emit('return', canon(vv), s2, s, rhs=vv)
            self.npaths += 1
            return []
        if isinstance(s, ast.Raise):
            self.emit('raise', self.text(s.exc, st) if s.exc is not None else 're-raise', st, s)
            return []
        if isinstance(s, (ast.Continue, ast.Break)):
            if isinstance(s, ast.Break):
                self.emit('break', '', st, s)
            return []
        if isinstance(s, ast.Pass):
            return [st]
        if isinstance(s, ast.Delete):
            for t in s.targets:
                self.emit('del', self.text(t, st), st, s)
            return [st]
        if isinstance(s, ast.Assert):
            tv = self.val(s.test, st)
            for c in conjuncts(hoist(tv)):
                self.emit('assert', canon(c), st, s, rhs=c)
            s2 = st.fork()
            s2.guards.append(self.guard(tv))
            return [s2]
        if isinstance(s, ast.If):
            tv = self.val(s.test, st)
            known = _const_truth(hoist(tv))
            if known is True:
                return self.run(s.body, [st.fork()])
            if known is False:
                return self.run(s.orelse, [st.fork()])
            t = self.guard(tv)
            nt = self.guard(neg_ast(tv))
            self.negof[t] = nt
            self.negof[nt] = t
            have = self._conj_texts(st)
            ct, cnt = set(self._split(t)), set(self._split(nt))
            a = st.fork()
            a.guards.append(t)
            b = st.fork()
            b.guards.append(nt)
            # a branch whose condition contradicts what already holds on this path is not taken
            ra = [] if (len(cnt) == 1 and cnt <= have) else self.run(s.body, [a])
            rb = [] if (len(ct) == 1 and ct <= have) else self.run(s.orelse, [b])
            if len(cnt) == 1 and cnt <= have:
                return rb if False else self.run(s.orelse, [st.fork()])
            if len(ct) == 1 and ct <= have:
                return self.run(s.body, [st.fork()])
            # phi: one continuing state on each side, same context, guards = the parent's plus the test -> one state whose
            # differing locals are conditional expressions
            if len(ra) == 1 and len(rb) == 1 and ra[0].ctx == rb[0].ctx == st.ctx \
                    and ra[0].guards == st.guards + [t] and rb[0].guards == st.guards + [nt]:
                m = st.fork()
                names = set(ra[0].env) | set(rb[0].env)
                ok = True
                for nm in names:
                    va, vb = ra[0].env.get(nm), rb[0].env.get(nm)
                    if va is None or vb is None:
                        # bound on one side only: the other side keeps the previous value (a parameter / outer name)
                        prev = st.env.get(nm, ast.Name(id=nm, ctx=ast.Load()))
                        va = va if va is not None else prev
                        vb = vb if vb is not None else prev
                    if norm(va) == norm(vb):
                        m.env[nm] = va
                    elif nm.startswith('self.'):
                        m.env[nm] = ast.Attribute(value=ast.Name(id='self', ctx=ast.Load()), attr=nm[5:], ctx=ast.Load())
                    elif norm(va) == norm(vb):
                        m.env[nm] = va
                    else:
                        m.env[nm] = ast.IfExp(test=clone(tv), body=clone(va), orelse=clone(vb))
                if ok:
                    return [m]
            return ra + rb
        if isinstance(s, (ast.For, ast.AsyncFor)):
            k = self.nfor(st)
            it = self.text(s.iter, st)
            body = st.fork()
            body.ctx.append(f'for {it}')
            sym = ast.Name(id=f'${k}', ctx=ast.Load())
            self._bind_loop_target(s.target, sym, body)
            self.run(s.body, [body])
            after = st.fork()
            # values assigned inside the loop are cells (pre-pass) and keep their symbol
            for nm, sy in self.cell_sym.items():
                if nm in self.cells:
                    after.env[nm] = ast.Name(id=sy, ctx=ast.Load())
            return self.run(s.orelse, [after]) if s.orelse else [after]
        if isinstance(s, ast.While):
            body = st.fork()
            body.ctx.append(f'while {self.text(s.test, st)}')
            self.run(s.body, [body])
            after = st.fork()
            for nm, sy in self.cell_sym.items():
                after.env[nm] = ast.Name(id=sy, ctx=ast.Load())
            return self.run(s.orelse, [after]) if s.orelse else [after]
        if isinstance(s, (ast.With, ast.AsyncWith)):
            s2 = st.fork()
            for it in s.items:
                s2.ctx.append(f'with {self.text(it.context_expr, st)}')
                if it.optional_vars is not None and isinstance(it.optional_vars, ast.Name):
                    s2.env[it.optional_vars.id] = self.val(it.context_expr, st)
            res = self.run(s.body, [s2])
            out = []
            for r in res:
                r2 = r.fork(ctx=list(st.ctx))
                out.append(r2)
            return out
        if isinstance(s, ast.Try):
            normal = self.run(list(s.body) + list(s.orelse), [st.fork()])
            res = list(normal)
            for h in s.handlers:
                hs = st.fork()
                hs.guards.append(f'<except {norm(h.type) if h.type is not None else "BaseException"}>')
                if h.name:
                    hs.env[h.name] = ast.Name(id='<exc>', ctx=ast.Load())
                res.extend(self.run(h.body, [hs]))
            if s.finalbody:
                fin = []
                for r in res:
                    f2 = r.fork()
                    f2.ctx.append('finally')
                    for r3 in self.run(s.finalbody, [f2]):
                        fin.append(r3.fork(ctx=list(r.ctx)))
                # the finally block also runs on the exceptional exit
                fx = st.fork()
                fx.ctx.append('finally')
                fx.guards.append('<exception propagates>')
                self.run(s.finalbody, [fx])
                res = fin
            return res
        if isinstance(s, ast.FunctionDef):
            self.closure_envs[s.name] = dict(st.env)
            sb = _simple_body(s, allow_comp=True)
            if sb is not None:
                self.local_defs[s.name] = sb
            elif _single_exit(s):
                self.closures[s.name] = s
            return [st]
        if isinstance(s, (ast.AsyncFunctionDef, ast.ClassDef, ast.Import, ast.ImportFrom, ast.Global, ast.Nonlocal)):
            return [st]
        raise Opaque(f'{type(s).__name__} at line {getattr(s, "lineno", 0)}')

    def _bind_loop_target(self, t, sym, st):
        if isinstance(t, ast.Name):
            st.env[t.id] = sym
        elif isinstance(t, (ast.Tuple, ast.List)):
            for i, e in enumerate(t.elts):
                self._bind_loop_target(e, ast.Subscript(value=clone(sym), slice=ast.Constant(value=i), ctx=ast.Load()), st)

    def _merge_complementary(self, effects):
        """two effects that differ only by one complementary guard are one effect without that guard"""
        out = list(effects)
        changed = True
        while changed:
            changed = False
            for i in range(len(out)):
                for j in range(i + 1, len(out)):
                    a, b = out[i], out[j]
                    if a.kind == b.kind and a.text == b.text and a.ctx == b.ctx and a.kind != 'new':
                        da, db = a.guards - b.guards, b.guards - a.guards
                        if len(da) == 1 and len(db) == 1 and self.negof.get(next(iter(da))) == next(iter(db)):
                            m = Effect(a.kind, a.text, a.guards & b.guards, a.ctx, a.node, a.lhs, a.rhs, a.op)
                            out = [e for k, e in enumerate(out) if k not in (i, j)] + [m]
                            changed = True
                            break
                if changed:
                    break
        return out

    def summarize(self):
        st = _State(dict(getattr(self, 'initial_env', {})), [], [], 0)
        body = list(self.fnode.body)
        end = self.run(body, [st])
        for s in end:
            self.effects.append(Effect('fall', 'None', s.guards, s.ctx, self.fnode))
        self.effects = _fold_setdefault(self.effects)
        self.effects = self._merge_complementary(self.effects)
        # de-duplicate
        seen = {}
        for e in self.effects:
            seen.setdefault(e.key(), e)
        return list(seen.values())


def _fold_setdefault(effects):
    """`if k in D: D[k].add(x) else: D[k] = {x}`  ->  `D.setdefault(k, set()).add(x)`  (likewise lists)"""
    out = list(effects)
    for st in list(out):
        if st.kind != 'store' or st.op != '=' or not isinstance(st.lhs, ast.Subscript):
            continue
        v = st.rhs
        if isinstance(v, ast.Set) and len(v.elts) == 1:
            meth, empty, x = 'add', 'set()', v.elts[0]
        elif isinstance(v, ast.List) and len(v.elts) == 1:
            meth, empty, x = 'append', '[]', v.elts[0]
        else:
            continue
        d, k = canon(st.lhs.value), canon(st.lhs.slice)
        gpos, gneg = f'{k} in {d}', f'{k} not in {d}'
        if gneg not in st.guards:
            continue
        for c in out:
            if c.kind == 'call' and c.op == meth and c.ctx == st.ctx and c.lhs is not None and canon(c.lhs) == f'{d}[{k}]' \
                    and c.rhs is not None and canon(c.rhs) == canon(x) and gpos in c.guards \
                    and (c.guards - {gpos}) == (st.guards - {gneg}):
                recv = ast.parse(f'D.setdefault(K, {empty})', mode='eval').body
                recv.func.value = clone(st.lhs.value)
                recv.args[0] = clone(st.lhs.slice)
                call = ast.Call(func=ast.Attribute(value=recv, attr=meth, ctx=ast.Load()), args=[clone(x)], keywords=[])
                new = Effect('call', canon(call), c.guards - {gpos}, c.ctx, c.node, recv, clone(x), meth)
                out = [e for e in out if e is not c and e is not st] + [new]
                break
    # `if k not in D: D[k] = {}` followed by unconditional updates of D[k]  ->  updates of `D.setdefault(k, {})`
    for st in list(out):
        if st.kind != 'store' or st.op != '=' or not isinstance(st.lhs, ast.Subscript):
            continue
        v = st.rhs
        if isinstance(v, ast.Dict) and not v.keys:
            empty = '{}'
        elif isinstance(v, ast.List) and not v.elts:
            empty = '[]'
        elif isinstance(v, ast.Call) and isinstance(v.func, ast.Name) and v.func.id == 'set' and not v.args:
            empty = 'set()'
        else:
            continue
        d, k = canon(st.lhs.value), canon(st.lhs.slice)
        gneg = f'{k} not in {d}'
        if gneg not in st.guards:
            continue
        slot = f'{d}[{k}]'
        users = [c for c in out if c is not st and c.kind in ('store', 'aug', 'call') and c.lhs is not None and c.ctx == st.ctx
                 and c.guards == st.guards - {gneg}
                 and (canon(c.lhs) == slot or canon(c.lhs).startswith(slot + '[') or canon(c.lhs).startswith(slot + '.'))]
        if not users:
            continue
        recv = ast.parse(f'D.setdefault(K, {empty})', mode='eval').body
        recv.func.value = clone(st.lhs.value)
        recv.args[0] = clone(st.lhs.slice)

        class R(ast.NodeTransformer):
            def visit_Subscript(self, node):
                if canon(node) == slot:
                    return clone(recv)
                return self.generic_visit(node)
        news = []
        for c in users:
            lhs2 = R().visit(clone(c.lhs))
            if c.kind == 'call':
                text = c.text.replace(slot, canon(recv), 1) if c.text.startswith(slot) else None
                if text is None:
                    news = None
                    break
                news.append(Effect('call', text, c.guards, c.ctx, c.node, lhs2, c.rhs, c.op))
            else:
                news.append(Effect(c.kind, f'{canon(lhs2)} {c.op} {canon(c.rhs)}', c.guards, c.ctx, c.node, lhs2, c.rhs, c.op))
        if news is None:
            continue
        keep = [e for e in out if e is not st and not any(e is c for c in users)]
        out = keep + news
    return out


def _unit_propagate(asts):
    """conjuncts (ASTs) simplified by unit propagation; None when contradictory"""
    asts = list(asts)
    changed = True
    while changed:
        changed = False
        atoms = {canon(c) for c in asts if not (isinstance(c, ast.BoolOp) and isinstance(c.op, ast.Or))}
        for c in asts:
            if canon(neg_ast(c)) in atoms and not (isinstance(c, ast.BoolOp) and isinstance(c.op, ast.Or)):
                return None
        for i, c in enumerate(asts):
            if isinstance(c, ast.BoolOp) and isinstance(c.op, ast.Or):
                vals = list(c.values)
                if any(canon(v) in atoms for v in vals):
                    asts.pop(i)
                    changed = True
                    break
                keep = [v for v in vals if canon(neg_ast(v)) not in atoms]
                if not keep:
                    return None
                if len(keep) != len(vals):
                    rest = keep[0] if len(keep) == 1 else ast.BoolOp(op=ast.Or(), values=keep)
                    asts[i:i + 1] = conjuncts(rest)
                    changed = True
                    break
    return asts


def decision_leaves(node):
    """a (nested) conditional expression as its decision table: [(frozenset of condition texts, value text)], infeasible
    branches dropped, conditions split into conjuncts and simplified by unit propagation - so that
    `(a if m else b) if c else d`  and  `a if c and m else (b if c else d)`  give the same table."""
    out = []

    def walk(n, conds):
        if isinstance(n, ast.IfExp):
            for branch, test in ((n.body, n.test), (n.orelse, neg_ast(n.test))):
                cs = _unit_propagate(conds + conjuncts(hoist(test)))
                if cs is not None:
                    walk(branch, cs)
            return
        out.append((frozenset(canon(c) for c in conds), canon(n)))
    walk(node, [])
    return sorted(out, key=lambda x: (sorted(x[0]), x[1]))


_CACHE = {}


def summary(fnode, inline_call=None):
    k = id(fnode)
    if k in _CACHE and _CACHE[k][0] is fnode and inline_call is None:
        r = _CACHE[k][1]
        if isinstance(r, Exception):
            raise r
        return r
    try:
        r = Summarizer(fnode, inline_call).summarize()
    except Opaque as exc:
        if inline_call is None:
            _CACHE[k] = (fnode, exc)
        raise
    if inline_call is None:
        _CACHE[k] = (fnode, r)
    return r


def select(effects, kind=None, contains=None, ctx_contains=None):
    out = []
    for e in effects:
        if kind is not None and e.kind not in ((kind,) if isinstance(kind, str) else kind):
            continue
        if contains is not None and contains not in e.text:
            continue
        if ctx_contains is not None and not any(ctx_contains in c for c in e.ctx):
            continue
        out.append(e)
    return out


# ------------------------------------------------------------------------------------------ inlining of simple helpers

def _as_expr(stmts, env):
    """the value returned by a loop-free statement list made of plain assignments, if/elif/else and returns, as one
    (conditional) expression - or None"""
    env = dict(env)
    for i, st in enumerate(stmts):
        if isinstance(st, ast.Expr) and isinstance(st.value, ast.Constant):
            continue
        if isinstance(st, ast.Assign) and len(st.targets) == 1 and isinstance(st.targets[0], ast.Name):
            env[st.targets[0].id] = subst(st.value, env)
        elif isinstance(st, ast.AnnAssign) and isinstance(st.target, ast.Name) and st.value is not None:
            env[st.target.id] = subst(st.value, env)
        elif isinstance(st, ast.Return):
            if st.value is None:
                return None
            return subst(st.value, env)
        elif isinstance(st, ast.If):
            rest = list(stmts[i + 1:])
            a = _as_expr(list(st.body) + rest, env)
            b = _as_expr(list(st.orelse) + rest, env)
            if a is None or b is None:
                return None
            if norm(a) == norm(b):
                return a
            return ast.IfExp(test=subst(st.test, env), body=a, orelse=b)
        else:
            return None
    return None


def _simple_body(fn, allow_comp=False):
    """(params, defaults, returned expression) for a side-effect-free helper: [docstring], plain assignments, if/elif/else and
    returns only (early returns become conditional expressions) - else None."""
    if fn.args.vararg or fn.args.kwarg or fn.decorator_list:
        return None
    for n in ast.walk(fn):
        if isinstance(n, (ast.Yield, ast.YieldFrom, ast.Await, ast.NamedExpr, ast.For, ast.While, ast.Try, ast.With, ast.Raise)):
            return None
    ret = _as_expr(list(fn.body), {})
    if ret is None:
        return None
    if not allow_comp and isinstance(ret, (ast.ListComp, ast.SetComp, ast.DictComp, ast.GeneratorExp)):
        # a helper that builds a collection may equally be written as a loop: keep the call symbolic in both spellings
        return None
    a = fn.args
    params = [p.arg for p in a.posonlyargs + a.args]
    defaults = dict(zip(params[len(params) - len(a.defaults):], a.defaults))
    for p, d in zip(a.kwonlyargs, a.kw_defaults):
        params.append(p.arg)
        if d is not None:
            defaults[p.arg] = d
    return params, defaults, ret


def make_inliner(module, only_private=True, max_depth=4):
    """-> function(expr AST) -> expr AST with calls to simple helpers of `module` (module-level functions whose body is a
    single returned expression, possibly after straight-line temporaries) replaced by that expression.  Both directions of
    an 'extract helper' / 'inline helper' refactoring therefore give the same summary."""
    simple = {}
    for name, fi in module.funcs.items():
        if '.' in name:
            continue
        if only_private and not name.startswith('_'):
            continue
        if name in SUBJECTS.get(module.short, ()):
            continue
        sb = _simple_body(fi.node)
        if sb is not None:
            simple[name] = sb

    class Inl(ast.NodeTransformer):
        def __init__(self, depth=0):
            self.depth = depth

        def visit_Call(self, node):
            self.generic_visit(node)
            if isinstance(node.func, ast.Name) and node.func.id in simple and self.depth < max_depth:
                params, defaults, ret = simple[node.func.id]
                if any(isinstance(a, ast.Starred) for a in node.args) or any(k.arg is None for k in node.keywords):
                    return node
                env = {}
                for p, a in zip(params, node.args):
                    env[p] = a
                for k in node.keywords:
                    if k.arg in params:
                        env[k.arg] = k.value
                for p in params:
                    if p not in env:
                        if p in defaults:
                            env[p] = defaults[p]
                        else:
                            return node
                out = subst(ret, env)
                return Inl(self.depth + 1).visit(out)
            return node

    def inline(expr):
        return Inl().visit(expr)
    inline.simple = simple
    return inline


# Functions that have a specification of their own in some rule: they stay symbolic (a call to them is not expanded) in the
# summaries of their callers.  Every other private single-exit helper - in particular one introduced by an 'extract function'
# refactoring - is expanded where it is called as a whole statement / right-hand side / returned value.
SUBJECTS = {
    'taxonomy': {'_synsets_for_pos', '_hypernym_paths', '_shortest_hyp_paths'},
    'similarity': {'_least_common_subsumers', '_most_informative_lcs', '_check_if_pos_compatible'},
    'ic': {'_initialize', '_parse_ic_file'},
    'validate': {'_select_checks', '_multiples', '_non_unique_id', '_has_no_senses', '_redundant_sense', '_redundant_entry', '_missing_synset',
                 '_empty_synset', '_repeated_ili', '_missing_ili_definition', '_spurious_ili_definition', '_blank_synset_definition',
                 '_blank_synset_example', '_repeated_synset_definition', '_missing_relation_target', '_invalid_relation_type',
                 '_redundant_relation', '_missing_reverse_relation', '_hypernym_wrong_pos', '_self_loop'},
    '_core': {'_find_helper', '_to_lexicon'},
    '_add': {'_precheck', '_add_lexical_resource', '_insert_lexicon', '_add_lmf', '_add_ili'},
    '_export': {'_precheck', '_export_lexicon'},
    'lmf': {'_read_header', '_make_parser', '_validate', '_quick_scan', '_meta_dict', '_tostring', '_indent', '_dump_lexicon', '_dump_lexical_entry',
            '_dump_synset', '_dump_syntactic_behaviour', '_build_lemma', '_build_form', '_build_pronunciation', '_build_tag', '_build_sense',
            '_build_example', '_build_count', '_build_definition', '_build_ili_definition', '_build_relation', '_build_lexicon_attrib',
            '_validate_lexicon', '_validate_entries', '_validate_forms', '_validate_senses', '_validate_frames', '_validate_synsets'},
    '_db': {'_init_db', '_check_schema_compatibility'},
    '_queries': set(),
}


def module_summary(ctx, modshort, qualname):
    """summary of a function with the simple private helpers of its module inlined (cached on the repo)."""
    f = ctx.repo.func(modshort, qualname)

    def build():
        inl = ctx.repo.cache(('inliner', f.module.name), lambda: make_inliner(f.module))
        keep = SUBJECTS.get(f.module.short, set())
        helpers = {n: fi.node for n, fi in f.module.funcs.items() if '.' not in n and n.startswith('_') and _single_exit(fi.node)
                   and n not in inl.simple and n not in keep}
        sm = Summarizer(f.node, inl, helpers)
        sm.helper_nodes = {n: fi.node for n, fi in f.module.funcs.items() if '.' not in n}
        if '.<locals>.' in f.qualname:
            # a closure: its free variables are the enclosing function's locals, in that function's canonical form
            outer_q = f.qualname.rsplit('.<locals>.', 1)[0]
            outer = f.module.funcs.get(outer_q)
            if outer is not None:
                om = Summarizer(outer.node, inl, helpers)
                om.helper_nodes = sm.helper_nodes
                try:
                    om.summarize()
                    base = om.closure_envs.get(f.name, {})
                    # objects of the enclosing function that are created later (e.g. the parser the handlers are attached to)
                    for nm, sy in om.cell_sym.items() if isinstance(om.cell_sym, dict) else []:
                        base.setdefault(nm, ast.Name(id=sy, ctx=ast.Load()))
                    sm.initial_env = {k: v for k, v in base.items() if k not in f.params}
                    sm.cell_sym = dict(om.cell_sym)
                except Opaque:
                    pass
        return sm.summarize()
    return f, ctx.repo.cache(('summary', f.key), build)
