"""Row shapes: which Python expression feeds which placeholder / column of an
INSERT (or any positional statement) executed with execute / executemany."""
from __future__ import annotations
import ast
from .src import norm, walk_no_nested
from .pyutil import binding_sites, nearest_assignment, parents, resolve_value, assignments_to
from . import sql as S

UNWRAP = {'_batch', 'enumerate', 'reversed', 'list', 'sorted', 'iter', 'tuple'}
LOCAL_ITERS = {'_local_senses', '_local_synsets', '_local_entries'}


class Row:
    def __init__(self, elts=None, named=None, gens=None, node=None, opaque=None):
        self.elts = elts          # list of expr nodes (positional row) or None
        self.named = named        # dict name -> expr node / None (named row)
        self.gens = gens or []    # [(target, iter)] innermost last
        self.node = node
        self.opaque = opaque      # text when the shape could not be resolved


def _gens_of_comp(comp):
    return [(g.target, g.iter) for g in comp.generators]


def _enclosing_for_gens(node, func_node):
    out = []
    for p in parents(node):
        if p is func_node:
            break
        if isinstance(p, (ast.For, ast.AsyncFor)):
            out.append((p.target, p.iter))
    out.reverse()
    return out


def rows_of(func, pnode, many):
    """resolve the bind argument of execute(many) to a list of Row."""
    fn = func.node
    if pnode is None:
        return [Row(elts=[], node=None)]
    e = pnode
    if isinstance(e, ast.Name) and not many:
        return _row_of_elem(func, e, _enclosing_for_gens(e, fn), e)
    if isinstance(e, ast.Name):
        sites = [s for s in binding_sites(fn, e.id) if s[0] in ('assign',)]
        rows = []
        empties = 0
        for s in sites:
            v = s[1]
            if isinstance(v, (ast.List, ast.Tuple)) and not v.elts and many:
                empties += 1
                continue
            rows.extend(_rows_of_value(func, v, many, s[2]))
        if empties or not sites:
            # list filled by .append(...) / .extend(...)
            for n in walk_no_nested(fn):
                if isinstance(n, ast.Call) and isinstance(n.func, ast.Attribute) and isinstance(n.func.value, ast.Name) \
                        and n.func.value.id == e.id and n.func.attr == 'append' and n.args:
                    a = n.args[0]
                    gens = _enclosing_for_gens(n, fn)
                    rows.extend(_row_of_elem(func, a, gens, n))
                elif isinstance(n, ast.Call) and isinstance(n.func, ast.Attribute) and isinstance(n.func.value, ast.Name) \
                        and n.func.value.id == e.id and n.func.attr == 'extend' and n.args \
                        and isinstance(n.args[0], (ast.ListComp, ast.GeneratorExp)):
                    comp = n.args[0]
                    rows.extend(_row_of_elem(func, comp.elt, _enclosing_for_gens(n, fn) + _gens_of_comp(comp), n))
        if not rows:
            kinds = [s[0] for s in binding_sites(fn, e.id)]
            return [Row(opaque=f'{e.id} ({",".join(kinds) or "unbound"})', node=e)]
        uniq, seen = [], set()
        for r in rows:
            k = (id(r.node), tuple(id(x) for x in (r.elts or [])))
            if k not in seen:
                seen.add(k)
                uniq.append(r)
        return uniq
    return _rows_of_value(func, e, many, e)


def _rows_of_value(func, v, many, at):
    fn = func.node
    if many:
        if isinstance(v, (ast.ListComp, ast.GeneratorExp)):
            return _row_of_elem(func, v.elt, _enclosing_for_gens(v, fn) + _gens_of_comp(v), v)
        if isinstance(v, (ast.List, ast.Tuple)):
            out = []
            for x in v.elts:
                out.extend(_row_of_elem(func, x, _enclosing_for_gens(v, fn), v))
            return out
        if isinstance(v, ast.Name):
            return rows_of(func, v, many)
        return [Row(opaque=norm(v)[:80], node=v)]
    # single execute
    return _row_of_elem(func, v, _enclosing_for_gens(at, fn), at)


def _row_via_helper(func, a, gens, node):
    """`a` is a call to a module-level helper that builds and returns one row (a dict copied from a parameter plus stores, or
    a tuple): the row is described in the helper and its parameters are replaced by the caller's arguments."""
    from .inline import clone
    h = func.module.funcs.get(a.func.id) if isinstance(a.func, ast.Name) else None
    if h is None or h is func or h.cls is not None or '.' in h.qualname:
        return None
    rets = [n for n in walk_no_nested(h.node) if isinstance(n, ast.Return)]
    if len(rets) != 1 or rets[0].value is None or h.node.body[-1] is not rets[0]:
        return None
    if any(isinstance(x, ast.Starred) for x in a.args) or any(k.arg is None for k in a.keywords):
        return None
    params = h.params
    bound = dict(zip(params, a.args))
    for k in a.keywords:
        bound[k.arg] = k.value
    inner = _row_of_elem(h, rets[0].value, [], rets[0], _depth=1)
    if len(inner) != 1 or inner[0].opaque or inner[0].gens:
        return None

    def to_caller(v):
        if v is None or not isinstance(v, ast.AST):
            return v
        if isinstance(v, ast.Name) and v.id in bound:
            return bound[v.id]
        names = {x.id for x in ast.walk(v) if isinstance(x, ast.Name)}
        if not (names & set(params)):
            return v
        if not names & set(params) <= set(bound):
            return None

        class S(ast.NodeTransformer):
            def visit_Name(self, n):
                if n.id in bound:
                    return clone(bound[n.id])
                return n
        new = S().visit(clone(v))
        ast.copy_location(new, a)
        ast.fix_missing_locations(new)
        for par in ast.walk(new):
            for ch in ast.iter_child_nodes(par):
                ch._parent = par
        new._parent = a
        return new
    r = inner[0]
    if r.named is not None:
        named = {}
        for k, v in r.named.items():
            if k == '*defaults':
                named[k] = {dk: to_caller(dv) for dk, dv in (v or {}).items()}
            else:
                named[k] = to_caller(v)
                if named[k] is None and v is not None:
                    return None
        return [Row(named=named, gens=gens, node=node)]
    if r.elts is not None:
        elts = [to_caller(x) for x in r.elts]
        if any(x is None for x in elts):
            return None
        return [Row(elts=elts, gens=gens, node=node)]
    return None


def _row_of_elem(func, a, gens, node, _depth=0):
    fn = func.node
    if isinstance(a, ast.Call) and isinstance(a.func, ast.Name) and _depth == 0 and a.func.id not in ('dict', 'tuple', 'list'):
        via = _row_via_helper(func, a, gens, node)
        if via is not None:
            return via
    if isinstance(a, (ast.Tuple, ast.List)):
        if any(isinstance(x, ast.Starred) for x in a.elts):
            return [Row(elts=list(a.elts), gens=gens, node=node)]
        return [Row(elts=list(a.elts), gens=gens, node=node)]
    if isinstance(a, ast.Dict) and all(isinstance(k, ast.Constant) for k in a.keys):
        return [Row(named={k.value: v for k, v in zip(a.keys, a.values)}, gens=gens, node=node)]
    if isinstance(a, ast.Name):
        # a dict built locally: dict(x) + constant-key stores / setdefault (the nearest assignment before the use)
        sites = binding_sites(fn, a.id)
        if any(s[0] in ('for', 'comp', 'param') for s in sites) and not any(s[0] == 'assign' for s in sites):
            return [Row(named={'*': a}, gens=gens, node=node)]
        best = None
        for stmt, v, tgt in assignments_to(fn, a.id):
            if stmt.lineno <= node.lineno and (best is None or stmt.lineno > best[0].lineno):
                best = (stmt, v)
        if best is not None:
            stmt, v = best
            named = {}
            base = None
            if isinstance(v, ast.Call) and isinstance(v.func, ast.Name) and v.func.id == 'dict' and len(v.args) == 1:
                base = v.args[0]
            elif isinstance(v, ast.Dict) and all(isinstance(k, ast.Constant) for k in v.keys):
                named.update({k.value: x for k, x in zip(v.keys, v.values)})
            elif isinstance(v, ast.Tuple):
                return [Row(elts=list(v.elts), gens=gens, node=node)]
            else:
                return [Row(opaque=norm(v)[:80], gens=gens, node=node)]
            defaults = {}
            for n in walk_no_nested(fn):
                if not (stmt.lineno <= getattr(n, 'lineno', 0) <= node.lineno):
                    continue
                if isinstance(n, ast.Assign):
                    for t in n.targets:
                        if isinstance(t, ast.Subscript) and isinstance(t.value, ast.Name) and t.value.id == a.id \
                                and isinstance(t.slice, ast.Constant):
                            named[t.slice.value] = n.value
                if isinstance(n, ast.Call) and isinstance(n.func, ast.Attribute) and n.func.attr == 'setdefault' \
                        and isinstance(n.func.value, ast.Name) and n.func.value.id == a.id and n.args \
                        and isinstance(n.args[0], ast.Constant):
                    defaults[n.args[0].value] = n.args[1] if len(n.args) > 1 else ast.Constant(None)
            if base is not None:
                named['*'] = base
                named['*defaults'] = defaults
            else:
                for k, d in defaults.items():
                    named.setdefault(k, d)
            return [Row(named=named, gens=gens + _enclosing_for_gens(stmt, fn), node=node)]
    return [Row(opaque=norm(a)[:80], gens=gens, node=node)]


def iter_source(func, name, row):
    """ultimate iterable a loop variable ranges over, unwrapping _batch/enumerate/... and batch variables.
    -> (expr node or None, chain of wrapper names)"""
    chain = []
    cur_name = name
    gens = list(row.gens)
    for _ in range(8):
        it = None
        for tgt, itr in reversed(gens):
            if cur_name in {x.id for x in ast.walk(tgt) if isinstance(x, ast.Name)}:
                it = itr
                break
        if it is None:
            return None, chain
        # unwrap
        while isinstance(it, ast.Call) and isinstance(it.func, ast.Name) and it.func.id in UNWRAP and it.args:
            chain.append(it.func.id)
            it = it.args[0]
        if isinstance(it, ast.Name) and any(it.id in {x.id for x in ast.walk(t) if isinstance(x, ast.Name)}
                                            for t, _ in gens):
            cur_name = it.id
            continue
        return it, chain
    return None, chain


def is_local_var(func, name, row):
    """is loop variable `name` provably a non-external element (ranges over _local_*() )?"""
    it, _ = iter_source(func, name, row)
    if isinstance(it, ast.Call) and isinstance(it.func, ast.Name) and it.func.id in LOCAL_ITERS:
        return True
    return False


class Slot:
    def __init__(self, index, column, kind, text):
        self.index, self.column, self.kind, self.text = index, column, kind, text
        self.exprs = []      # feeding expression nodes (one per placeholder of the slot)
        self.sub_table = None
        self.locality = None
        self.names = []


class Binding:
    def __init__(self, site, variant, table, row):
        self.site, self.variant, self.table, self.row = site, variant, table, row
        self.slots: list[Slot] = []
        self.problems: list[str] = []

    @property
    def func(self):
        return self.site.func


def _named_expr(row, nm):
    """expression feeding `:nm` of a named row: an explicit store, or key `nm` of the copied base mapping."""
    if nm in row.named:
        return row.named[nm]
    base = row.named.get('*')
    if base is None:
        return None
    defaults = row.named.get('*defaults') or {}
    if nm in defaults:
        node = ast.Call(func=ast.Attribute(value=base, attr='get', ctx=ast.Load()),
                        args=[ast.Constant(nm), defaults[nm]], keywords=[])
    else:
        node = ast.Subscript(value=base, slice=ast.Constant(nm), ctx=ast.Load())
    ast.copy_location(node, base)
    ast.fix_missing_locations(node)
    node._parent = getattr(base, '_parent', None)
    return node


def _slot_kind(stmt, idxs):
    toks = [stmt.toks[k] for k in idxs]
    if len(toks) == 1 and toks[0].upper() == 'NULL':
        return 'null'
    if toks == ['?']:
        return 'param'
    if len(toks) == 1 and toks[0].startswith(':'):
        return 'named'
    if toks and toks[0] == '(' and len(toks) > 1 and toks[1].upper() == 'SELECT':
        return 'subselect'
    return 'expr'


def bind_statement(ctx, site, variant, row):
    """align a positional/named INSERT's slots with the row's expressions."""
    stmt = variant.stmt
    schema = ctx.schema
    table = stmt.target
    b = Binding(site, variant, table, row)
    slots = stmt.insert_slots()
    if slots is None or table not in schema.tables:
        b.problems.append('not a positional INSERT ... VALUES on a known table')
        return b
    cols = stmt.insert_columns() or schema.cols(table)
    if len(slots) != len(cols):
        b.problems.append(f'{len(slots)} value slots for {len(cols)} columns of {table}')
    pos = 0
    for i, idxs in enumerate(slots):
        col = cols[i] if i < len(cols) else None
        kind = _slot_kind(stmt, idxs)
        sl = Slot(i, col, kind, ' '.join(stmt.toks[k] for k in idxs))
        nq = sum(1 for k in idxs if stmt.toks[k] == '?')
        names = [stmt.toks[k][1:] for k in idxs if stmt.toks[k].startswith(':') and len(stmt.toks[k]) > 1]
        sl.names = names
        if kind == 'subselect':
            for k in idxs:
                if stmt.up[k] == 'FROM':
                    sl.sub_table = stmt.toks[k + 1]
                    break
        if row.elts is not None:
            sl.exprs = row.elts[pos:pos + nq]
            if len(sl.exprs) < nq:
                b.problems.append(f'row has {len(row.elts)} values, statement needs more (slot {i} {col})')
            pos += nq
        elif row.named is not None:
            sl.exprs = [_named_expr(row, nm) for nm in names]
        b.slots.append(sl)
    if row.elts is not None and pos != len(row.elts) and not any(isinstance(x, ast.Starred) for x in row.elts):
        b.problems.append(f'row has {len(row.elts)} values, statement has {pos} placeholders')
    # locality of sub-selected parents
    for sl in b.slots:
        if sl.kind != 'subselect':
            continue
        sl.locality = _locality(ctx, b, sl)
    return b


def _locality(ctx, b, sl):
    schema = ctx.schema
    t = sl.sub_table
    if t is None:
        return 'cross'
    if not schema.has_col(t, 'lexicon_rowid') and t != 'lexicons':
        return 'lookup'
    if t == 'lexicons':
        return 'lookup'
    # which placeholder of the sub-select is compared with lexicon_rowid?
    text = sl.text
    toks = S._TOK.findall(text)
    qi = -1
    lex_q = None
    for i, tk in enumerate(toks):
        if tk == '?':
            qi += 1
            # look back for 'lexicon_rowid ='
            back = [x for x in toks[max(0, i - 4):i]]
            if 'lexicon_rowid' in back and ('=' in back or '==' in back):
                lex_q = qi
    if lex_q is None or lex_q >= len(sl.exprs):
        return 'cross'
    e = sl.exprs[lex_q]
    fn = b.func.node
    e = resolve_value(fn, e)
    if isinstance(e, ast.Name) and e.id == 'lexid':
        return 'owner-local'
    if isinstance(e, ast.Call) and isinstance(e.func, ast.Attribute) and e.func.attr == 'get' \
            and isinstance(e.func.value, ast.Name) and e.func.value.id == 'lexidmap' and len(e.args) == 2 \
            and isinstance(e.args[1], ast.Name) and e.args[1].id == 'lexid':
        key = resolve_value(fn, e.args[0])
        if isinstance(key, ast.Subscript) and isinstance(key.slice, ast.Constant) and key.slice.value == 'id' \
                and isinstance(key.value, ast.Name) and is_local_var(b.func, key.value.id, b.row):
            return 'parent-local'   # the element's own id, and the element is not external
        return 'cross'
    return 'cross'


def insert_bindings(ctx):
    """all INSERT bindings of wn._add / wn._db."""
    def build():
        out = []
        for site in ctx.sites:
            if site.func.module.short not in ('_add', '_db'):
                continue
            for v in site.variants:
                if v.stmt is None or v.stmt.verb != 'INSERT':
                    continue
                many = site.attr == 'executemany'
                for row in rows_of(site.func, v.exec.params_node, many):
                    out.append(bind_statement(ctx, site, v, row))
        return out
    return ctx.repo.cache('insert_bindings', build)


# ---------------------------------------------------------------------------
# values that travel through lists of tuples

def list_elements(func, e, depth=0):
    """element expressions a list-valued expression can hold (literal elements, appended values, comprehension elt)."""
    fn = func.node
    if depth > 4:
        return None
    while isinstance(e, ast.Call) and isinstance(e.func, ast.Name) and e.func.id in UNWRAP | {'set', 'frozenset'} and e.args:
        e = e.args[0]
    if isinstance(e, (ast.List, ast.Tuple, ast.Set)):
        return list(e.elts)
    if isinstance(e, (ast.ListComp, ast.GeneratorExp, ast.SetComp)):
        return [e.elt]
    if isinstance(e, ast.Name):
        out = []
        found = False
        for s in binding_sites(fn, e.id):
            if s[0] == 'assign':
                sub = list_elements(func, s[1], depth + 1)
                if sub is not None:
                    out.extend(sub)
                    found = True
        for n in walk_no_nested(fn):
            if isinstance(n, ast.Call) and isinstance(n.func, ast.Attribute) and isinstance(n.func.value, ast.Name) \
                    and n.func.value.id == e.id and n.args:
                if n.func.attr in ('append', 'add'):
                    out.append(n.args[0])
                    found = True
                elif n.func.attr in ('extend', 'update'):
                    sub = list_elements(func, n.args[0], depth + 1)
                    if sub is not None:
                        out.extend(sub)
                        found = True
        return out if found else None
    return None


def _binding_gen(func, name, row):
    own = list(row.gens) if row is not None else []
    other = []
    for n in walk_no_nested(func.node):
        if isinstance(n, (ast.For, ast.AsyncFor)):
            other.append((n.target, n.iter))
        elif isinstance(n, ast.comprehension):
            other.append((n.target, n.iter))
    for gens in (own, other):      # the generators that enclose the row take precedence over same-named loops elsewhere
        for tgt, it in reversed(gens):
            if isinstance(tgt, ast.Name) and tgt.id == name:
                return tgt, it, None
            if isinstance(tgt, (ast.Tuple, ast.List)):
                for i, x in enumerate(tgt.elts):
                    if isinstance(x, ast.Name) and x.id == name:
                        return tgt, it, i
    return None


def flow_sources(func, name, row, depth=0):
    """expressions whose value the loop variable `name` takes, following lists of tuples:
    returns a list of expr nodes, or None when the flow cannot be followed."""
    if depth > 5:
        return None
    bg = _binding_gen(func, name, row)
    if bg is None:
        return None
    tgt, it, idx = bg
    batched = False
    while isinstance(it, ast.Call) and isinstance(it.func, ast.Name) and it.func.id in UNWRAP and it.args:
        if it.func.id == '_batch':
            batched = True   # the loop variable is a sub-list of the argument, i.e. container-equivalent
        if it.func.id == 'enumerate':
            if idx == 0:
                return None
            # for i, x in enumerate(xs): x is element of xs
            if isinstance(tgt, (ast.Tuple, ast.List)) and len(tgt.elts) == 2:
                inner = tgt.elts[1]
                if isinstance(inner, ast.Name) and inner.id == name:
                    idx = None
                else:
                    return None
        it = it.args[0]
    containers = [it]
    if isinstance(it, ast.Name) and _binding_gen(func, it.id, row) is not None \
            and not any(s[0] == 'assign' for s in binding_sites(func.node, it.id)):
        containers = flow_sources(func, it.id, row, depth + 1)
        if containers is None:
            return None
    if batched and idx is None:
        return containers
    out = []
    for c in containers:
        elems = list_elements(func, c)
        if elems is None:
            return None
        for el in elems:
            if isinstance(el, ast.Name) and idx is not None:
                # the element was bound to a temporary first:  row = (a, b, c); rows.append(row)
                asg = [b_ for b_ in binding_sites(func.node, el.id) if b_[0] == 'assign']
                if len(asg) == 1 and isinstance(asg[0][1], (ast.Tuple, ast.List)):
                    el = asg[0][1]
            if idx is None:
                out.append(el)
            elif isinstance(el, (ast.Tuple, ast.List)) and idx < len(el.elts):
                out.append(el.elts[idx])
            else:
                return None
    return out or None
