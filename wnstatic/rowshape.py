"""Row shapes: which Python expression feeds which placeholder / column of an
INSERT (or any positional statement) executed with execute / executemany."""
from __future__ import annotations
import ast
from .src import norm, walk_no_nested
from .pyutil import binding_sites, nearest_assignment, parents, resolve_value
from . import sql as S

UNWRAP = {'_batch', 'enumerate', 'reversed', 'list', 'sorted', 'iter', 'tuple'}
LOCAL_ITERS = {'_local_senses', '_local_synsets', '_local_entries'}


class Row:
    def __init__(self, elts=None, named=None, gens=None, node=None, opaque=None):
        self.elts = elts          # list of expr nodes (positional row) or None
        self.named = named        # dict name -> expr node / None (named row)
        self.gens = gens or []    # [(target, iter)] innermost last
        self.node = node
        self.opaque = opaque      # text when the shape could not be resolved


def _gens_of_comp(comp):
    return [(g.target, g.iter) for g in comp.generators]


def _enclosing_for_gens(node, func_node):
    out = []
    for p in parents(node):
        if p is func_node:
            break
        if isinstance(p, (ast.For, ast.AsyncFor)):
            out.append((p.target, p.iter))
    out.reverse()
    return out


def rows_of(func, pnode, many):
    """resolve the bind argument of execute(many) to a list of Row."""
    fn = func.node
    if pnode is None:
        return [Row(elts=[], node=None)]
    e = pnode
    if isinstance(e, ast.Name):
        sites = [s for s in binding_sites(fn, e.id) if s[0] in ('assign',)]
        rows = []
        empties = 0
        for s in sites:
            v = s[1]
            if isinstance(v, (ast.List, ast.Tuple)) and not v.elts and many:
                empties += 1
                continue
            rows.extend(_rows_of_value(func, v, many, s[2]))
        if empties or not sites:
            # list filled by .append(...) / .extend(...)
            for n in walk_no_nested(fn):
                if isinstance(n, ast.Call) and isinstance(n.func, ast.Attribute) and isinstance(n.func.value, ast.Name) \
                        and n.func.value.id == e.id and n.func.attr == 'append' and n.args:
                    a = n.args[0]
                    gens = _enclosing_for_gens(n, fn)
                    rows.extend(_row_of_elem(func, a, gens, n))
        if not rows:
            kinds = [s[0] for s in binding_sites(fn, e.id)]
            return [Row(opaque=f'{e.id} ({",".join(kinds) or "unbound"})', node=e)]
        return rows
    return _rows_of_value(func, e, many, e)


def _rows_of_value(func, v, many, at):
    fn = func.node
    if many:
        if isinstance(v, (ast.ListComp, ast.GeneratorExp)):
            return _row_of_elem(func, v.elt, _enclosing_for_gens(v, fn) + _gens_of_comp(v), v)
        if isinstance(v, (ast.List, ast.Tuple)):
            out = []
            for x in v.elts:
                out.extend(_row_of_elem(func, x, _enclosing_for_gens(v, fn), v))
            return out
        if isinstance(v, ast.Name):
            return rows_of(func, v, many)
        return [Row(opaque=norm(v)[:80], node=v)]
    # single execute
    return _row_of_elem(func, v, _enclosing_for_gens(at, fn), at)


def _row_of_elem(func, a, gens, node):
    fn = func.node
    if isinstance(a, (ast.Tuple, ast.List)):
        if any(isinstance(x, ast.Starred) for x in a.elts):
            return [Row(elts=list(a.elts), gens=gens, node=node)]
        return [Row(elts=list(a.elts), gens=gens, node=node)]
    if isinstance(a, ast.Dict) and all(isinstance(k, ast.Constant) for k in a.keys):
        return [Row(named={k.value: v for k, v in zip(a.keys, a.values)}, gens=gens, node=node)]
    if isinstance(a, ast.Name):
        # a dict built locally: dict(x) + constant-key stores / setdefault
        named = {}
        base = None
        found = False
        for s in binding_sites(fn, a.id):
            if s[0] == 'assign':
                v = s[1]
                if isinstance(v, ast.Call) and isinstance(v.func, ast.Name) and v.func.id == 'dict' and len(v.args) == 1:
                    base = v.args[0]
                    found = True
                elif isinstance(v, ast.Dict) and all(isinstance(k, ast.Constant) for k in v.keys):
                    named.update({k.value: x for k, x in zip(v.keys, v.values)})
                    found = True
                elif isinstance(v, (ast.Tuple,)):
                    return [Row(elts=list(v.elts), gens=gens, node=node)]
            elif s[0] in ('for', 'comp', 'param'):
                return [Row(named={'*': a}, gens=gens, node=node, opaque=None)]
        if found:
            for n in walk_no_nested(fn):
                if isinstance(n, ast.Assign):
                    for t in n.targets:
                        if isinstance(t, ast.Subscript) and isinstance(t.value, ast.Name) and t.value.id == a.id \
                                and isinstance(t.slice, ast.Constant):
                            named[t.slice.value] = n.value
                if isinstance(n, ast.Call) and isinstance(n.func, ast.Attribute) and n.func.attr == 'setdefault' \
                        and isinstance(n.func.value, ast.Name) and n.func.value.id == a.id and n.args \
                        and isinstance(n.args[0], ast.Constant):
                    named.setdefault(n.args[0].value, n.args[1] if len(n.args) > 1 else None)
            if base is not None:
                named['*'] = base
            return [Row(named=named, gens=gens, node=node)]
    return [Row(opaque=norm(a)[:80], gens=gens, node=node)]


def iter_source(func, name, row):
    """ultimate iterable a loop variable ranges over, unwrapping _batch/enumerate/... and batch variables.
    -> (expr node or None, chain of wrapper names)"""
    chain = []
    cur_name = name
    gens = list(row.gens)
    for _ in range(8):
        it = None
        for tgt, itr in reversed(gens):
            if cur_name in {x.id for x in ast.walk(tgt) if isinstance(x, ast.Name)}:
                it = itr
                break
        if it is None:
            return None, chain
        # unwrap
        while isinstance(it, ast.Call) and isinstance(it.func, ast.Name) and it.func.id in UNWRAP and it.args:
            chain.append(it.func.id)
            it = it.args[0]
        if isinstance(it, ast.Name) and any(it.id in {x.id for x in ast.walk(t) if isinstance(x, ast.Name)}
                                            for t, _ in gens):
            cur_name = it.id
            continue
        return it, chain
    return None, chain


def is_local_var(func, name, row):
    """is loop variable `name` provably a non-external element (ranges over _local_*() )?"""
    it, _ = iter_source(func, name, row)
    if isinstance(it, ast.Call) and isinstance(it.func, ast.Name) and it.func.id in LOCAL_ITERS:
        return True
    return False


class Slot:
    def __init__(self, index, column, kind, text):
        self.index, self.column, self.kind, self.text = index, column, kind, text
        self.exprs = []      # feeding expression nodes (one per placeholder of the slot)
        self.sub_table = None
        self.locality = None
        self.names = []


class Binding:
    def __init__(self, site, variant, table, row):
        self.site, self.variant, self.table, self.row = site, variant, table, row
        self.slots: list[Slot] = []
        self.problems: list[str] = []

    @property
    def func(self):
        return self.site.func


def _slot_kind(stmt, idxs):
    toks = [stmt.toks[k] for k in idxs]
    if len(toks) == 1 and toks[0].upper() == 'NULL':
        return 'null'
    if toks == ['?']:
        return 'param'
    if len(toks) == 1 and toks[0].startswith(':'):
        return 'named'
    if toks and toks[0] == '(' and len(toks) > 1 and toks[1].upper() == 'SELECT':
        return 'subselect'
    return 'expr'


def bind_statement(ctx, site, variant, row):
    """align a positional/named INSERT's slots with the row's expressions."""
    stmt = variant.stmt
    schema = ctx.schema
    table = stmt.target
    b = Binding(site, variant, table, row)
    slots = stmt.insert_slots()
    if slots is None or table not in schema.tables:
        b.problems.append('not a positional INSERT ... VALUES on a known table')
        return b
    cols = stmt.insert_columns() or schema.cols(table)
    if len(slots) != len(cols):
        b.problems.append(f'{len(slots)} value slots for {len(cols)} columns of {table}')
    pos = 0
    for i, idxs in enumerate(slots):
        col = cols[i] if i < len(cols) else None
        kind = _slot_kind(stmt, idxs)
        sl = Slot(i, col, kind, ' '.join(stmt.toks[k] for k in idxs))
        nq = sum(1 for k in idxs if stmt.toks[k] == '?')
        names = [stmt.toks[k][1:] for k in idxs if stmt.toks[k].startswith(':') and len(stmt.toks[k]) > 1]
        sl.names = names
        if kind == 'subselect':
            for k in idxs:
                if stmt.up[k] == 'FROM':
                    sl.sub_table = stmt.toks[k + 1]
                    break
        if row.elts is not None:
            sl.exprs = row.elts[pos:pos + nq]
            if len(sl.exprs) < nq:
                b.problems.append(f'row has {len(row.elts)} values, statement needs more (slot {i} {col})')
            pos += nq
        elif row.named is not None:
            sl.exprs = [row.named.get(nm, row.named.get('*')) for nm in names]
        b.slots.append(sl)
    if row.elts is not None and pos != len(row.elts) and not any(isinstance(x, ast.Starred) for x in row.elts):
        b.problems.append(f'row has {len(row.elts)} values, statement has {pos} placeholders')
    # locality of sub-selected parents
    for sl in b.slots:
        if sl.kind != 'subselect':
            continue
        sl.locality = _locality(ctx, b, sl)
    return b


def _locality(ctx, b, sl):
    schema = ctx.schema
    t = sl.sub_table
    if t is None:
        return 'cross'
    if not schema.has_col(t, 'lexicon_rowid') and t != 'lexicons':
        return 'lookup'
    if t == 'lexicons':
        return 'lookup'
    # which placeholder of the sub-select is compared with lexicon_rowid?
    text = sl.text
    toks = S._TOK.findall(text)
    qi = -1
    lex_q = None
    for i, tk in enumerate(toks):
        if tk == '?':
            qi += 1
            # look back for 'lexicon_rowid ='
            back = [x for x in toks[max(0, i - 4):i]]
            if 'lexicon_rowid' in back and ('=' in back or '==' in back):
                lex_q = qi
    if lex_q is None or lex_q >= len(sl.exprs):
        return 'cross'
    e = sl.exprs[lex_q]
    fn = b.func.node
    e = resolve_value(fn, e)
    if isinstance(e, ast.Name) and e.id == 'lexid':
        return 'owner-local'
    if isinstance(e, ast.Call) and isinstance(e.func, ast.Attribute) and e.func.attr == 'get' \
            and isinstance(e.func.value, ast.Name) and e.func.value.id == 'lexidmap' and len(e.args) == 2 \
            and isinstance(e.args[1], ast.Name) and e.args[1].id == 'lexid':
        key = resolve_value(fn, e.args[0])
        base = key
        while isinstance(base, (ast.Subscript, ast.Attribute)):
            base = base.value
        if isinstance(base, ast.Name) and is_local_var(b.func, base.id, b.row):
            return 'parent-local'
        return 'cross'
    return 'cross'


def insert_bindings(ctx):
    """all INSERT bindings of wn._add / wn._db."""
    def build():
        out = []
        for site in ctx.sites:
            if site.func.module.short not in ('_add', '_db'):
                continue
            for v in site.variants:
                if v.stmt is None or v.stmt.verb != 'INSERT':
                    continue
                many = site.attr == 'executemany'
                for row in rows_of(site.func, v.exec.params_node, many):
                    out.append(bind_statement(ctx, site, v, row))
        return out
    return ctx.repo.cache('insert_bindings', build)
