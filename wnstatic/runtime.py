"""Rule runtime: instances, findings, known findings, evidence, exit codes."""
from __future__ import annotations
import json
import os
import sys
import time
import traceback
import importlib

from .src import Repo, AnalysisError, norm

VERIF = os.path.dirname(os.path.dirname(os.path.abspath(__file__)))
KNOWN_FILE = os.path.join(VERIF, 'known_findings.json')
EVIDENCE_DIR = os.path.join(VERIF, 'evidence')


class Instance:
    """one obligation a rule examined."""
    __slots__ = ('rule', 'key', 'loc', 'desc')

    def __init__(self, rule, key, loc, desc=''):
        self.rule, self.key, self.loc, self.desc = rule, key, loc, desc

    def as_dict(self):
        return {'rule': self.rule, 'key': self.key, 'loc': self.loc, 'desc': self.desc}


class Finding:
    __slots__ = ('rule', 'key', 'loc', 'message', 'detail')

    def __init__(self, rule, key, loc, message, detail=None):
        self.rule, self.key, self.loc, self.message, self.detail = rule, key, loc, message, detail or {}

    def as_dict(self):
        return {'rule': self.rule, 'key': self.key, 'loc': self.loc, 'message': self.message, 'detail': self.detail}


class Result:
    def __init__(self, rule):
        self.rule = rule
        self.instances: list[Instance] = []
        self.findings: list[Finding] = []
        self.notes: list[str] = []

    def inst(self, key, loc, desc=''):
        self.instances.append(Instance(self.rule, key, loc, desc))

    def find(self, key, loc, message, **detail):
        self.findings.append(Finding(self.rule, key, loc, message, detail))

    def note(self, text):
        self.notes.append(text)


class Ctx:
    """lazily built shared analyses over one Repo."""

    def __init__(self, repo=None, tier='quick'):
        self.repo = repo or Repo()
        self.tier = tier

    @property
    def schema(self):
        from .schema import Schema
        return self.repo.cache('schema', lambda: Schema(self.repo))

    @property
    def sites(self):
        from .sqlx import extract_all
        return extract_all(self.repo)[0]

    @property
    def bindings(self):
        from .sqlx import extract_all
        return extract_all(self.repo)[1]

    @property
    def cg(self):
        from .callgraph import CallGraph
        return CallGraph.of(self.repo)

    @property
    def model(self):
        from .model import Model
        return self.repo.cache('model', lambda: Model(self.repo))

    def sites_of(self, funckey):
        return [s for s in self.sites if s.func.key == funckey]


def load_known():
    if not os.path.exists(KNOWN_FILE):
        return []
    with open(KNOWN_FILE) as fh:
        data = json.load(fh)
    return data.get('findings', [])


def rule_module(pid):
    return importlib.import_module(f'wnstatic.rules.{pid.lower()}')


def run_rules(pid, ctx, only_rule=None):
    """-> (results, errors)"""
    mod = rule_module(pid)
    results = []
    errors = []
    for rule_id, fn, floor in mod.RULES:
        if only_rule and rule_id != only_rule:
            continue
        res = Result(rule_id)
        try:
            fn(ctx, res)
        except AnalysisError as exc:
            errors.append(f'{rule_id}: {exc}')
        except Exception as exc:  # noqa: BLE001
            tb = traceback.format_exc(limit=6)
            errors.append(f'{rule_id}: internal error {type(exc).__name__}: {exc}\n{tb}')
        n_obl = len(res.instances)
        if not errors and floor is not None and n_obl < floor and not res.findings:
            errors.append(f'{rule_id}: only {n_obl} instances enumerated, floor confirmed by hand is {floor} '
                          f'(enumeration collapsed: absence of instances proves nothing)')
        results.append(res)
    return results, errors


def run_check(pid, tier='quick', replay=None, repo=None, quiet=False, write_evidence=True):
    t0 = time.time()
    seed = int(os.environ.get('VERIF_SEED', '0') or 0)
    out = []

    def say(*a):
        if not quiet:
            print(*a)
        out.append(' '.join(str(x) for x in a))

    try:
        mod = rule_module(pid)
        ctx = Ctx(repo or Repo(), tier)
        results, errors = run_rules(pid, ctx)
        extra = {}
        if tier == 'thorough' and not errors and repo is None:
            from .arming import arm
            a = arm(pid)
            extra = {'arming': {k: a[k] for k in ('variants', 'armed', 'skipped', 'not_detected_optional')},
                     'arming_samples': a['samples'],
                     'arming_rule': 'every curated and systematically generated instance-negating edit is applied to the current '
                                    'tree in memory and the rule must report a finding the unchanged tree does not have '
                                    '(behaviour-preserving variants must stay silent)'}
            for fmsg in a['failed']:
                errors.append(f'arming: rule is (partly) vacuous or brittle: {fmsg}')
    except AnalysisError as exc:
        say(f'ANALYSIS-ERROR property={pid}: {exc}')
        return 2, out
    except Exception as exc:  # noqa: BLE001
        say(f'ANALYSIS-ERROR property={pid}: internal error {type(exc).__name__}: {exc}')
        say(traceback.format_exc(limit=8))
        return 2, out

    known = [k for k in load_known() if k.get('property') == pid]
    known_keys = {(k['rule'], k['key']): k for k in known}
    instances = [i for r in results for i in r.instances]
    findings = [f for r in results for f in r.findings]
    # de-duplicate findings by (rule, key)
    seen = {}
    for f in findings:
        seen.setdefault((f.rule, f.key), f)
    findings = list(seen.values())

    say(f'== {pid}: {mod.META["title"]}  [tier={tier}] ==')
    say(f'analysed: {len(ctx.repo.modules)} modules, {sum(len(m.funcs) for m in ctx.repo.modules.values())} functions, '
        f'tree digest {ctx.repo.digest()}')
    for r in results:
        say(f'  rule {r.rule}: {len(r.instances)} obligations, {len(r.findings)} findings')
        for n in r.notes:
            say(f'      note: {n}')
    unlisted = []
    listed = []
    for f in findings:
        if (f.rule, f.key) in known_keys:
            listed.append(f)
        else:
            unlisted.append(f)
    if replay:
        try:
            with open(replay) as fh:
                want = json.load(fh)
        except (OSError, ValueError) as exc:
            say(f'ANALYSIS-ERROR property={pid}: cannot read replay file {replay}: {exc}')
            return 2, out
        hit = [f for f in findings if f.rule == want.get('rule') and f.key == want.get('key')]
        if hit:
            f = hit[0]
            say(f'REPLAY: still violated: {f.rule} {f.key} at {f.loc}: {f.message}')
            say(f'VIOLATION property={pid} replay={replay}')
            return 1, out
        say(f'REPLAY: not reproduced on the current tree: {want.get("rule")} {want.get("key")}')
        return 0, out

    for f in listed:
        k = known_keys[(f.rule, f.key)]
        say(f'KNOWN-FINDING: property={pid} {f.rule} {f.key} at {f.loc}: {k.get("what", f.message)}')
    code = 0
    replay_files = []
    if errors:
        for e in errors:
            say(f'ANALYSIS-ERROR property={pid}: {e}')
        code = 2
    if unlisted:
        os.makedirs(os.path.join(EVIDENCE_DIR, 'replay'), exist_ok=True)
        for k, f in enumerate(unlisted):
            path = os.path.join(EVIDENCE_DIR, 'replay', f'{pid}-{k}.json')
            try:
                with open(path, 'w') as fh:
                    json.dump({'property': pid, **f.as_dict()}, fh, indent=1, default=str)
            except OSError:
                pass
            replay_files.append(path)
            say(f'FINDING {f.rule} [{f.key}] at {f.loc}: {f.message}')
            for dk, dv in f.detail.items():
                say(f'      {dk}: {dv}')
            say(f'VIOLATION property={pid} replay={path}')
        code = 1
    if code == 0:
        say(f'OK property={pid}: {len(instances)} obligations examined, all discharged'
            + (f' ({len(listed)} known finding(s) listed)' if listed else ''))

    wall = time.time() - t0
    if write_evidence:
        nontrivial = {(i.rule, i.key) for i in instances}
        samples = _samples(instances, findings, seed)
        cov = {
            'explanation': mod.META['explanation'],
            'decided_clauses': mod.META.get('decides', []),
            'not_decided': mod.META.get('not_decided', []),
            'obligations': len(instances),
            'discharged': len(instances) - len({(f.rule, f.key) for f in findings}),
            'evaluations': len(instances),
            'distinct_nontrivial': len(nontrivial),
            'rule': 'one obligation per construct enumerated by a rule (statement variant, table occurrence, call site, '
                    'model key, loop, ...); distinct = distinct (rule, construct key); every obligation is non-trivial in '
                    'the sense that the rule evaluated a condition on a construct found in the current tree',
            'samples': samples,
            'per_rule': {r.rule: {'obligations': len(r.instances), 'findings': len(r.findings), 'notes': r.notes}
                         for r in results},
            'modules_analysed': sorted(m.relpath for m in ctx.repo.modules.values()),
            'functions_analysed': sum(len(m.funcs) for m in ctx.repo.modules.values()),
            'tree_digest': ctx.repo.digest(),
            'checker_cmd': f'./check {pid} --tier {tier}',
            'trusted_base': ['CPython ast module', 'SQLite statement compiler (EXPLAIN on an empty in-memory database '
                             'built from wn/schema.sql)', 'binding / exemption tables in wnstatic/rules'],
            'known_findings': [{'rule': f.rule, 'key': f.key, 'loc': f.loc} for f in listed],
            'unlisted_findings': [f.as_dict() for f in unlisted],
            'analysis_errors': errors,
            'exhaustive': True,
        }
        cov.update(extra)
        ev = {
            'property_id': pid, 'tier': tier, 'seed': seed, 'level': 'other', 'coverage': cov,
            'assumptions': mod.META.get('assumptions', []) + COMMON_ASSUMPTIONS,
            'wall_s': round(wall, 3), 'violations': len(unlisted),
        }
        os.makedirs(EVIDENCE_DIR, exist_ok=True)
        with open(os.path.join(EVIDENCE_DIR, f'{pid}.json'), 'w') as fh:
            json.dump(ev, fh, indent=1, default=str)
    if extra.get('arming'):
        a = extra['arming']
        say(f'arming: {a["armed"]}/{a["variants"]} variants behaved as expected, {a["skipped"]} skipped (pattern not in this tree)'
            + (f', optional not detected: {a["not_detected_optional"]}' if a.get('not_detected_optional') else ''))
    say(f'wall {wall:.2f}s')
    return code, out


COMMON_ASSUMPTIONS = [
    'static analysis of the source text only: no code of wn is imported or executed',
    'call graph is name-based; getattr / monkey patching are out of scope (the package uses none)',
    'SQLite and the Python standard library behave as documented',
    'annotations are truthful for model-typed variables',
]


def _samples(instances, findings, seed):
    import random
    rnd = random.Random(seed)
    by_rule = {}
    for i in instances:
        by_rule.setdefault(i.rule, []).append(i)
    out = []
    for rule, lst in sorted(by_rule.items()):
        pick = lst if len(lst) <= 3 else rnd.sample(lst, 3)
        out.extend(i.as_dict() for i in pick)
    if not out:
        out.append({'note': 'no instances'})
    return out[:60]


def main(argv=None):
    import argparse
    ap = argparse.ArgumentParser(prog='check')
    ap.add_argument('property')
    ap.add_argument('--tier', default=os.environ.get('VERIF_TIER', 'quick'), choices=['quick', 'thorough'])
    ap.add_argument('--replay')
    args = ap.parse_args(argv)
    pid = args.property.upper()
    try:
        code, _ = run_check(pid, args.tier, args.replay)
    except SystemExit:
        raise
    except BaseException as exc:  # noqa: BLE001
        print(f'ANALYSIS-ERROR property={pid}: {type(exc).__name__}: {exc}')
        traceback.print_exc()
        code = 2
    sys.exit(code)
