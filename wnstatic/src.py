"""Source model: every module of /repo/wn parsed once (ast), with parent links,
function / class indexes and resolved intra-package imports.

Nothing of wn is imported or executed.  An *overlay* {relative path: source}
can replace files in memory (self-tests, arming)."""
from __future__ import annotations
import ast
import os
import hashlib

REPO_ROOT = os.environ.get('WNSTATIC_REPO', '/repo')
PKG = 'wn'


class AnalysisError(Exception):
    """The analysis itself cannot proceed (exit 2), e.g. a vanished anchor."""


class FuncInfo:
    __slots__ = ('module', 'qualname', 'name', 'node', 'cls')

    def __init__(self, module, qualname, node, cls):
        self.module = module
        self.qualname = qualname
        self.name = node.name
        self.node = node
        self.cls = cls  # ClassInfo or None

    @property
    def key(self):
        return f'{self.module.short}.{self.qualname}'

    @property
    def params(self):
        a = self.node.args
        return [p.arg for p in a.posonlyargs + a.args] + [p.arg for p in a.kwonlyargs]

    def param_nodes(self):
        a = self.node.args
        return list(a.posonlyargs + a.args + a.kwonlyargs)

    def __repr__(self):
        return f'<Func {self.key}>'


class ClassInfo:
    __slots__ = ('module', 'name', 'node', 'bases', 'methods')

    def __init__(self, module, node):
        self.module = module
        self.name = node.name
        self.node = node
        self.bases = [ast.unparse(b) for b in node.bases]
        self.methods = {}

    def __repr__(self):
        return f'<Class {self.module.short}.{self.name}>'


class Module:
    def __init__(self, repo, relpath, source):
        self.repo = repo
        self.relpath = relpath            # 'wn/_add.py'
        self.source = source
        self.lines = source.splitlines()
        base = relpath[:-3].replace('/', '.')
        if base.endswith('.__init__'):
            base = base[:-9]
        self.name = base                  # 'wn._add'
        self.short = base.split('.', 1)[1] if '.' in base else base  # '_add'
        try:
            self.tree = ast.parse(source, filename=relpath)
        except SyntaxError as exc:
            raise AnalysisError(f'cannot parse {relpath}: {exc}')
        self.funcs: dict[str, FuncInfo] = {}
        self.classes: dict[str, ClassInfo] = {}
        self.imports: dict[str, tuple] = {}   # local -> ('mod', 'wn.lmf') | ('obj', 'wn._queries', 'find_entries') | ('ext', text)
        self._index()

    def _index(self):
        for node in ast.walk(self.tree):
            for child in ast.iter_child_nodes(node):
                child._parent = node
        self.tree._parent = None

        def visit(body, prefix, cls):
            for n in body:
                if isinstance(n, (ast.FunctionDef, ast.AsyncFunctionDef)):
                    q = prefix + n.name
                    fi = FuncInfo(self, q, n, cls)
                    self.funcs[q] = fi
                    if cls is not None and prefix == cls.name + '.':
                        cls.methods[n.name] = fi
                    visit(n.body, q + '.<locals>.', None)
                elif isinstance(n, ast.ClassDef):
                    ci = ClassInfo(self, n)
                    self.classes[prefix + n.name] = ci
                    visit(n.body, prefix + n.name + '.', ci)
                elif isinstance(n, (ast.If, ast.Try, ast.With)):
                    for fld in ('body', 'orelse', 'finalbody'):
                        visit(getattr(n, fld, []) or [], prefix, cls)
                    for h in getattr(n, 'handlers', []) or []:
                        visit(h.body, prefix, cls)
        visit(self.tree.body, '', None)

        for n in ast.walk(self.tree):
            if isinstance(n, ast.ImportFrom):
                mod = n.module or ''
                if n.level:
                    mod = PKG + ('.' + mod if mod else '')
                for a in n.names:
                    local = a.asname or a.name
                    if mod == PKG or mod.startswith(PKG + '.'):
                        sub = f'{mod}.{a.name}'
                        if self.repo.has_module(sub):
                            self.imports[local] = ('mod', sub)
                        else:
                            self.imports[local] = ('obj', mod, a.name)
                    else:
                        self.imports[local] = ('ext', f'{mod}.{a.name}')
            elif isinstance(n, ast.Import):
                for a in n.names:
                    local = a.asname or a.name.split('.')[0]
                    if a.name == PKG or a.name.startswith(PKG + '.'):
                        self.imports[local] = ('mod', a.name if a.asname else PKG)
                    else:
                        self.imports[local] = ('ext', a.name)

    # -- helpers ---------------------------------------------------------
    def loc(self, node):
        # modules rewritten by normalize.py carry virtual, strictly increasing statement numbers in `lineno` (the analyses order
        # statements by it); the line in the file is kept in `_orig_lineno`
        return f'{self.relpath}:{getattr(node, "_orig_lineno", getattr(node, "lineno", 0))}'

    def enclosing_func(self, node):
        n = getattr(node, '_parent', None)
        while n is not None:
            if isinstance(n, (ast.FunctionDef, ast.AsyncFunctionDef)):
                for fi in self.funcs.values():
                    if fi.node is n:
                        return fi
            n = getattr(n, '_parent', None)
        return None

    def segment(self, node):
        return ast.get_source_segment(self.source, node) or ast.unparse(node)


class Repo:
    def __init__(self, root=None, overlay=None):
        self.root = root or REPO_ROOT
        self.overlay = dict(overlay or {})
        self._relpaths = []
        pkgdir = os.path.join(self.root, PKG)
        if not os.path.isdir(pkgdir):
            raise AnalysisError(f'package directory missing: {pkgdir}')
        for dirpath, dirs, files in os.walk(pkgdir):
            dirs[:] = sorted(d for d in dirs if d != '__pycache__')
            for f in sorted(files):
                if f.endswith('.py'):
                    self._relpaths.append(os.path.relpath(os.path.join(dirpath, f), self.root))
        for rel in self.overlay:
            if rel.endswith('.py') and rel.startswith(PKG + '/') and rel not in self._relpaths:
                self._relpaths.append(rel)
        self._modnames = set()
        for rel in self._relpaths:
            base = rel[:-3].replace('/', '.')
            if base.endswith('.__init__'):
                base = base[:-9]
            self._modnames.add(base)
        self.modules: dict[str, Module] = {}
        for rel in self._relpaths:
            m = Module(self, rel, self.read(rel))
            self.modules[m.name] = m
        self._cache = {}
        # private helpers the analyses have no model for are expanded at their call sites (see normalize.py)
        from .normalize import normalize_module
        self.expanded = {}
        import ast as _ast
        from .normalize import _clone
        for m in self.modules.values():
            # definitions as written (the normaliser removes expanded helpers from the module they live in; another module
            # that imports such a helper still needs its body)
            m.orig_defs = {st.name: _clone(st) for st in m.tree.body if isinstance(st, _ast.FunctionDef) and st.name.startswith('_')}
        for m in self.modules.values():
            n = normalize_module(m)
            if n:
                self.expanded[m.relpath] = getattr(m, 'expanded_helpers', [])

    def has_module(self, name):
        return name in self._modnames

    def read(self, rel):
        if rel in self.overlay:
            return self.overlay[rel]
        try:
            with open(os.path.join(self.root, rel), encoding='utf-8') as fh:
                return fh.read()
        except OSError as exc:
            raise AnalysisError(f'cannot read {rel}: {exc}')

    def exists(self, rel):
        return rel in self.overlay or os.path.exists(os.path.join(self.root, rel))

    def mod(self, short) -> Module:
        """module by short name ('_add') or full name ('wn._add')."""
        name = short if short.startswith(PKG) else f'{PKG}.{short}'
        if short == PKG:
            name = PKG
        if name not in self.modules:
            raise AnalysisError(f'anchor vanished: module {name} not found')
        return self.modules[name]

    def func(self, modshort, qualname) -> FuncInfo:
        m = self.mod(modshort)
        if qualname not in m.funcs:
            raise AnalysisError(f'anchor vanished: function {m.short}.{qualname} not found')
        return m.funcs[qualname]

    def try_func(self, modshort, qualname):
        try:
            return self.func(modshort, qualname)
        except AnalysisError:
            return None

    def all_funcs(self):
        for m in self.modules.values():
            yield from m.funcs.values()

    def digest(self):
        h = hashlib.sha256()
        for rel in sorted(self._relpaths + ['wn/schema.sql']):
            if self.exists(rel):
                h.update(rel.encode())
                h.update(self.read(rel).encode())
        return h.hexdigest()[:16]

    # class hierarchy --------------------------------------------------------
    def resolve_class(self, module: Module, name: str):
        """class named `name` as seen from `module` (local or imported)."""
        if name in module.classes:
            return module.classes[name]
        imp = module.imports.get(name)
        if imp and imp[0] == 'obj':
            m = self.modules.get(imp[1])
            if m is not None:
                if imp[2] in m.classes:
                    return m.classes[imp[2]]
                # re-export (wn/__init__ imports from wn._core)
                imp2 = m.imports.get(imp[2])
                if imp2 and imp2[0] == 'obj' and imp2[1] in self.modules:
                    return self.modules[imp2[1]].classes.get(imp2[2])
        if '.' in name:
            head, attr = name.split('.', 1)
            imp = module.imports.get(head)
            if imp and imp[0] == 'mod' and imp[1] in self.modules:
                return self.resolve_class(self.modules[imp[1]], attr)
        return None

    def mro(self, cls: ClassInfo):
        out, seen = [], set()

        def walk(c):
            if c is None or id(c) in seen:
                return
            seen.add(id(c))
            out.append(c)
            for b in c.bases:
                walk(self.resolve_class(c.module, b))
        walk(cls)
        return out

    def lookup_method(self, cls: ClassInfo, name: str):
        for c in self.mro(cls):
            if name in c.methods:
                return c.methods[name]
        return None

    def subclasses(self, cls: ClassInfo):
        out = []
        for m in self.modules.values():
            for c in m.classes.values():
                if cls in self.mro(c):
                    out.append(c)
        return out

    def cache(self, key, fn):
        if key not in self._cache:
            self._cache[key] = fn()
        return self._cache[key]


def walk_no_nested(node):
    """ast.walk that does not descend into nested function/class definitions
    (the node itself may be a function)."""
    stack = list(ast.iter_child_nodes(node))
    while stack:
        n = stack.pop()
        yield n
        if isinstance(n, (ast.FunctionDef, ast.AsyncFunctionDef, ast.ClassDef, ast.Lambda)):
            continue
        stack.extend(ast.iter_child_nodes(n))


def names_in(node):
    return {n.id for n in ast.walk(node) if isinstance(n, ast.Name)}


def norm(node_or_text):
    """normalised statement text used in construct keys (no line numbers)."""
    t = node_or_text if isinstance(node_or_text, str) else ast.unparse(node_or_text)
    return ' '.join(t.split())
