"""Termination idioms of `while` loops and recursion cycles.

(G) global visited   growth of the worklist only under `key not in V` for the popped item, V created outside the
                     loop, V.add(key) on the same path (each key processed at most once)
(P) per-path visited every new agenda entry carries a strictly larger visited set and is created only for items not
                     in it (finitely many simple paths); or the popped (item, set) pair is skipped when item is in
                     its own set and successors carry set | {item}
(B) bounded consumption of an iterator defined outside the loop, no growth
(F) filter at push   only items not in a global V are queued, every popped item is added to V: terminates, but the body
                     can run more than once for an item that was queued twice before its first pop
"""
from __future__ import annotations
import ast
from .src import norm, walk_no_nested
from .pyutil import parents


class LoopInfo:
    def __init__(self, func, node):
        self.func, self.node = func, node
        self.idiom = 'NONE'
        self.why = ''
        self.worklist = None
        self.visited = None
        self.details = {}

    @property
    def key(self):
        return f'{self.func.key}:while {norm(self.node.test)[:40]}'


def _worklist_of(test):
    if isinstance(test, ast.Name):
        return test.id
    if isinstance(test, ast.Call) and isinstance(test.func, ast.Name) and test.func.id == 'len' and test.args \
            and isinstance(test.args[0], ast.Name):
        return test.args[0].id
    if isinstance(test, ast.Compare) and isinstance(test.left, ast.Call) and norm(test.left.func) == 'len':
        return _worklist_of(test.left)
    return None


def _growths(loop, w):
    out = []
    for n in ast.walk(loop):
        if isinstance(n, ast.Call) and isinstance(n.func, ast.Attribute) and isinstance(n.func.value, ast.Name) \
                and n.func.value.id == w and n.func.attr in ('append', 'extend', 'insert', 'appendleft', 'extendleft'):
            out.append(n)
        elif isinstance(n, ast.AugAssign) and isinstance(n.target, ast.Name) and n.target.id == w:
            out.append(n)
        elif isinstance(n, ast.Assign) and any(isinstance(t, ast.Name) and t.id == w for t in n.targets):
            # W = W + ...  (growth)  vs  W = list(islice(...)) (consumption)
            if any(isinstance(x, ast.Name) and x.id == w for x in ast.walk(n.value)):
                out.append(n)
    return out


def _pops(loop, w):
    """names bound from W.pop(...) in the loop: list of (target node, stmt)"""
    out = []
    for n in loop.body:
        for s in ast.walk(n):
            if isinstance(s, ast.Assign) and isinstance(s.value, ast.Call) and isinstance(s.value.func, ast.Attribute) \
                    and isinstance(s.value.func.value, ast.Name) and s.value.func.value.id == w \
                    and s.value.func.attr in ('pop', 'popleft'):
                out.append((s.targets[0], s))
    return out


def _dominating_facts(node, loop):
    """tests known true (text, polarity) when `node` executes, from enclosing ifs and preceding early exits in the
    enclosing blocks up to the loop."""
    facts = []
    child = node
    for p in parents(node):
        if isinstance(p, ast.If):
            if any(child is x or _contains(x, child) for x in p.body):
                facts.append((p.test, True))
            elif any(child is x or _contains(x, child) for x in p.orelse):
                facts.append((p.test, False))
        # preceding siblings with early exit
        for fld in ('body', 'orelse'):
            blk = getattr(p, fld, None)
            if isinstance(blk, list):
                idx = None
                for i, st in enumerate(blk):
                    if st is child or _contains(st, child):
                        idx = i
                        break
                if idx is not None:
                    for st in blk[:idx]:
                        if isinstance(st, ast.If) and st.body and isinstance(st.body[-1], (ast.Continue, ast.Return, ast.Break, ast.Raise)) \
                                and not st.orelse:
                            facts.append((st.test, False))
        if isinstance(p, (ast.ListComp, ast.GeneratorExp, ast.SetComp)):
            for g in p.generators:
                for c in g.ifs:
                    facts.append((c, True))
        if p is loop:
            break
        child = p
    return facts


def _contains(outer, inner):
    for n in ast.walk(outer):
        if n is inner:
            return True
    return False


def _not_in(test, polarity):
    """(item text, set text) if the fact says `item not in set`."""
    if isinstance(test, ast.Compare) and len(test.ops) == 1:
        if isinstance(test.ops[0], ast.NotIn) and polarity:
            return norm(test.left), norm(test.comparators[0])
        if isinstance(test.ops[0], ast.In) and not polarity:
            return norm(test.left), norm(test.comparators[0])
    if isinstance(test, ast.UnaryOp) and isinstance(test.op, ast.Not):
        return _not_in(test.operand, not polarity)
    return None


def classify_while(func, loop):
    info = LoopInfo(func, loop)
    w = _worklist_of(loop.test)
    info.worklist = w
    if w is None:
        info.why = f'loop condition `{norm(loop.test)}` is not a worklist test'
        return info
    growths = _growths(loop, w)
    pops = _pops(loop, w)
    popped_names = set()
    for tgt, _ in pops:
        popped_names |= {n.id for n in ast.walk(tgt) if isinstance(n, ast.Name)}
    if not growths:
        # bounded consumption: W re-assigned from an iterator, or only popped
        reassigned = [n for n in ast.walk(loop) if isinstance(n, ast.Assign)
                      and any(isinstance(t, ast.Name) and t.id == w for t in n.targets)]
        if pops and not reassigned:
            info.idiom, info.why = 'B', 'worklist only shrinks (pop) and never grows'
            return info
        ok = all(any(isinstance(x, ast.Call) and norm(x.func).split('.')[-1] in ('islice', 'next') for x in ast.walk(r.value))
                 for r in reassigned)
        if reassigned and ok:
            info.idiom, info.why = 'B', 'bounded consumption of an iterator (islice/next), no growth'
            return info
        info.why = 'worklist is re-assigned from something other than an iterator consumption'
        return info
    # sets created outside the loop
    outer_sets = set()
    fn = func.node
    for n in walk_no_nested(fn):
        if isinstance(n, (ast.Assign, ast.AnnAssign)) and n.lineno < loop.lineno:
            tg = n.targets if isinstance(n, ast.Assign) else [n.target]
            v = n.value
            if v is not None and (isinstance(v, (ast.Set, ast.SetComp)) or (isinstance(v, ast.Call) and norm(v.func) in ('set', 'frozenset'))):
                for t in tg:
                    if isinstance(t, ast.Name):
                        outer_sets.add(t.id)
    assigned_in_loop = {t.id for n in ast.walk(loop) if isinstance(n, (ast.Assign, ast.AugAssign, ast.AnnAssign))
                        for t in (n.targets if isinstance(n, ast.Assign) else [n.target]) if isinstance(t, ast.Name)}
    verdicts = []
    for g in growths:
        facts = _dominating_facts(g, loop)
        nots = [x for x in (_not_in(t, pol) for t, pol in facts) if x]
        verdict = None
        # (G) global visited
        for item, vs in nots:
            if vs in outer_sets and vs not in assigned_in_loop \
                    and any(pn in {n.id for n in ast.walk(ast.parse(item, mode='eval')) if isinstance(n, ast.Name)} for pn in popped_names):
                adds = [n for n in ast.walk(loop) if isinstance(n, ast.Call) and isinstance(n.func, ast.Attribute)
                        and n.func.attr == 'add' and norm(n.func.value) == vs and n.args and norm(n.args[0]) == item]
                # the add must be on the same guarded path: its facts include the same not-in
                for a in adds:
                    afacts = [x for x in (_not_in(t, pol) for t, pol in _dominating_facts(a, loop)) if x]
                    if (item, vs) in afacts:
                        verdict = ('G', f'growth guarded by `{item} not in {vs}` with `{vs}.add({item})` on the same path; '
                                        f'`{vs}` is created once outside the loop')
                        info.visited = vs
        if verdict is None:
            # (P) per-path visited
            arg = g.args[-1] if isinstance(g, ast.Call) and g.args else None
            larger = []
            if arg is not None:
                for n in ast.walk(arg):
                    if isinstance(n, ast.BinOp) and isinstance(n.op, ast.BitOr) and isinstance(n.right, (ast.Set, ast.SetComp)):
                        larger.append((norm(n.left), [norm(e) for e in n.right.elts] if isinstance(n.right, ast.Set) else []))
                # tuple built earlier: new_visited = visited | {x}; agenda.append((new_path, new_visited))
                for nm in [x.id for x in ast.walk(arg) if isinstance(x, ast.Name)]:
                    for s in ast.walk(loop):
                        if isinstance(s, ast.Assign) and any(isinstance(t, ast.Name) and t.id == nm for t in s.targets) \
                                and isinstance(s.value, ast.BinOp) and isinstance(s.value.op, ast.BitOr) \
                                and isinstance(s.value.right, ast.Set):
                            larger.append((norm(s.value.left), [norm(e) for e in s.value.right.elts]))
            for vs, added in larger:
                if vs not in popped_names and vs.split('.')[0] not in popped_names:
                    continue
                # candidates filtered by `t not in vs`, or the popped item itself checked against its own set
                ok = False
                for item, vs2 in nots:
                    if vs2 == vs and (item in added or item in popped_names):
                        ok = True
                # filter applied where the candidate list was built (related = [t for t in ... if t not in visited])
                if not ok:
                    for n in ast.walk(loop):
                        if isinstance(n, (ast.ListComp, ast.GeneratorExp)):
                            for gen in n.generators:
                                for c in gen.ifs:
                                    ni = _not_in(c, True)
                                    if ni and ni[1] == vs and ni[0] == norm(gen.target):
                                        # the growth iterates that filtered list
                                        ok = ok or _iterates_result_of(g, n, loop)
                if ok:
                    verdict = ('P', f'every new agenda entry carries `{vs} | {{...}}` and is created only for items not in `{vs}`')
                    info.visited = vs
        if verdict is None:
            # (F) filter at push: W.extend(x for x in ... if x not in V), V global, the popped item always added to V.
            # Terminates (only unvisited items are queued, LIFO/FIFO pops add them) but an item can be queued several
            # times before its first pop, so the body may run more than once per item.
            arg = g.args[-1] if isinstance(g, ast.Call) and g.args else None
            if isinstance(arg, (ast.GeneratorExp, ast.ListComp)) and len(arg.generators) == 1:
                gen = arg.generators[0]
                for c in gen.ifs:
                    ni = _not_in(c, True)
                    if ni and ni[0] == norm(gen.target) and norm(arg.elt) == ni[0] and ni[1] in outer_sets and ni[1] not in assigned_in_loop:
                        for st in loop.body:
                            if isinstance(st, ast.Expr) and isinstance(st.value, ast.Call) and isinstance(st.value.func, ast.Attribute) \
                                    and st.value.func.attr == 'add' and norm(st.value.func.value) == ni[1] and st.value.args \
                                    and norm(st.value.args[0]) in popped_names:
                                verdict = ('F', f'only items not in `{ni[1]}` are queued and every popped item is added to `{ni[1]}` '
                                                f'(an item may still be queued more than once before its first pop)')
                                info.visited = ni[1]
        verdicts.append((g, verdict))
    bad = [(g, v) for g, v in verdicts if v is None]
    if bad:
        info.why = f'worklist `{w}` grows at `{norm(bad[0][0])[:60]}` without a visited guard'
        info.details['unguarded'] = bad[0][0]
        return info
    kinds = {v[0] for _, v in verdicts}
    info.idiom = 'G' if kinds == {'G'} else ('P' if 'P' in kinds else 'F' if 'F' in kinds else 'G')
    info.why = '; '.join(sorted({v[1] for _, v in verdicts}))
    return info


def _iterates_result_of(growth, comp, loop):
    """is `growth` inside a for-loop that iterates (possibly reversed) the variable assigned from `comp`?"""
    par = getattr(comp, '_parent', None)
    names = set()
    if isinstance(par, ast.Assign):
        names = {t.id for t in par.targets if isinstance(t, ast.Name)}
    for p in parents(growth):
        if p is loop:
            break
        if isinstance(p, ast.For):
            it = p.iter
            while isinstance(it, ast.Call) and it.args:
                it = it.args[0]
            if isinstance(it, ast.Name) and it.id in names:
                return True
    return False


def all_whiles(repo):
    out = []
    for f in repo.all_funcs():
        for n in walk_no_nested(f.node):
            if isinstance(n, ast.While):
                out.append((f, n))
    return out


def recursion_cycles(ctx):
    """strongly connected components (size > 1 or self loop) of the call graph, restricted to direct name / self calls."""
    cg = ctx.cg
    funcs = {f.key: f for f in ctx.repo.all_funcs()}
    graph = {k: set() for k in funcs}
    for k, f in funcs.items():
        for call, cal in cg.callees(f):
            for c in cal:
                # ignore class-hierarchy guesses on unknown receivers: keep direct names, module.func, self./cls./super()
                fn = call.func
                precise = isinstance(fn, ast.Name) or (isinstance(fn, ast.Attribute) and (
                    (isinstance(fn.value, ast.Name) and (fn.value.id in ('self', 'cls') or fn.value.id in f.module.imports))
                    or len(cal) == 1))
                if precise and c.key in graph:
                    graph[k].add(c.key)
    # Tarjan
    index = {}
    low = {}
    stack = []
    on = set()
    sccs = []
    counter = [0]

    def strong(v):
        work = [(v, iter(sorted(graph[v])))]
        index[v] = low[v] = counter[0]
        counter[0] += 1
        stack.append(v)
        on.add(v)
        while work:
            node, it = work[-1]
            advanced = False
            for wv in it:
                if wv not in index:
                    index[wv] = low[wv] = counter[0]
                    counter[0] += 1
                    stack.append(wv)
                    on.add(wv)
                    work.append((wv, iter(sorted(graph[wv]))))
                    advanced = True
                    break
                elif wv in on:
                    low[node] = min(low[node], index[wv])
            if advanced:
                continue
            work.pop()
            if work:
                low[work[-1][0]] = min(low[work[-1][0]], low[node])
            if low[node] == index[node]:
                comp = []
                while True:
                    x = stack.pop()
                    on.discard(x)
                    comp.append(x)
                    if x == node:
                        break
                if len(comp) > 1 or node in graph[node]:
                    sccs.append(sorted(comp))
    for v in sorted(graph):
        if v not in index:
            strong(v)
    return sccs
