"""Version guards: under which condition on the LMF version (two-point domain <1.1 / >=1.1) a node executes."""
from __future__ import annotations
import ast
from .src import norm
from .pyutil import parents


def _cmp_kind(test):
    """'>=1.1' / '<1.1' if `test` is a comparison of a version variable with (1, 1)."""
    if isinstance(test, ast.Compare) and len(test.ops) == 1:
        left, right = norm(test.left), norm(test.comparators[0])
        op = test.ops[0]
        if right == '(1, 1)' and 'version' in left.lower():
            if isinstance(op, ast.GtE):
                return '>=1.1'
            if isinstance(op, ast.Lt):
                return '<1.1'
        if left == '(1, 1)' and 'version' in right.lower():
            if isinstance(op, ast.LtE):
                return '>=1.1'
            if isinstance(op, ast.Gt):
                return '<1.1'
    return None


def _neg(g):
    return {'>=1.1': '<1.1', '<1.1': '>=1.1'}.get(g)


def _test_guards(test, positive):
    """guards implied when `test` is truthy (positive) / falsy."""
    k = _cmp_kind(test)
    if k:
        return {k if positive else _neg(k)}
    if isinstance(test, ast.BoolOp) and isinstance(test.op, ast.And) and positive:
        out = set()
        for v in test.values:
            out |= _test_guards(v, True)
        return out
    if isinstance(test, ast.BoolOp) and isinstance(test.op, ast.Or) and not positive:
        out = set()
        for v in test.values:
            out |= _test_guards(v, False)
        return out
    if isinstance(test, ast.UnaryOp) and isinstance(test.op, ast.Not):
        return _test_guards(test.operand, not positive)
    return set()


def version_guard_of(func, node):
    guards = set()
    child = node
    for p in parents(node):
        if isinstance(p, ast.If):
            if any(child is x for x in p.body):
                guards |= _test_guards(p.test, True)
            elif any(child is x for x in p.orelse):
                guards |= _test_guards(p.test, False)
        elif isinstance(p, ast.IfExp):
            if child is p.body:
                guards |= _test_guards(p.test, True)
            elif child is p.orelse:
                guards |= _test_guards(p.test, False)
        elif isinstance(p, ast.BoolOp) and isinstance(p.op, ast.And):
            idx = next((i for i, v in enumerate(p.values) if v is child), None)
            if idx:
                for v in p.values[:idx]:
                    guards |= _test_guards(v, True)
        elif isinstance(p, (ast.ListComp, ast.GeneratorExp, ast.SetComp, ast.DictComp)):
            for g in p.generators:
                for c in g.ifs:
                    guards |= _test_guards(c, True)
        if p is func.node:
            break
        child = p
    if len(guards) == 1:
        return guards.pop()
    if len(guards) > 1:
        return 'contradiction'
    return None


def call_chain_guards(ctx, func, node=None, depth=0, seen=None):
    """guard common to all call chains that reach `func` (None if some chain is unguarded)."""
    seen = seen or set()
    if depth > 5 or func.key in seen:
        return None
    seen = seen | {func.key}
    callers = ctx.cg.callers_of(func)
    if not callers:
        return None
    out = set()
    for caller, call in callers:
        g = version_guard_of(caller, call)
        if g is None:
            g = call_chain_guards(ctx, caller, None, depth + 1, seen)
        out.add(g)
    if len(out) == 1:
        return out.pop()
    return None
