"""Assertions over effect summaries (wnstatic.effects): the rules state *what a function does* in the name-free normal
form - which value it returns under which conditions, what it stores where, in which loops - instead of matching source text."""
from __future__ import annotations
import re
from .src import AnalysisError
from .effects import module_summary
from .inline import Opaque

_CELL = re.compile(r'#(\d+)<[^<>]*(?:<[^<>]*>[^<>]*)*>')


def short(text):
    """cell symbols without their initial value: `#1<[]>` -> `#1`"""
    prev = None
    while prev != text:
        prev = text
        text = _CELL.sub(lambda m: '#' + m.group(1), text)
    return text


class View:
    def __init__(self, ctx, mod, fn):
        self.ctx = ctx
        try:
            self.f, self.E = module_summary(ctx, mod, fn)
        except Opaque as exc:
            raise AnalysisError(f'{mod}.{fn} cannot be summarised: {exc}')
        self.rows = [(e.kind, short(e.text), frozenset(short(g) for g in e.guards), tuple(short(c) for c in e.ctx), e) for e in self.E]

    def loc(self, e=None):
        return self.f.module.loc(e.node if e is not None else self.f.node)

    def find(self, kind=None, text=None, guards=(), ctx=None, text_re=None, ctx_has=None):
        """effects matching: kind (str or tuple), exact short text, guards ⊆ effect guards, exact ctx (tuple) or ctx_has substring"""
        out = []
        kinds = (kind,) if isinstance(kind, str) else kind
        for k, t, g, c, e in self.rows:
            if kinds is not None and k not in kinds:
                continue
            if text is not None and t != text:
                continue
            if text_re is not None and not re.search(text_re, t):
                continue
            if not set(guards) <= g:
                continue
            if ctx is not None and c != tuple(ctx):
                continue
            if ctx_has is not None and not any(ctx_has in x for x in c):
                continue
            out.append((k, t, g, c, e))
        return out

    def kinds(self, *kinds):
        return [r for r in self.rows if r[0] in kinds]

    def describe(self, kinds=('return', 'raise', 'yield', 'store', 'aug', 'call')):
        out = []
        for k, t, g, c, e in self.rows:
            if k in kinds:
                out.append(f'{k} {t[:90]}' + (f' when {sorted(g)}' if g else '') + (f' in {list(c)}' if c else ''))
        return out


def view(ctx, mod, fn):
    return ctx.repo.cache(('view', mod, fn), lambda: View(ctx, mod, fn))


def expect(res, key, v, specs, what, exact=('return', 'raise', 'yield', 'yield-from')):
    """every spec (kind, text, guards, ctx) must be matched by an effect with exactly that text and context whose guards
    include the given ones; and every effect whose kind is in `exact` must be one of the specs (no other way out)."""
    res.inst(key, v.loc(), f'{len(specs)} required effects')
    matched = set()
    for sp in specs:
        kind, text = sp[0], sp[1]
        guards = sp[2] if len(sp) > 2 else ()
        ctx = sp[3] if len(sp) > 3 else ()
        hits = v.find(kind, text, guards, ctx)
        if len(sp) > 4 and sp[4] == 'exact':
            hits = [h for h in hits if h[2] == frozenset(guards)]
        if not hits:
            near = [r for r in v.rows if r[0] == kind]
            res.find(key, v.loc(), f'{v.f.qualname}: {what}; expected `{kind} {text[:110]}`'
                                   + (f' when {list(guards)}' if guards else '') + (f' in {list(ctx)}' if ctx else '')
                                   + f'; found {[r[1][:80] + (" when " + str(sorted(r[2])) if r[2] else "") for r in near][:3]}')
            return False
        for h in hits:
            matched.add(id(h[4]))
    for k, t, g, c, e in v.rows:
        if k in exact and id(e) not in matched:
            res.find(key, v.loc(e), f'{v.f.qualname}: {what}; unexpected `{k} {t[:110]}`' + (f' when {sorted(g)}' if g else ''))
            return False
    return True
