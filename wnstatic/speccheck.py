"""Assertions over effect summaries (wnstatic.effects): the rules state *what a function does* in the name-free normal
form - which value it returns under which conditions, what it stores where, in which loops - instead of matching source text."""
from __future__ import annotations
import re
from .src import AnalysisError
from .effects import module_summary
from .inline import Opaque

_CELL = re.compile(r'#(\d+)<[^<>]*(?:<[^<>]*>[^<>]*)*>')


def short(text):
    """cell symbols without their initial value: `#1<[]>` -> `#1`"""
    prev = None
    while prev != text:
        prev = text
        text = _CELL.sub(lambda m: '#' + m.group(1), text)
    return text


class View:
    def __init__(self, ctx, mod, fn):
        self.ctx = ctx
        try:
            self.f, self.E = module_summary(ctx, mod, fn)
        except Opaque as exc:
            raise AnalysisError(f'{mod}.{fn} cannot be summarised: {exc}')
        self.rows = [(e.kind, short(e.text), frozenset(short(g) for g in e.guards), tuple(short(c) for c in e.ctx), e) for e in self.E]

    def loc(self, e=None):
        return self.f.module.loc(e.node if e is not None else self.f.node)

    def find(self, kind=None, text=None, guards=(), ctx=None, text_re=None, ctx_has=None):
        """effects matching: kind (str or tuple), exact short text, guards ⊆ effect guards, exact ctx (tuple) or ctx_has substring"""
        out = []
        kinds = (kind,) if isinstance(kind, str) else kind
        for k, t, g, c, e in self.rows:
            if kinds is not None and k not in kinds:
                continue
            if text is not None and t != text:
                continue
            if text_re is not None and not re.search(text_re, t):
                continue
            if not set(guards) <= g:
                continue
            if ctx is not None and c != tuple(ctx):
                continue
            if ctx_has is not None and not any(ctx_has in x for x in c):
                continue
            out.append((k, t, g, c, e))
        return out

    def kinds(self, *kinds):
        return [r for r in self.rows if r[0] in kinds]

    def describe(self, kinds=('return', 'raise', 'yield', 'store', 'aug', 'call')):
        out = []
        for k, t, g, c, e in self.rows:
            if k in kinds:
                out.append(f'{k} {t[:90]}' + (f' when {sorted(g)}' if g else '') + (f' in {list(c)}' if c else ''))
        return out


def view(ctx, mod, fn):
    return ctx.repo.cache(('view', mod, fn), lambda: View(ctx, mod, fn))


def expect(res, key, v, specs, what, exact=('return', 'raise', 'yield', 'yield-from')):
    """every spec (kind, text, guards, ctx) must be matched by an effect with exactly that text and context whose guards
    include the given ones; and every effect whose kind is in `exact` must be one of the specs (no other way out)."""
    res.inst(key, v.loc(), f'{len(specs)} required effects')
    matched = set()
    for sp in specs:
        kind, text = sp[0], sp[1]
        guards = sp[2] if len(sp) > 2 else ()
        ctx = sp[3] if len(sp) > 3 else ()
        hits = v.find(kind, text, guards, ctx)
        if not (len(sp) > 4 and sp[4] == 'sub'):
            # the effect happens under exactly the stated conditions: an additional guard restricts it
            hits = [h for h in hits if h[2] == frozenset(guards)]
        if not hits:
            near = [r for r in v.rows if r[0] == kind]
            res.find(key, v.loc(), f'{v.f.qualname}: {what}; expected `{kind} {text[:110]}`'
                                   + (f' when {list(guards)}' if guards else '') + (f' in {list(ctx)}' if ctx else '')
                                   + f'; found {[r[1][:80] + (" when " + str(sorted(r[2])) if r[2] else "") for r in near][:3]}')
            return False
        for h in hits:
            matched.add(id(h[4]))
    for k, t, g, c, e in v.rows:
        if k in exact and id(e) not in matched:
            res.find(key, v.loc(e), f'{v.f.qualname}: {what}; unexpected `{k} {t[:110]}`' + (f' when {sorted(g)}' if g else ''))
            return False
    return True


def as_loop(v, text):
    """an iterable argument in loop form, whether it is spelled as a generator / list comprehension inside the expression or
    as a local list filled by a loop before:  -> (element text, loops, guards) or None.
    `(_2 for _1, _2 in X)`  and  `#1` with `call #1.append($1[1]) in [for X]`  both give  ('$1[1]', ('for X',), frozenset())"""
    import ast
    from .src import norm
    m = re.fullmatch(r'#(\d+)', text)
    if m:
        adds = [r for r in v.rows if r[0] == 'call' and re.match(rf'#{m.group(1)}\.(append|add)\(', r[1])]
        others = [r for r in v.rows if r[0] in ('store', 'aug', 'del', 'call') and re.search(rf'#{m.group(1)}(?!\d)', r[1]) and r not in adds
                  and not r[1].startswith(('unique_list(', 'list(', 'sorted(', 'tuple('))]
        news = [e for e in v.E if e.kind == 'new' and e.text.startswith(f'#{m.group(1)}<')]
        if len(adds) != 1 or others or not news or not all(e.text in (f'#{m.group(1)}<[]>', f'#{m.group(1)}<set()>') for e in news):
            return None
        call = adds[0][1]
        return call[call.index('(') + 1:-1], tuple(adds[0][3]), frozenset(adds[0][2])
    try:
        node = ast.parse(re.sub(r'\$(\d+)', r'_loop_\1', re.sub(r'#(\d+)', r'_cell_\1', text)), mode='eval').body
    except SyntaxError:
        return None
    if isinstance(node, ast.Call) and isinstance(node.func, ast.Name) and node.func.id == 'list' and len(node.args) == 1:
        node = node.args[0]
    if not isinstance(node, (ast.GeneratorExp, ast.ListComp)):
        return None
    env, loops, guards = {}, [], []

    class S(ast.NodeTransformer):
        def visit_Name(self, n):
            return env.get(n.id, n)

    def back(t):
        return re.sub(r'_loop_(\d+)', r'$\1', re.sub(r'_cell_(\d+)', r'#\1', t))
    for i, g in enumerate(node.generators, 1):
        loops.append('for ' + back(norm(S().visit(g.iter))))
        lv = ast.Name(id=f'_loop_{i}', ctx=ast.Load())
        if isinstance(g.target, ast.Name):
            env[g.target.id] = lv
        elif isinstance(g.target, (ast.Tuple, ast.List)) and all(isinstance(x, ast.Name) for x in g.target.elts):
            for j, x in enumerate(g.target.elts):
                env[x.id] = ast.Subscript(value=lv, slice=ast.Constant(value=j), ctx=ast.Load())
        else:
            return None
        for c in g.ifs:
            guards.append(back(norm(S().visit(c))))
    return back(norm(S().visit(node.elt))), tuple(loops), frozenset(guards)
