"""Lexicon-scoping classification of table occurrences in SELECT statements,
and provenance of the scope argument at call sites of scoped query functions."""
from __future__ import annotations
import ast
import re
from .src import norm, walk_no_nested, AnalysisError
from .pyutil import binding_sites, get_arg, is_self_attr, resolve_value
from . import sql as S

SCOPE_PARAM = 'lexicon_rowids'
# tables that are not lexicon content: the lexicon registry itself and shared lookup tables
REGISTRY_TABLES = {'lexicons', 'lexicon_dependencies', 'lexicon_extensions'}


def scoped_functions(ctx):
    """functions of wn._queries that take the scope parameter."""
    q = ctx.repo.mod('_queries')
    return {f.key: f for f in q.funcs.values() if SCOPE_PARAM in f.params}


def _eq_predicates(stmt):
    """all `a.x = b.y` / `a.x = ?` equalities with the scope they occur in: (scope, left, right, conjunctive)"""
    out = []
    toks = stmt.toks
    n = len(toks)

    def operand(i, direction):
        # returns (text, start_or_end index)
        if direction < 0:
            if i >= 2 and toks[i - 1] == '.':
                return f'{toks[i - 2]}.{toks[i]}', i - 2
            return toks[i], i
        if i + 2 < n and toks[i + 1] == '.':
            return f'{toks[i]}.{toks[i + 2]}', i + 2
        return toks[i], i

    for i, t in enumerate(toks):
        if t in ('=', '==') and 0 < i < n - 1:
            left, ls = operand(i - 1, -1)
            right, _ = operand(i + 1, +1)
            out.append((stmt.qscope(i), left, right, stmt._conjunctive(ls), i))
    return out


def classify_occurrences(ctx, stmt, scope_src=SCOPE_PARAM, writer_local=None):
    """-> list of (occ, status, reason).  status in: filtered, exempt-registry, exempt-lookup, exempt-parent,
    exempt-child, exempt-rowkey, exempt-local-child, cte, UNFILTERED."""
    schema = ctx.schema
    stmt.lexicon_filters(schema)
    lookups = schema.lookup_tables()
    eqs = _eq_predicates(stmt)
    res = {}
    occs = [o for o in stmt.occs]
    by_alias = {}
    for o in occs:
        by_alias.setdefault((o.scope, o.alias), o)

    def find_occ(scope, alias):
        sc = scope
        while sc is not None:
            if (sc, alias) in by_alias:
                return by_alias[(sc, alias)]
            sc = stmt.group_parent.get(sc) if sc != 0 else None
            while sc is not None and sc not in stmt.query_groups:
                sc = stmt.group_parent.get(sc)
        return None

    def split(op):
        if '.' in op:
            a, c = op.split('.', 1)
            return a, c
        return None, op

    # first pass: direct statuses
    for o in occs:
        if o.kind == 'cte' or o.table not in schema.tables:
            res[id(o)] = ('cte', 'common table expression / derived')
        elif o.table in REGISTRY_TABLES:
            res[id(o)] = ('exempt-registry', 'lexicon registry table')
        elif o.table in lookups:
            res[id(o)] = ('exempt-lookup', 'shared lookup table (no owner)')
        elif scope_src in o.filters:
            res[id(o)] = ('filtered', f'lexicon_rowid IN <{scope_src}>')
    # row-keyed statements: single table, WHERE is exactly one `rowid = ?`
    real = [o for o in occs if o.kind == 'table' and o.table in schema.tables]
    def real_of(scope):
        return [x for x in real if x.scope == scope]

    # iterative: FK-parent of an accepted row / child of an accepted owner
    changed = True
    while changed:
        changed = False
        for o in occs:
            if id(o) in res:
                continue
            for sc, left, right, conj, pos in eqs:
                if not conj:
                    continue
                for a, b in ((left, right), (right, left)):
                    qa, ca = split(a)
                    qb, cb = split(b)
                    # ---- parent: o.rowid = other.fkcol  where other accepted and fkcol references o.table
                    oa = find_occ(sc, qa) if qa else None
                    if oa is o and ca == 'rowid' and qb is not None and _only_reports_id(stmt, schema, o, real_of(o.scope)):
                        ob = find_occ(sc, qb)
                        if ob is not None and ob is not o and id(ob) in res and res[id(ob)][0] not in ('UNFILTERED',) \
                                and ob.kind == 'table' \
                                and any(fk.table == ob.table and fk.column == cb and fk.ref_table == o.table
                                        for fk in schema.fks):
                            res[id(o)] = ('exempt-parent',
                                          f'at most one row, reached through FK {ob.alias}.{cb} of an accepted row, '
                                          f'and joined only to report its id')
                            changed = True
                    # ---- child without own lexicon column: o.fk = owner.rowid with owner accepted(filtered)
                    if oa is o and qb is not None and cb == 'rowid' and not schema.has_col(o.table, 'lexicon_rowid'):
                        ob = find_occ(sc, qb)
                        if ob is not None and ob is not o and id(ob) in res and res[id(ob)][0] == 'filtered' \
                                and any(fk.table == o.table and fk.column == ca and fk.ref_table == ob.table
                                        for fk in schema.fks) \
                                and writer_local is not None and writer_local.get((o.table, ca)) == 'owner-local':
                            res[id(o)] = ('exempt-child', f'child rows of filtered owner {ob.alias} '
                                                          f'(importer binds {o.table}.{ca} to the inserting lexicon)')
                            changed = True
                if id(o) in res:
                    break
    # child-only tables restricted by `fk IN (filtered subselect)` or row-keyed by a local-only parent
    for o in occs:
        if id(o) in res:
            continue
        if not schema.has_col(o.table, 'lexicon_rowid'):
            fkcols = [fk for fk in schema.fks if fk.table == o.table]
            ok = None
            toks = stmt.toks
            for fk in fkcols:
                for i, t in enumerate(toks):
                    if t == fk.column and stmt.qscope(i) == o.scope and i + 2 < len(toks):
                        if stmt.up[i + 1] == 'IN' and toks[i + 2] == '(' and stmt._conjunctive(i):
                            g = stmt.group_of[i + 3] if i + 3 < len(toks) else None
                            inner = [x for x in occs if x.scope == g]
                            if inner and all(res.get(id(x), ('',))[0] == 'filtered' for x in inner
                                             if x.kind == 'table') \
                                    and any(x.table == fk.ref_table for x in inner):
                                ok = ('exempt-child', f'{fk.column} IN (filtered {fk.ref_table} rows)')
                        if toks[i + 1] in ('=', '==') and toks[i + 2] == '?' and stmt._conjunctive(i) \
                                and writer_local is not None and writer_local.get((o.table, fk.column)) == 'parent-local':
                            ok = ('exempt-local-child',
                                  f'row-keyed by {fk.column}; the importer attaches {o.table} rows only to parents '
                                  f'of the inserting lexicon')
            if ok:
                res[id(o)] = ok
    # single-table statements keyed by rowid
    for o in occs:
        if id(o) in res:
            continue
        preds = stmt.where_predicates(o.scope)
        if len([x for x in real if x.scope == o.scope]) == 1 and len(preds) == 1:
            p = preds[0].replace(' ', '')
            if p in ('rowid=?', f'{o.alias}.rowid=?'):
                res[id(o)] = ('exempt-rowkey', 'single row addressed by rowid obtained from a scoped query')
    # row-keyed with additional lookup joins (get_lexfile: ss.rowid = ? joined to lexfiles)
    for o in occs:
        if id(o) in res:
            continue
        preds = [p.replace(' ', '') for p in stmt.where_predicates(o.scope) + stmt.inner_on_predicates(o.scope)]
        others = [x for x in real if x.scope == o.scope and x is not o]
        key_preds = [p_ for p_ in preds if p_ in (f'{o.alias}.rowid=?', f'?={o.alias}.rowid') or re.fullmatch(re.escape(o.alias) + r'\.rowid=:\w+', p_)]
        join_preds = [p_ for p_ in preds if p_ not in key_preds]
        lk_alias = {x.alias for x in others}

        def _is_join(p_):
            # an inner-join condition written in WHERE: <alias>.<col> = <alias>.<col> between this row and a lookup table
            m = re.fullmatch(r'(\w+)\.(\w+)=(\w+)\.(\w+)', p_)
            return bool(m) and {m.group(1), m.group(3)} <= (lk_alias | {o.alias}) and m.group(1) != m.group(3)
        if len(key_preds) == 1 and all(_is_join(p_) for p_ in join_preds) \
                and all(res.get(id(x), ('',))[0] in ('exempt-lookup', 'exempt-registry') for x in others):
            res[id(o)] = ('exempt-rowkey', 'single row addressed by rowid, joined only to lookup tables')
    out = []
    for o in occs:
        st = res.get(id(o), ('UNFILTERED', 'no lexicon filter binds this occurrence'))
        out.append((o, st[0], st[1]))
    return out


def _only_reports_id(stmt, schema, occ, real_in_scope):
    """the occurrence contributes nothing but its `id` to the select list of its (sub)query: it is joined to name
    the parent of a result row, it is not itself the result row."""
    items = stmt.select_list() if occ.scope == 0 else stmt.subselect_list(occ.scope)
    if items is None:
        return False
    for item in items:
        toks = S._TOK.findall(item)
        i = 0
        while i < len(toks):
            t = toks[i]
            if i + 2 < len(toks) and toks[i + 1] == '.':
                if t == occ.alias and toks[i + 2] != 'id':
                    return False
                i += 3
                continue
            if toks[i] == '(':
                # nested sub-select inside the select list: skip it
                depth = 1
                i += 1
                while i < len(toks) and depth:
                    depth += toks[i] == '('
                    depth -= toks[i] == ')'
                    i += 1
                continue
            if re.match(r'[A-Za-z_]', t) and t.upper() not in S.KEYWORDS and schema.has_col(occ.table, t) and t != 'id':
                # unqualified column that this table could supply
                others = [x for x in real_in_scope if x is not occ and schema.has_col(x.table, t)]
                if not others:
                    return False
            i += 1
    return True


# ---------------------------------------------------------------------------
# writer-side facts: which (child table, fk column) the importer binds only to rows of the inserting lexicon

def writer_locality(ctx):
    """(table, fk column) -> 'owner-local' | 'parent-local' | 'cross' derived from the INSERTs of wn._add."""
    def build():
        from .rowshape import insert_bindings
        out = {}
        for b in insert_bindings(ctx):
            for slot in b.slots:
                if slot.kind != 'subselect':
                    continue
                col = slot.column
                if col is None:
                    continue
                fk = [f for f in ctx.schema.fks if f.table == b.table and f.column == col]
                if not fk:
                    continue
                loc = slot.locality
                key = (b.table, col)
                prev = out.get(key)
                if prev is None or prev == loc:
                    out[key] = loc
                else:
                    out[key] = 'cross'
        return out
    return ctx.repo.cache('writer_locality', build)


# ---------------------------------------------------------------------------
# provenance of a scope argument

def provenance(ctx, func, expr, depth=0, seen=None):
    """set of tags describing where the scope value passed at a call site comes from."""
    seen = seen or set()
    tags = set()
    if expr is None:
        return {'omitted'}
    if isinstance(expr, str):
        return {'other:splat'}
    e = expr
    if isinstance(e, ast.Name):
        sites = binding_sites(func.node, e.id)
        if not sites:
            return {f'other:{e.id}'}
        for s in sites:
            if s[0] == 'param':
                if depth >= 4 or (func.key, e.id) in seen:
                    tags.add(f'other:param {e.id} (depth)')
                    continue
                callers = ctx.cg.callers_of(func)
                if not callers:
                    tags.add(f'other:param {e.id} of uncalled {func.key}')
                for caller, call in callers:
                    arg = get_arg(call, func, e.id)
                    if arg is None:
                        d = _default(func, e.id)
                        if d is not None and isinstance(d, (ast.Tuple, ast.List)) and not d.elts:
                            tags.add('omitted')
                        elif d is None:
                            tags.add('other:missing argument')
                        else:
                            tags |= provenance(ctx, func, d, depth + 1, seen | {(func.key, e.id)})
                    else:
                        tags |= provenance(ctx, caller, arg, depth + 1, seen | {(func.key, e.id)})
            elif s[0] == 'assign':
                tags |= provenance(ctx, func, s[1], depth + 1, seen)
            else:
                tags.add(f'other:{s[0]}-bound {e.id}')
        return tags
    if isinstance(e, ast.Call):
        f = e.func
        if isinstance(f, ast.Attribute) and f.attr == '_get_lexicon_ids' and isinstance(f.value, ast.Name) \
                and f.value.id == 'self' and not e.args and not e.keywords:
            return {'element'}
        return {f'other:{norm(e)[:60]}'}
    if isinstance(e, ast.Attribute):
        # a local alias of a path (`_wn = self._wordnet`) is resolved first
        root = e
        while isinstance(root, ast.Attribute):
            root = root.value
        if isinstance(root, ast.Name) and root.id != 'self' and depth < 4:
            sites = binding_sites(func.node, root.id)
            if len(sites) == 1 and sites[0][0] == 'assign':
                v = sites[0][1]
                rv = v
                while isinstance(rv, ast.Attribute):
                    rv = rv.value
                if isinstance(v, (ast.Attribute, ast.Name)) and isinstance(rv, ast.Name):
                    from .inline import clone

                    def rebuild(n):
                        if n is root:
                            return clone(v)
                        c = ast.Attribute(value=rebuild(n.value), attr=n.attr, ctx=ast.Load())
                        return c
                    return provenance(ctx, func, rebuild(e), depth + 1, seen)
        if e.attr == '_lexicon_ids':
            base = e.value
            if isinstance(base, ast.Name):
                return {'wordnet' if _is_wordnet(ctx, func, base.id) else f'other:{norm(e)}'}
            if is_self_attr(base, '_wordnet'):
                return {'wordnet-of-element'}
            return {f'other:{norm(e)}'}
        if e.attr == '_expanded_ids':
            if is_self_attr(e.value, '_wordnet') or (isinstance(e.value, ast.Name) and _is_wordnet(ctx, func, e.value.id)):
                return {'expand'}
        return {f'other:{norm(e)}'}
    if isinstance(e, ast.Tuple):
        if len(e.elts) == 1:
            x = e.elts[0]
            if isinstance(x, ast.Attribute) and x.attr == '_id':
                return {'single'}
            if isinstance(x, ast.Name):
                v = resolve_value(func.node, x)
                if isinstance(v, ast.Attribute) and v.attr == '_id':
                    return {'single'}
                # parameter carrying a rowid of one lexicon (describe helper)
                if any(s[0] == 'param' for s in binding_sites(func.node, x.id)):
                    sub = set()
                    for caller, call in ctx.cg.callers_of(func):
                        arg = get_arg(call, func, x.id)
                        if isinstance(arg, ast.Name):
                            arg = resolve_value(caller.node, arg)
                        if isinstance(arg, ast.Attribute) and arg.attr == '_id':
                            sub.add('single')
                        else:
                            sub.add(f'other:tuple of {norm(arg) if isinstance(arg, ast.AST) else arg}')
                    return sub or {'other:tuple of uncalled param'}
            return {f'other:{norm(e)}'}
        if not e.elts:
            return {'omitted'}
        return {f'other:{norm(e)}'}
    return {f'other:{norm(e)[:60]}'}


def _default(func, pname):
    from .sqlx import _default_of
    return _default_of(func, pname)


def _is_wordnet(ctx, func, name):
    if name == 'self' and func.cls is not None and func.cls.name == 'Wordnet':
        return True
    for p in func.param_nodes():
        if p.arg == name and p.annotation is not None and norm(p.annotation).strip("'\"").split('.')[-1] == 'Wordnet':
            return True
    if '.<locals>.' in func.qualname and name not in func.params:
        outer = func.module.funcs.get(func.qualname.rsplit('.<locals>.', 1)[0])
        if outer is not None:
            return _is_wordnet(ctx, outer, name)
    return False


def kwargs_keys(func, name):
    """constant keys a local dict `name` can hold (display + constant-key stores)."""
    keys = {}
    nodes = list(walk_no_nested(func.node))
    if not any(isinstance(n, ast.Name) and n.id == name and isinstance(n.ctx, ast.Store) for n in nodes) and name not in func.params:
        # a closure reading a dict of the enclosing function
        q = func.qualname
        while '.<locals>.' in q:
            q = q.rsplit('.<locals>.', 1)[0]
            outer = func.module.funcs.get(q)
            if outer is not None:
                return kwargs_keys(outer, name)
    for n in nodes:
        if isinstance(n, (ast.Assign, ast.AnnAssign)):
            tg = n.targets if isinstance(n, ast.Assign) else [n.target]
            for t in tg:
                if isinstance(t, ast.Name) and t.id == name and isinstance(n.value, ast.Dict):
                    for k, v in zip(n.value.keys, n.value.values):
                        if isinstance(k, ast.Constant):
                            keys[k.value] = v
                if isinstance(t, ast.Subscript) and isinstance(t.value, ast.Name) and t.value.id == name \
                        and isinstance(t.slice, ast.Constant):
                    keys[t.slice.value] = n.value
    return keys
