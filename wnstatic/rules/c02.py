"""C02 — WN-LMF load/dump is a lossless round trip in every supported version (structural agreement)."""
from __future__ import annotations
import ast
import re
from ..pat import Frag
from ..speccheck import view
from ..src import norm, walk_no_nested, AnalysisError
from ..consts import const, Unknown
from ..pyutil import parents, binding_sites
from ..vguard import version_guard_of, call_chain_guards

META = {
    'title': 'WN-LMF load/dump is a lossless round trip in every supported version',
    'technique': 'folded reader tables vs TypedDict model vs writer coverage (sibling consumers of one model); version-guard census; print-sink taint for escaping; effect summaries (name-free normal form of a function: locals inlined, positional loop variables, cells, comprehension = loop, helpers expanded) for the conversions, the expat handlers and the header lines of dump()',
    'explanation': (
        'Equality of arbitrary resources after dump+load is not statically decidable. The check decides that reader, writer and '
        'model agree element by element, key by key and version by version - the "serializer forgets one attribute of one '
        'element kind" class: R1 the version tables (SUPPORTED_VERSIONS, _SCHEMAS, _DC_URIS, _VALID_ELEMS, _NS_ATTRS) have the '
        'same keys, every element the reader knows has a writer site and elements new in 1.1 are only emitted under a '
        '>= (1, 1) guard; R2 a model class has `text` iff its element is a CDATA element, `meta` iff a metadata element, its '
        'parent key is list-typed iff it is a list element, and bool / list / int keys have a converting assignment in the '
        'loader; R3 every key of every model class is read by the builder of that element, metadata reaches _meta_dict, and '
        'keys that only exist from 1.1 (or only before) are read under exactly that version guard; R4 the Metadata keys, '
        '_DC_ATTRS and the keys _meta_dict writes are the same set; R5 everything printed to the output is a constant, the '
        'ElementTree serialisation of an element, or passed through quoteattr; R6 dump() prints the very header constants '
        '_read_header compares against. R8 no truthiness test on a numeric model value in writer / exporter (0 is a value). R2 also: every lemma (external or not) and every form reaches _validate_forms, where typed attributes are converted. R10 no truth test of an ElementTree element in the writer (its truth is \'has children\'). R11 an attrib dict handed to an element constructor is not stored into afterwards (ET.Element copies it).'),
    'decides': ['version table agreement', 'model <-> reader element sets', 'model <-> writer key coverage', 'metadata key tables',
                'escaping discipline', 'shared header constants'],
    'not_decided': ['whitespace normalisation / xml:space="preserve"', 'byte-level fixed point', 'value conversions themselves'],
    'assumptions': ['ElementTree escapes attribute values and text; xml.sax.saxutils.quoteattr escapes attribute values'],
}

# element -> model class (identity unless listed)
ELEMENT_CLASS = {'SenseRelation': 'Relation', 'SynsetRelation': 'Relation', 'Requires': 'Dependency', 'Extends': 'Dependency'}
# model class -> writer functions that serialise it
BUILDERS = {
    'LexicalResource': ['dump'],
    'Lexicon': ['_build_lexicon_attrib', '_dump_lexicon'],
    'LexiconExtension': ['_build_lexicon_attrib', '_dump_lexicon'],
    'Dependency': ['_dump_dependency'],
    'LexicalEntry': ['_dump_lexical_entry'],
    'ExternalLexicalEntry': ['_dump_lexical_entry'],
    'Lemma': ['_build_lemma'],
    'ExternalLemma': ['_build_lemma'],
    'Form': ['_build_form'],
    'ExternalForm': ['_build_form'],
    'Pronunciation': ['_build_pronunciation'],
    'Tag': ['_build_tag'],
    'Sense': ['_build_sense'],
    'ExternalSense': ['_build_sense'],
    'Example': ['_build_example'],
    'Count': ['_build_count'],
    'Synset': ['_dump_synset'],
    'ExternalSynset': ['_dump_synset'],
    'Definition': ['_build_definition'],
    'ILIDefinition': ['_build_ili_definition'],
    'Relation': ['_build_relation'],
    'SyntacticBehaviour': ['_build_syntactic_behaviour'],
}
# keys expressible only from / only before WN-LMF 1.1: (class, key) -> '>=1.1' | '<1.1'
VERSIONED_KEYS = {
    ('Lexicon', 'logo'): '>=1.1', ('Lexicon', 'requires'): '>=1.1', ('Lexicon', 'frames'): '>=1.1',
    ('LexiconExtension', 'logo'): '>=1.1', ('LexiconExtension', 'requires'): '>=1.1', ('LexiconExtension', 'frames'): '>=1.1',
    ('LexiconExtension', 'extends'): None,   # decides the element name; the <Extends> child itself is >= 1.1
    ('Synset', 'members'): '>=1.1', ('Synset', 'lexfile'): '>=1.1', ('Sense', 'subcat'): '>=1.1',
    ('Form', 'id'): '>=1.1', ('ExternalForm', 'id'): '>=1.1',
    ('Lemma', 'pronunciations'): '>=1.1', ('ExternalLemma', 'pronunciations'): '>=1.1',
    ('Form', 'pronunciations'): '>=1.1', ('ExternalForm', 'pronunciations'): '>=1.1',
    ('SyntacticBehaviour', 'id'): '>=1.1', ('SyntacticBehaviour', 'senses'): '<1.1',
    ('LexicalEntry', 'frames'): '<1.1',
}
# whole element kinds that exist only from 1.1
CLASS_VERSION = {'Dependency': '>=1.1', 'Pronunciation': '>=1.1'}
NEW_IN_1_1_GUARDED = {'Pronunciation', 'Requires', 'Extends'}


def _fold(ctx, name):
    v = const(ctx.repo, 'lmf', name)
    if isinstance(v, Unknown):
        raise AnalysisError(f'cannot fold lmf.{name}: {v.why}')
    return v


def _emissions(ctx):
    """(element name, function, node) for every element the writer can emit."""
    lmf = ctx.repo.mod('lmf')
    out = []
    for f in lmf.funcs.values():
        for n in walk_no_nested(f.node):
            if isinstance(n, ast.Call) and norm(n.func) == 'ET.Element' and n.args:
                a = n.args[0]
                if isinstance(a, ast.Constant):
                    out.append((a.value, f, n))
                elif isinstance(a, ast.Name) and a.id not in f.params:
                    # the tag chosen in branches first: `tag = 'ExternalForm'` / `tag = 'Form'`, then one ET.Element(tag, ...)
                    from ..pyutil import binding_sites
                    for b in binding_sites(f.node, a.id):
                        if b[0] == 'assign' and b[1] is not None:
                            vals = [b[1]] if not isinstance(b[1], ast.IfExp) else [b[1].body, b[1].orelse]
                            for v_ in vals:
                                if isinstance(v_, ast.Constant) and isinstance(v_.value, str):
                                    out.append((v_.value, f, n))
                elif isinstance(a, ast.Name) and a.id in f.params:
                    for caller, call in ctx.cg.callers_of(f):
                        from ..pyutil import get_arg
                        arg = get_arg(call, f, a.id)
                        if isinstance(arg, ast.Constant):
                            out.append((arg.value, caller, call))
            if isinstance(n, ast.IfExp) and isinstance(n.body, ast.Constant) and isinstance(n.orelse, ast.Constant) \
                    and {n.body.value, n.orelse.value} == {'LexiconExtension', 'Lexicon'}:
                out.append(('Lexicon', f, n))
                out.append(('LexiconExtension', f, n))
            if isinstance(n, ast.Call) and norm(n.func) == 'print':
                for a in n.args:
                    if isinstance(a, (ast.Constant, ast.JoinedStr)) and 'LexicalResource' in norm(a):
                        out.append(('LexicalResource', f, n))
    return out


def r1_tables(ctx, res):
    lmf = ctx.repo.mod('lmf')
    names = ('SUPPORTED_VERSIONS', '_SCHEMAS', '_DC_URIS', '_VALID_ELEMS', '_NS_ATTRS')
    vals = {n: _fold(ctx, n) for n in names}
    keysets = {n: set(v) for n, v in vals.items()}
    key = 'version-tables'
    res.inst(key, lmf.relpath, f'{ {n: sorted(k) for n, k in keysets.items()} }')
    if len({frozenset(k) for k in keysets.values()}) != 1:
        res.find(key, lmf.relpath, f'the version tables of wn/lmf.py do not cover the same versions: { {n: sorted(k) for n, k in keysets.items()} }')
    valid = vals['_VALID_ELEMS']
    em = _emissions(ctx)
    emitted = {e for e, _, _ in em}
    latest = valid[sorted(valid)[-1]]
    for el in sorted(latest):
        key = f'writer-site:{el}'
        res.inst(key, lmf.relpath, 'element has a writer site')
        if el not in emitted:
            res.find(key, lmf.relpath, f'the reader accepts <{el}> but no writer function emits it: dump() cannot express what load() returns')
    for el, f, n in em:
        key = f'emitted-valid:{el}@{f.qualname}'
        res.inst(key, lmf.loc(n), 'emitted element is known to the reader')
        if el not in latest:
            res.find(key, lmf.loc(n), f'the writer emits <{el}>, which no version of the reader accepts')
        if el in NEW_IN_1_1_GUARDED and el not in valid.get('1.0', {}):
            g = version_guard_of(f, n) or call_chain_guards(ctx, f, n)
            if g != '>=1.1':
                res.find(key + ':guard', lmf.loc(n), f'<{el}> exists only from WN-LMF 1.1 but is emitted without a `version >= (1, 1)` guard '
                                                     f'(guard found: {g}): a 1.0 dump is rejected by load()')
    # namespace table: every dc attribute has its namespaced spelling for every version
    dc = _fold(ctx, '_DC_ATTRS')
    for v, table in vals['_NS_ATTRS'].items():
        key = f'ns-attrs:{v}'
        uri = vals['_DC_URIS'][v]
        want = {f'{uri} {a}': a for a in dc} | {'status': 'status', 'note': 'note', 'confidenceScore': 'confidenceScore'}
        res.inst(key, lmf.relpath, f'{len(table)} namespaced attributes')
        if table != want:
            res.find(key, lmf.relpath, f'_NS_ATTRS[{v!r}] does not map exactly the dc: attributes of {uri} plus status/note/confidenceScore')


def reader_all_forms_converted(ctx, res):
    """the typed attributes of form-like elements (Pronunciation.phonemic, ...) are converted in _validate_forms: every lemma -
    external or not - and every form of an entry must be handed to it.  On the summary of _validate_entries: the collection
    passed to _validate_forms contains the entry's lemma whenever there is one (no other condition) and all its forms."""
    import re as _re
    from ..speccheck import view
    from .c02 import _parse_summary_expr as _p
    v = view(ctx, 'lmf', '_validate_entries')
    key = 'reader:lemma-and-forms-validated'
    calls = [r for r in v.rows if r[0] == 'call' and r[1].startswith('_validate_forms(')]
    res.inst(key, v.loc(), f'{len(calls)} path(s) reach _validate_forms')
    if not calls:
        raise AnalysisError('anchor vanished: _validate_entries no longer calls _validate_forms')
    L, F = "$1.get('lemma')", "$1.get('forms', [])"
    presence = {L, f'{L} is not None'}
    for r in calls:
        arg = r[1][len('_validate_forms('):].rsplit(', ', 1)[0]
        bad = None
        m = _re.fullmatch(r'#(\d+)', arg)
        if m:
            cell = m.group(1)
            init = [e for e in v.E if e.kind == 'new' and e.text.startswith(f'#{cell}<')]
            adds = [x for x in v.rows if x[0] == 'call' and _re.match(rf'#{cell}\.(insert|append)\(', x[1]) and L in x[1]]
            if not init or F not in init[0].text:
                bad = f'the collection does not start from all forms of the entry ({init[0].text[:60] if init else "?"})'
            elif not adds:
                bad = 'the lemma is never added to the collection'
            else:
                for a in adds:
                    extra = {g for g in (set(a[2]) - set(r[2])) if 'lemma' in g} - presence
                    if extra and all((set(a2[2]) - set(r[2])) - presence for a2 in adds):
                        bad = f'the lemma is added only when {sorted(extra)}'
        else:
            if F not in arg or L not in arg:
                bad = f'`{arg[:80]}` does not contain the lemma and all forms'
            else:
                tests = [norm(t.test).replace('_loop_', '$') for t in ast.walk(_p(arg)) if isinstance(t, ast.IfExp)]
                extra = [t for t in tests if t not in presence]
                if extra:
                    bad = f'the lemma is included only when {extra}'
        if bad:
            res.find(key, v.loc(r[4]), f'_validate_entries hands `{arg[:60]}` to _validate_forms: {bad}; the typed attributes of the elements left '
                                       f'out (e.g. Pronunciation phonemic="false" under an ExternalLemma) are not converted and dump() writes them wrongly')
            break


def reader_text_checks(ctx, res):
    """the reader hands element text over complete and unaltered (shared by C01: add() stores what load() returns)"""
    import re as _re
    from ..speccheck import view
    # character data may arrive in several callbacks (expat buffer boundaries, entity references): the handler must append
    cd = view(ctx, 'lmf', '_make_parser.<locals>.char_data')
    key = 'reader:text-accumulates'
    augs = [r for r in cd.rows if r[0] == 'aug' and _re.match(r"^(.+)\['text'\] \+= data$", r[1])]
    plain = [r for r in cd.rows if r[0] == 'store' and "['text'] = " in r[1]]
    res.inst(key, cd.loc(), "<open element>['text'] += data")
    if len(augs) != 1 or plain:
        res.find(key, cd.loc(), "the character-data handler no longer appends to the text of the open element (expat delivers long or "
                                'entity-bearing text in several pieces; assigning keeps only the last piece, so text longer than the parser '
                                'buffer is truncated on load)')
    mp = view(ctx, 'lmf', '_make_parser')
    key = 'reader:handlers-installed'
    res.inst(key, mp.loc(), 'Start/End/CharacterData handlers')
    for attr, fn in (('StartElementHandler', 'start'), ('EndElementHandler', 'end'), ('CharacterDataHandler', 'char_data')):
        if not [r for r in mp.rows if r[0] == 'store' and _re.match(r'^#\d+\.' + attr + ' = ' + fn + '$', r[1]) and not r[2]]:
            res.find(key, mp.loc(), f'the parser is no longer wired with `{attr} = {fn}`')
    en = view(ctx, 'lmf', '_make_parser.<locals>.end')
    key = 'reader:whitespace-normalised'
    res.inst(key, en.loc(), "' '.join(text.split()) unless xml:space=preserve")
    okw = False
    for r in en.rows:
        m = _re.match(r"^(.+)\['text'\] = ' '\.join\((.+)\['text'\]\.split\(\)\)$", r[1]) if r[0] == 'store' else None
        if m and m.group(1) == m.group(2) and f"{m.group(1)}.get(_XMLSPACEATTR, '') != 'preserve'" in r[2]:
            okw = True
    if not okw:
        res.find(key, en.loc(), 'text content is no longer whitespace-normalised (unless xml:space="preserve") at the end of an element')


def r2_model_reader(ctx, res):
    model = ctx.model
    lmf = ctx.repo.mod('lmf')
    valid = _fold(ctx, '_VALID_ELEMS')
    cdata, meta, lst = _fold(ctx, '_CDATA_ELEMS'), _fold(ctx, '_META_ELEMS'), _fold(ctx, '_LIST_ELEMS')
    latest = valid[sorted(valid)[-1]]
    for el, pkey in sorted(latest.items()):
        if el == 'LexicalResource':
            continue
        cls = ELEMENT_CLASS.get(el, el)
        if cls not in model.classes:
            res.inst(f'class:{el}', lmf.relpath, 'model class')
            res.find(f'class:{el}', lmf.relpath, f'element <{el}> has no model class {cls}')
            continue
        keys = model.classes[cls]
        has_text = 'text' in keys or (cls == 'Count')     # Count's text is converted to `value`
        key = f'cdata:{el}'
        res.inst(key, lmf.relpath, f'text={has_text} cdata={el in cdata}')
        if has_text != (el in cdata):
            res.find(key, lmf.relpath, f'model class {cls} {"has" if has_text else "has no"} text but <{el}> is '
                                       f'{"" if el in cdata else "not "}in _CDATA_ELEMS: the text is {"dropped" if has_text else "collected but has no key"}')
        key = f'meta:{el}'
        has_meta = 'meta' in keys
        res.inst(key, lmf.relpath, f'meta={has_meta} in _META_ELEMS={el in meta}')
        if has_meta != (el in meta):
            res.find(key, lmf.relpath, f'model class {cls} {"has" if has_meta else "has no"} meta but <{el}> is '
                                       f'{"" if el in meta else "not "}in _META_ELEMS: dc: attributes are '
                                       f'{"left as plain keys" if has_meta else "moved to a key the model does not have"}')
        # list-ness of the parent key
        parents_with_key = [(c, model.key_ann(c, pkey)) for c in model.classes if pkey in model.classes[c]]
        is_list = None
        for c, ann in parents_with_key:
            s = norm(ann)
            if cls in s or cls.replace('External', '') in s or 'Union' in s:
                is_list = s.startswith('list[')
        key = f'list:{el}'
        res.inst(key, lmf.relpath, f'parent key {pkey!r} list-typed={is_list} in _LIST_ELEMS={el in lst}')
        if is_list is not None and is_list != (el in lst):
            res.find(key, lmf.relpath, f'<{el}> is {"" if el in lst else "not "}collected into a list but the model types {pkey!r} as '
                                       f'{"a list" if is_list else "a single value"}')
    # conversions (on the effect summaries of the validators: any spelling of "store the converted value back under the key")
    import re as _re
    from ..speccheck import view
    conv = {
        ('_validate_forms', 'phonemic'): (r"^(\$\d+)\['phonemic'\] = \1\['phonemic'\] != 'false'$", "{}.get('phonemic')", 'bool: everything but "false" is True'),
        ('_validate_senses', 'lexicalized'): (r"^(\$\d+)\['lexicalized'\] = \1\['lexicalized'\] != 'false'$", "{}.get('lexicalized')", 'bool'),
        ('_validate_synsets', 'lexicalized'): (r"^(\$\d+)\['lexicalized'\] = \1\['lexicalized'\] != 'false'$", "{}.get('lexicalized')", 'bool'),
        ('_validate_senses', 'subcat'): (r"^(\$\d+)\['subcat'\] = \1\['subcat'\]\.split\(\)$", "{}.get('subcat')", 'list of ids'),
        ('_validate_frames', 'senses'): (r"^(\$\d+)\['senses'\] = \1\['senses'\]\.split\(\)$", "{}.get('senses')", 'list of ids'),
        ('_validate_synsets', 'members'): (r"^(\$\d+)\['members'\] = \1\['members'\]\.split\(\)$", "{}.get('members')", 'list of ids'),
        ('_validate_senses', 'value'): (r"^(\$\d+)\['value'\] = int\(\1\.pop\('text'\)\)$", "'text' in {}", 'int'),
    }
    for (fname, k), (pat, guard, what) in conv.items():
        v = view(ctx, 'lmf', fname)
        key = f'convert:{fname}:{k}'
        hits = []
        for r in v.rows:
            if r[0] == 'store':
                m = _re.match(pat, r[1])
                if m and guard.format(m.group(1)) in r[2]:
                    hits.append(r)
        res.inst(key, v.loc(), f'{len(hits)} converting stores ({what})')
        stores = [r for r in v.rows if r[0] == 'store' and f"['{k}'] = " in r[1]]
        if not hits or len(hits) != len(stores):
            res.find(key, v.loc(), f'{fname} no longer converts {k!r} ({what}) whenever it is present: '
                                   f'{sorted({r[1] for r in stores})[:2]}: the loaded value has the wrong type for the model')
    reader_text_checks(ctx, res)
    reader_all_forms_converted(ctx, res)
    # typed keys of the model that need a conversion are all in the table
    for cls, keys in model.classes.items():
        for k, (ann, req) in keys.items():
            t = norm(ann)
            if t in ('bool', 'list[str]', 'int') and cls not in ('Metadata',):
                key = f'typed-key:{cls}.{k}'
                res.inst(key, lmf.relpath, t)
                if not any(kk == k for (_, kk) in conv):
                    res.find(key, lmf.relpath, f'{cls}.{k} is typed {t} but the loader has no conversion for it')


def _loop_constants(f, name):
    """string constants a name ranges over when it is the variable of `for name in ('a', 'b', ...)` - the tuple / list may be
    written in place or be a local list of constants, possibly extended by `.append('c')`"""
    out = []

    def consts(seq):
        return [e.value for e in seq.elts] if isinstance(seq, (ast.Tuple, ast.List)) and seq.elts \
            and all(isinstance(e, ast.Constant) and isinstance(e.value, str) for e in seq.elts) else None
    for n in walk_no_nested(f.node):
        if isinstance(n, (ast.For, ast.comprehension)) and isinstance(n.target, ast.Name) and n.target.id == name:
            c = consts(n.iter)
            if c is not None:
                out.extend((x, None) for x in c)
            elif isinstance(n.iter, ast.Name):
                sites = binding_sites(f.node, n.iter.id)
                if len(sites) == 1 and sites[0][0] == 'assign' and consts(sites[0][1]) is not None:
                    out.extend((x, None) for x in consts(sites[0][1]))
                    for m in walk_no_nested(f.node):
                        if isinstance(m, ast.Call) and isinstance(m.func, ast.Attribute) and m.func.attr == 'append' and norm(m.func.value) == n.iter.id \
                                and m.args and isinstance(m.args[0], ast.Constant) and isinstance(m.args[0].value, str):
                            out.append((m.args[0].value, m))      # the key is in the list only where the append is reached
    return out


def _keys_read(f):
    out = {}
    for n in walk_no_nested(f.node):
        # keys read through a loop over a tuple of constant keys:  for key in ('url', 'citation'): ... x[key] / x.get(key)
        kn = None
        if isinstance(n, ast.Subscript) and isinstance(n.slice, ast.Name) and isinstance(n.ctx, ast.Load):
            kn = n.slice.id
        elif isinstance(n, ast.Call) and isinstance(n.func, ast.Attribute) and n.func.attr == 'get' and n.args and isinstance(n.args[0], ast.Name):
            kn = n.args[0].id
        if kn is not None:
            for k, where in _loop_constants(f, kn):
                out.setdefault(k, []).append(where if where is not None else n)
        if isinstance(n, ast.Subscript) and isinstance(n.slice, ast.Constant) and isinstance(n.slice.value, str) and isinstance(n.ctx, ast.Load):
            out.setdefault(n.slice.value, []).append(n)
        if isinstance(n, ast.Call) and isinstance(n.func, ast.Attribute) and n.func.attr == 'get' and n.args \
                and isinstance(n.args[0], ast.Constant) and isinstance(n.args[0].value, str):
            out.setdefault(n.args[0].value, []).append(n)
        if isinstance(n, ast.Compare) and isinstance(n.left, ast.Constant) and isinstance(n.left.value, str) \
                and any(isinstance(o, ast.In) for o in n.ops):
            out.setdefault(n.left.value, []).append(n)
    return out


def r3_writer_coverage(ctx, res):
    model = ctx.model
    lmf = ctx.repo.mod('lmf')
    n = 0
    for cls, fnames in BUILDERS.items():
        if cls not in model.classes:
            raise AnalysisError(f'anchor vanished: lmf.{cls}')
        reads = {}
        funcs = []
        for fn in fnames:
            f = ctx.repo.func('lmf', fn)
            funcs.append(f)
            for k, nodes in _keys_read(f).items():
                reads.setdefault(k, []).extend((f, x) for x in nodes)
        for k in model.classes[cls]:
            n += 1
            key = f'writes:{cls}.{k}'
            res.inst(key, lmf.loc(funcs[0].node), f'read by {fnames}')
            if k == 'external':
                if k not in reads and not cls.startswith('External'):
                    continue
            if k not in reads:
                res.find(key, lmf.loc(funcs[0].node),
                         f'the writer ({", ".join(fnames)}) never reads {cls}.{k}: whatever load() stores under {k!r} is lost by dump()')
                continue
            if k == 'meta':
                ok = any('_meta_dict' in norm(getattr(x, '_parent', x)) or any('_meta_dict' in norm(p) for p in list(parents(x))[:3])
                         for _, x in reads[k])
                if not ok:
                    res.find(key + ':meta_dict', lmf.loc(funcs[0].node), f'{cls}.meta is read but does not reach _meta_dict')
            want = VERSIONED_KEYS.get((cls, k), CLASS_VERSION.get(cls, 'any'))
            if want is None:
                continue
            guards = set()
            for f, x in reads[k]:
                g = version_guard_of(f, x)
                if g is None:
                    g = call_chain_guards(ctx, f, x)
                guards.add(g or 'any')
            if want == 'any':
                # written unconditionally, or in both arms of the version test
                if 'any' not in guards and not {'>=1.1', '<1.1'} <= guards:
                    res.find(key + ':guard', lmf.loc(funcs[0].node), f'{cls}.{k} exists in every WN-LMF version but is only written under '
                                                                     f'{sorted(guards)}')
            else:
                if guards != {want}:
                    res.find(key + ':guard', lmf.loc(funcs[0].node), f'{cls}.{k} is expressible only in versions {want} but is written under '
                                                                     f'{sorted(guards)}')
    if n < 110:
        raise AnalysisError(f'only {n} model keys checked against the writer')


def r4_metadata_tables(ctx, res):
    model = ctx.model
    lmf = ctx.repo.mod('lmf')
    dc = _fold(ctx, '_DC_ATTRS')
    md = ctx.repo.func('lmf', '_meta_dict')
    mkeys = set(model.classes['Metadata'])
    key = 'metadata-keys'
    want = set(dc) | {'status', 'note', 'confidenceScore'}
    res.inst(key, lmf.relpath, f'{len(mkeys)} Metadata keys')
    if mkeys != want:
        res.find(key, lmf.relpath, f'lmf.Metadata keys differ from _DC_ATTRS + status/note/confidenceScore: {sorted(mkeys ^ want)}')
    written = {}
    for n in walk_no_nested(md.node):
        if isinstance(n, ast.Dict):
            for k, v in zip(n.keys, n.values):
                if isinstance(k, ast.Constant) and isinstance(v, ast.Call) and norm(v.func) == 'meta.get' and v.args \
                        and isinstance(v.args[0], ast.Constant):
                    written[k.value] = v.args[0].value
        if isinstance(n, ast.Assign) and isinstance(n.targets[0], ast.Subscript) and isinstance(n.targets[0].slice, ast.Constant):
            val = n.value
            if isinstance(val, ast.Name):
                # `val = meta.get(k, ''); if val: d[attr] = val`
                from ..pyutil import nearest_assignment
                na = nearest_assignment(md.node, val.id, n)
                if na is not None:
                    val = na
            for x in ast.walk(val):
                if isinstance(x, ast.Subscript) and isinstance(x.slice, ast.Constant) and norm(x.value) == 'meta':
                    written[n.targets[0].slice.value] = x.slice.value
                if isinstance(x, ast.Call) and norm(x.func) == 'meta.get' and x.args and isinstance(x.args[0], ast.Constant):
                    written[n.targets[0].slice.value] = x.args[0].value
    key = 'meta_dict-keys'
    res.inst(key, lmf.loc(md.node), f'{len(written)} attributes written')
    wantw = {f'dc:{a}': a for a in dc} | {'status': 'status', 'note': 'note', 'confidenceScore': 'confidenceScore'}
    if written != wantw:
        diff = sorted(set(written.items()) ^ set(wantw.items()))
        res.find(key, lmf.loc(md.node), f'_meta_dict writes {diff} differently from what the reader maps back (dc:<k> <- meta[k] for the '
                                        f'Dublin Core keys, status/note/confidenceScore as plain attributes)')
    key = 'xmlns-dc'
    from ..speccheck import view
    dv = view(ctx, 'lmf', 'dump')
    res.inst(key, dv.loc(), 'xmlns:dc taken from _DC_URIS[version]')
    roots = [r for r in dv.rows if r[0] == 'call' and r[1].startswith("print(f'<LexicalResource ")]
    if len(roots) != 1 or 'xmlns:dc="{_DC_URIS[resource[\'lmf_version\']]}"' not in roots[0][1]:
        res.find(key, dv.loc(), f'dump() no longer declares xmlns:dc with the URI the reader maps for that version: {[r[1][:90] for r in roots]}')


def r5_escaping(ctx, res):
    """decided on the effect summaries of the writer functions: the argument of every `print(..., file=...)` is, after all
    locals are inlined, built only from constants, module constant tables, ElementTree serialisations and quoteattr() values"""
    lmf = ctx.repo.mod('lmf')
    writer = [f for f in lmf.funcs.values() if f.name == 'dump' or f.name.startswith('_dump_')]
    n = 0
    for f in writer:
        v = view(ctx, 'lmf', f.qualname)
        for k, t, g, c, e in v.rows:
            if k != 'call' or not t.startswith('print(') or 'file=' not in t:
                continue
            n += 1
            call = _parse_summary_expr(t)
            arg = call.args[0] if call.args else None
            srcarg = e.node.args[0] if isinstance(e.node, ast.Call) and e.node.args else (
                e.node.value.args[0] if isinstance(e.node, ast.Expr) and isinstance(e.node.value, ast.Call) and e.node.value.args else None)
            key = f'print:{f.qualname}:{norm(srcarg)[:50] if srcarg is not None else ""}'
            kind = _safe_out(v, arg, c)
            res.inst(key, v.loc(e), kind or 'UNSAFE')
            if kind is None:
                res.find(key, v.loc(e), f'`{t[:80]}` writes a value to the output that is neither a constant, the ElementTree '
                                        f'serialisation of an element, nor passed through quoteattr: quotes, <, & in the data break the '
                                        f'markup or change on reload')
    # ElementTree part: no manual string building of markup in the _build_* functions
    for f in lmf.funcs.values():
        if f.name.startswith('_build_') or f.name in ('_dump_lexical_entry', '_dump_synset', '_dump_dependency'):
            for node in walk_no_nested(f.node):
                if isinstance(node, ast.JoinedStr) and any('<' in (v.value if isinstance(v, ast.Constant) else '') for v in node.values):
                    key = f'markup-fstring:{f.qualname}'
                    res.inst(key, lmf.loc(node), 'markup assembled by hand')
                    res.find(key, lmf.loc(node), f'{f.qualname} assembles markup with an f-string instead of ElementTree')
    ts = ctx.repo.func('lmf', '_tostring')
    key = 'tostring'
    res.inst(key, lmf.loc(ts.node), 'ET.tostring(elem, encoding="unicode")')
    if 'ET.tostring(' not in norm(ts.node):
        res.find(key, lmf.loc(ts.node), '_tostring no longer serialises through ElementTree')
    if n < 6:
        raise AnalysisError(f'only {n} output statements found in the writer')


_SYM = re.compile(r'#(\d+)')
_LOOP = re.compile(r'\$(\d+)')


def _parse_summary_expr(text):
    """summary text -> ast; cell `#n` becomes the name `_cell_n`, loop variable `$k` becomes `_loop_k`"""
    try:
        return ast.parse(_LOOP.sub(r'_loop_\1', _SYM.sub(r'_cell_\1', text)), mode='eval').body
    except SyntaxError as exc:
        raise AnalysisError(f'summary text does not parse: {text[:80]}: {exc}')


def _safe_out(v, arg, ctx_loops, keys=frozenset(), depth=0):
    """classification of an output expression in summary form, or None when a data value can reach the output unquoted.
    `keys`: comprehension variables known to be the key of `<mapping>.items()` (attribute names: constant keys)."""
    if arg is None:
        return 'empty'
    if depth > 8:
        return None
    rec = lambda x, ks=keys: _safe_out(v, x, ctx_loops, ks, depth + 1)   # noqa: E731
    if isinstance(arg, ast.Constant):
        return 'constant'
    if _is_const_lookup(arg):
        return 'module constant'
    if isinstance(arg, ast.Name) and arg.id in keys:
        return 'attribute name'
    if isinstance(arg, ast.Subscript) and isinstance(arg.value, ast.Name) and arg.value.id.startswith('_loop_') \
            and isinstance(arg.slice, ast.Constant) and arg.slice.value == 0:
        k = int(arg.value.id[6:])
        if k - 1 < len(ctx_loops) and re.search(r'\.items\(\)$', ctx_loops[k - 1]):
            return 'attribute name'
        return None
    if isinstance(arg, ast.IfExp):
        a, b = rec(arg.body), rec(arg.orelse)
        return f'choice of {a} / {b}' if a and b else None
    if isinstance(arg, ast.BinOp) and isinstance(arg.op, (ast.Add, ast.Mult)):
        a, b = rec(arg.left), rec(arg.right)
        return 'constant' if a and b else None
    if isinstance(arg, ast.JoinedStr):
        parts = []
        for p in arg.values:
            if isinstance(p, ast.Constant):
                continue
            k = rec(p.value)
            if k is None:
                return None
            parts.append(k)
        return 'f-string of ' + ', '.join(sorted(set(parts))) if parts else 'constant'
    if isinstance(arg, ast.Call):
        fn = norm(arg.func)
        if fn == '_tostring':
            return 'ElementTree serialisation'
        if fn == 'quoteattr':
            return 'quoteattr-quoted value'
        if fn == 'len':
            return 'constant'
        if isinstance(arg.func, ast.Attribute) and arg.func.attr == 'format' and not arg.args \
                and (_is_module_const(arg.func.value) or isinstance(arg.func.value, ast.Constant)):
            ks = [rec(k.value) for k in arg.keywords]
            return 'module constant' if all(ks) else None
        if isinstance(arg.func, ast.Attribute) and arg.func.attr == 'decode' and _is_module_const(arg.func.value):
            return 'module constant'
        if isinstance(arg.func, ast.Attribute) and arg.func.attr == 'join' and len(arg.args) == 1 and not arg.keywords:
            if not rec(arg.func.value):
                return None
            a0 = arg.args[0]
            if isinstance(a0, (ast.GeneratorExp, ast.ListComp)):
                ks = set(keys)
                for gen in a0.generators:
                    if isinstance(gen.target, ast.Tuple) and len(gen.target.elts) == 2 and isinstance(gen.target.elts[0], ast.Name) \
                            and isinstance(gen.iter, ast.Call) and isinstance(gen.iter.func, ast.Attribute) and gen.iter.func.attr == 'items':
                        ks.add(gen.target.elts[0].id)
                k = rec(a0.elt, frozenset(ks))
                return f'joined {k}' if k else None
            if isinstance(a0, ast.Name) and a0.id.startswith('_cell_'):
                cell = '#' + a0.id[6:]
                kinds = set()
                for k_, t_, g_, c_, e_ in v.rows:
                    if k_ in ('call', 'store', 'aug', 'del') and re.search(re.escape(cell) + r'(?!\d)', t_):
                        m = _parse_summary_expr(t_) if k_ == 'call' else None
                        if m is not None and isinstance(m, ast.Call) and isinstance(m.func, ast.Attribute) and m.func.attr == 'append' \
                                and norm(m.func.value) == a0.id and len(m.args) == 1:
                            kinds.add(_safe_out(v, m.args[0], c_, keys, depth + 1))
                        elif m is not None and isinstance(m, ast.Call) and norm(m.func) == 'print':
                            continue
                        else:
                            kinds.add(None)
                if kinds and None not in kinds:
                    return 'joined ' + ' / '.join(sorted(kinds))
                return None
            return None
    return None


def _is_module_const(v):
    return isinstance(v, ast.Name) and v.id.startswith('_') and not v.id.startswith(('_cell_', '_loop_'))


def _is_const_lookup(v):
    """_SCHEMAS[version] / _DC_URIS[version]: a lookup in a module-level constant table."""
    return isinstance(v, ast.Subscript) and isinstance(v.value, ast.Name) and v.value.id.startswith('_')


def r6_header_constants(ctx, res):
    """the first lines dump() writes are the ones _read_header / is_lmf compare against, in that order"""
    from ..speccheck import view
    dv = view(ctx, 'lmf', 'dump')
    ver = "resource['lmf_version']"
    prints = sorted((r for r in dv.rows if r[0] == 'call' and r[1].startswith('print(')), key=lambda r: (r[4].node.lineno, r[4].node.col_offset))
    texts = [r[1] for r in prints]
    want = [("header:xmldecl", "print(_XMLDECL.decode('utf-8'), file=", 'the XML declaration _read_header compares against'),
            ("header:doctype", f"print(_DOCTYPE.format(schema=_SCHEMAS[{ver}]), file=", 'the DOCTYPE line _DOCTYPES is derived from'),
            ("header:root", "print(f'<LexicalResource ", 'the root element')]
    for i, (key, prefix, why) in enumerate(want):
        res.inst(key, dv.loc(), prefix)
        if i >= len(texts) or not texts[i].startswith(prefix):
            res.find(key, dv.loc(), f'line {i + 1} written by dump() is `{texts[i][:70] if i < len(texts) else None}`; expected {why} '
                                    f'(`{prefix}...`): a dumped file may be rejected by is_lmf()/load()')
    key = 'header:order'
    res.inst(key, dv.loc(), f'{[t[:30] for t in texts[:3]]}')
    key = 'header:version-checked'
    res.inst(key, dv.loc(), f'{ver} not in SUPPORTED_VERSIONS -> LMFError')
    rs = [r for r in dv.rows if r[0] == 'raise']
    if not any(f'{ver} not in SUPPORTED_VERSIONS' in r[2] for r in rs) or not all(f'{ver} in SUPPORTED_VERSIONS' in r[2] for r in prints):
        res.find(key, dv.loc(), 'dump() no longer refuses versions outside SUPPORTED_VERSIONS before writing anything')


def r7_writer_stateless(ctx, res):
    """what the writer (and reader) emits for an element depends on that element alone: no helper of wn.lmf hands out a
    module-level / default-argument object that is then written into, no record shares an object with its siblings."""
    from ..sharing import report
    report(ctx, res, {'lmf'}, 'lmf')


# ---------------------------------------------------------------------------
# R8: numeric values are not written "when truthy"

def _numeric(t):
    from ..model import U, Prim
    if isinstance(t, Prim):
        return t.name in ('float', 'int')
    if isinstance(t, U):
        return any(_numeric(m) for m in t.ms)
    return False


def numeric_truthiness_tests(ctx, f):
    """(node, type) for every truthiness test in `f` whose operand has a numeric model type (the value 0 is falsy)"""
    from ..model import Typer, Lit, elem, union, ANY
    ty = Typer(ctx.model, ctx, f)
    env = ty.param_env()
    out = []

    def items_value_type(it, env2):
        # `for k, v in X.items()` with X a display: v ranges over the types of its values
        if isinstance(it, ast.Call) and isinstance(it.func, ast.Attribute) and it.func.attr in ('items', 'values') and not it.args:
            t = ty.typeof(it.func.value, env2)
            if isinstance(t, Lit) and t.vals:
                vs = list(t.vals.values())
                u = vs[0]
                for v in vs[1:]:
                    u = union(u, v)
                return u
        return None

    def test(t, env2):
        while isinstance(t, ast.UnaryOp) and isinstance(t.op, ast.Not):
            t = t.operand
        if isinstance(t, ast.BoolOp):
            for v in t.values:
                test(v, env2)
            return
        if isinstance(t, (ast.Compare, ast.Constant)):
            return
        tt = ty.typeof(t, env2)
        if _numeric(tt):
            out.append((t, tt))

    def expr(e, env2):
        if isinstance(e, ast.IfExp):
            test(e.test, env2)
        if isinstance(e, ast.BoolOp):
            for v in e.values[:-1]:
                test(v, env2)
        if isinstance(e, (ast.ListComp, ast.SetComp, ast.GeneratorExp, ast.DictComp)):
            env3 = dict(env2)
            for g in e.generators:
                expr(g.iter, env3)
                vt = items_value_type(g.iter, env3)
                if vt is not None and isinstance(g.target, ast.Tuple) and len(g.target.elts) == 2 and isinstance(g.target.elts[1], ast.Name) \
                        and g.iter.func.attr == 'items':
                    ty.bind(g.target.elts[0], ANY, env3)
                    env3[g.target.elts[1].id] = vt
                elif vt is not None and isinstance(g.target, ast.Name):
                    env3[g.target.id] = vt
                else:
                    ty.bind(g.target, elem(ty.typeof(g.iter, env3)), env3)
                for c in g.ifs:
                    test(c, env3)
                    expr(c, env3)
            for fld in ('elt', 'key', 'value'):
                if hasattr(e, fld):
                    expr(getattr(e, fld), env3)
            return
        for c in ast.iter_child_nodes(e):
            if isinstance(c, ast.expr):
                expr(c, env2)

    def block(stmts, env2):
        for st in stmts:
            if isinstance(st, (ast.FunctionDef, ast.AsyncFunctionDef, ast.ClassDef)):
                continue
            if isinstance(st, (ast.If, ast.While)):
                test(st.test, env2)
            if isinstance(st, (ast.For, ast.AsyncFor)):
                expr(st.iter, env2)
                vt = items_value_type(st.iter, env2)
                if vt is not None and isinstance(st.target, ast.Tuple) and len(st.target.elts) == 2 and isinstance(st.target.elts[1], ast.Name) \
                        and st.iter.func.attr == 'items':
                    env2[st.target.elts[1].id] = vt
                else:
                    ty.bind(st.target, elem(ty.typeof(st.iter, env2)), env2)
            for c in ast.iter_child_nodes(st):
                if isinstance(c, ast.expr):
                    expr(c, env2)
            if isinstance(st, ast.Assign):
                t = ty.typeof(st.value, env2)
                for tg in st.targets:
                    if isinstance(tg, (ast.Name, ast.Tuple, ast.List)):
                        ty.bind(tg, t, env2)
            elif isinstance(st, ast.AnnAssign) and st.value is not None and isinstance(st.target, ast.Name):
                env2[st.target.id] = ty.typeof(st.value, env2)
            for fld in ('body', 'orelse', 'finalbody'):
                blk = getattr(st, fld, None)
                if isinstance(blk, list) and blk and isinstance(blk[0], ast.stmt):
                    block(blk, env2)
            for h in getattr(st, 'handlers', []) or []:
                block(h.body, env2)
    block(f.node.body, env)
    return out


def r8_falsy_numbers_survive(ctx, res):
    """a model value of numeric type (confidenceScore: float, Count.value: int) is never written - by lmf.dump or by the exporter -
    only "when truthy": 0 / 0.0 is a legitimate value, a truthiness filter drops it and load(dump(R)) != R.  Typed walk
    over the writer and exporter functions; every truthiness test (if / conditional expression / comprehension filter /
    left operand of and/or) whose operand has a numeric model type is a finding."""
    n = 0
    for ms in ('lmf', '_export'):
        m = ctx.repo.mod(ms)
        for f in m.funcs.values():
            if ms == 'lmf' and not (f.name.startswith(('_build_', '_dump_')) or f.name in ('_meta_dict', 'dump', '_tostring')):
                continue
            n += 1
            bad = numeric_truthiness_tests(ctx, f)
            key = f'numeric-truthiness:{f.key}'
            res.inst(key, m.loc(f.node), f'{len(bad)} numeric truthiness tests')
            for node, t in bad[:1]:
                res.find(key, m.loc(node), f'{f.qualname} tests the truthiness of `{norm(node)[:60]}` (type {t}): the numeric value 0 is falsy, so a '
                                           f'stored 0 / 0.0 is treated as absent and lost by the writer')
    # positive control: the classifier sees a numeric filter in a synthetic writer
    if n < 25:
        raise AnalysisError(f'only {n} writer / exporter functions examined for numeric truthiness tests')


def text_files_name_their_encoding(ctx, res, prefix='text-encoding'):
    """WN-LMF and ILI files are UTF-8 by declaration: every text-mode open of a data file in lmf / _ili / _export (reader and
    writer) passes encoding='utf-8'; binary opens are exempt.  Without it the bytes dump()/export() write (and what load of an
    ILI file reads) depend on the locale of the process - under a non-UTF-8 locale non-ASCII text raises or is written in another
    encoding under the UTF-8 declaration."""
    n = 0
    for ms in ('lmf', '_ili', '_export'):
        m = ctx.repo.mod(ms)
        for f in m.funcs.values():
            for c in walk_no_nested(f.node):
                if not isinstance(c, ast.Call):
                    continue
                fn = norm(c.func)
                is_open = fn == 'open' or (isinstance(c.func, ast.Attribute) and c.func.attr == 'open'
                                           and norm(c.func.value) not in ('tarfile', 'gzip', 'lzma', 'os', 'webbrowser'))
                if not is_open:
                    continue
                args = c.args[1:] if fn == 'open' else c.args
                mode = args[0].value if args and isinstance(args[0], ast.Constant) else None
                for k in c.keywords:
                    if k.arg == 'mode' and isinstance(k.value, ast.Constant):
                        mode = k.value.value
                n += 1
                key = f'{prefix}:{f.key}:{norm(c)[:50]}'
                binary = isinstance(mode, str) and 'b' in mode
                enc = [norm(k.value) for k in c.keywords if k.arg == 'encoding']
                res.inst(key, m.loc(c), 'binary' if binary else f'text, encoding={enc[0] if enc else "<locale default>"}')
                if not binary and (not enc or enc[0].strip('\'"').lower().replace('_', '-') not in ('utf-8', 'utf8')):
                    res.find(key, m.loc(c), f'{f.qualname} opens a data file in text mode with `{norm(c)[:60]}` and no encoding=\'utf-8\': what is '
                                            f'written / read depends on the locale of the process, not only on the data')
    if n < 6:
        raise AnalysisError(f'only {n} open() calls found in lmf / _ili / _export')


def r9_encoding(ctx, res):
    text_files_name_their_encoding(ctx, res)


def _returns_element(ctx, f, expr, depth=0):
    """is the value of `expr` an xml.etree Element (by construction or by the return annotation of the function called)?"""
    if depth > 4 or expr is None:
        return False
    if isinstance(expr, ast.IfExp):
        return _returns_element(ctx, f, expr.body, depth + 1) or _returns_element(ctx, f, expr.orelse, depth + 1)
    if isinstance(expr, ast.Call):
        t = norm(expr.func)
        if t.split('.')[-1] in ('Element', 'SubElement', 'fromstring') and ('ET' in t or 'etree' in t or t in ('Element', 'SubElement')):
            return True
        for call, cal in ctx.cg.callees(f):
            if call is expr:
                return any(c.node.returns is not None and norm(c.node.returns).strip('\'"').split('.')[-1] == 'Element' for c in cal)
    return False


def r10_no_truth_test_of_elements(ctx, res):
    """the writer never asks an ElementTree element for its truth: `if elem:` is "has children", not "exists" (and deprecated) -
    a childless <ExternalLemma/> built for an external entry would be dropped by `if lemma: elem.append(lemma)`.  Every local of
    the writer functions that is bound to an Element (ET.Element(...), a call of a function annotated `-> ET.Element`) is
    tested with `is None` / `is not None` only."""
    from ..pyutil import binding_sites
    from .c03 import _writer_functions
    writers = _writer_functions(ctx)
    n = 0
    for f in writers:
        elems = set()
        for node in walk_no_nested(f.node):
            if isinstance(node, (ast.Assign, ast.AnnAssign)) and getattr(node, 'value', None) is not None:
                tgts = node.targets if isinstance(node, ast.Assign) else [node.target]
                if _returns_element(ctx, f, node.value):
                    elems |= {t.id for t in tgts if isinstance(t, ast.Name)}
        for nm in sorted(elems):
            n += 1
            key = f'element-truth:{f.qualname}:{nm}'
            bad = []
            for node in walk_no_nested(f.node):
                tests = []
                if isinstance(node, (ast.If, ast.While, ast.IfExp)):
                    tests.append(node.test)
                elif isinstance(node, ast.Assert):
                    tests.append(node.test)
                elif isinstance(node, ast.comprehension):
                    tests.extend(node.ifs)
                for t in tests:
                    stack = [t]
                    while stack:
                        x = stack.pop()
                        if isinstance(x, ast.BoolOp):
                            stack.extend(x.values)
                        elif isinstance(x, ast.UnaryOp) and isinstance(x.op, ast.Not):
                            stack.append(x.operand)
                        elif isinstance(x, ast.Name) and x.id == nm:
                            bad.append(node)
                if isinstance(node, ast.BoolOp) and not isinstance(getattr(node, '_parent', None), (ast.If, ast.While, ast.IfExp, ast.Assert, ast.BoolOp)):
                    # `x = lemma or default`
                    if any(isinstance(v, ast.Name) and v.id == nm for v in node.values[:-1]):
                        bad.append(node)
            res.inst(key, f.module.loc(f.node), f'Element-valued local; truth tests: {len(bad)}')
            for b in bad:
                res.find(key, f.module.loc(b), f'{f.qualname} tests the truth of `{nm}`, an ElementTree element: that is "has child elements" - an '
                                               f'element without children (<ExternalLemma/>) counts as absent and is not written')
    if n < 10:
        raise AnalysisError(f'only {n} Element-valued locals found in the writer functions')


def r11_attributes_set_before_construction(ctx, res):
    """ET.Element(tag, attrib=d) COPIES d: a key stored into d afterwards never reaches the element.  In the writer functions a
    dict passed as `attrib=` (or as the second positional argument) of an element constructor is not stored into after that call;
    later attributes go through elem.set(...) / elem.attrib[...]."""
    from .c03 import _writer_functions
    n = 0
    for f in _writer_functions(ctx):
        ctor = {}
        for node in walk_no_nested(f.node):
            if isinstance(node, ast.Call) and norm(node.func).split('.')[-1] in ('Element', 'SubElement'):
                a = next((k.value for k in node.keywords if k.arg == 'attrib'), None)
                if a is None and len(node.args) >= 2 and norm(node.func).split('.')[-1] == 'Element':
                    a = node.args[1]
                if isinstance(a, ast.Name):
                    ctor.setdefault(a.id, []).append(node)
        for nm, calls in ctor.items():
            n += 1
            key = f'attrib-before-construction:{f.qualname}:{nm}'
            def branches(node):
                # the (if statement, arm) pairs the node sits in
                out, prev, p = {}, node, getattr(node, '_parent', None)
                while p is not None and p is not f.node:
                    if isinstance(p, ast.If):
                        out[id(p)] = 'body' if any(prev is b or prev in ast.walk(b) for b in p.body) else 'orelse'
                    prev, p = p, getattr(p, '_parent', None)
                return out

            def after_on_one_path(x, c):
                if x.lineno <= c.lineno:
                    return False
                bx, bc = branches(x), branches(c)
                return all(bx[k] == bc[k] for k in bx.keys() & bc.keys())
            stores = [x for x in walk_no_nested(f.node)
                      if (isinstance(x, ast.Subscript) and isinstance(x.ctx, ast.Store) and isinstance(x.value, ast.Name) and x.value.id == nm)
                      or (isinstance(x, ast.Call) and isinstance(x.func, ast.Attribute) and isinstance(x.func.value, ast.Name)
                          and x.func.value.id == nm and x.func.attr in ('update', 'setdefault'))]
            late = [x for x in stores if any(after_on_one_path(x, c) for c in calls)]
            res.inst(key, f.module.loc(calls[0]), f'{len(late)} stores into `{nm}` after the element was built from it')
            for x in late:
                res.find(key, f.module.loc(x), f'{f.qualname} stores `{norm(x)[:50]}` into `{nm}` after ET.Element(..., attrib={nm}) copied it: '
                                               f'the attribute is never written')
    if n < 3:
        raise AnalysisError(f'only {n} attribute dicts handed to element constructors in the writer functions')

def r12_preserved_text_is_written_as_preserved(ctx, res):
    """the reader leaves the text of an element un-normalised when it carries xml:space="preserve" and keeps that attribute in the
    element dict (key _XMLSPACEATTR): a resource load() returns can therefore hold text with runs of blanks / line breaks.  The
    builder that writes the text of such an element must write the attribute back, or the reload normalises the text and
    load(dump(R)) != R.  Every builder that sets `elem.text` from the element's 'text' reads _XMLSPACEATTR (itself or in a helper)."""
    from .c03 import _writer_functions
    n = 0
    lmf = ctx.repo.mod('lmf')
    reader_keeps = any(isinstance(x, ast.Name) and x.id == '_XMLSPACEATTR' for f in lmf.funcs.values() if f.name in ('end', 'start', '_make_parser')
                       or 'make_parser' in f.qualname for x in ast.walk(f.node))
    if not reader_keeps:
        raise AnalysisError('the reader no longer consults _XMLSPACEATTR (anchor of C02-R12 vanished)')
    for f in _writer_functions(ctx):
        sets_text = [x for x in walk_no_nested(f.node) if isinstance(x, ast.Assign) and len(x.targets) == 1
                     and isinstance(x.targets[0], ast.Attribute) and x.targets[0].attr == 'text'
                     and any(isinstance(s_, ast.Subscript) and isinstance(s_.slice, ast.Constant) and s_.slice.value == 'text' for s_ in ast.walk(x.value))]
        if not sets_text:
            continue
        n += 1
        key = f'xml-space:{f.qualname}'
        reads = any(isinstance(x, ast.Name) and x.id == '_XMLSPACEATTR' for x in ast.walk(f.node))
        if not reads:
            for call, cal in ctx.cg.callees(f):
                for c in cal:
                    if c.module.short == 'lmf' and any(isinstance(x, ast.Name) and x.id == '_XMLSPACEATTR' for x in ast.walk(c.node)):
                        reads = True
        res.inst(key, f.module.loc(sets_text[0]), f'writes element text; consults xml:space: {reads}')
        if not reads:
            res.find(key, f.module.loc(sets_text[0]),
                     f'{f.qualname} writes the text of an element without its xml:space attribute: text loaded under xml:space="preserve" '
                     f'(runs of blanks, line breaks) is written as ordinary text and normalised on reload - load(dump(R)) != R, and '
                     f'dumping again gives different bytes')
    if n < 5:
        raise AnalysisError(f'only {n} builders that write element text found')

RULES = [
    ('C02-R1', r1_tables, 40),
    ('C02-R2', r2_model_reader, 70),
    ('C02-R3', r3_writer_coverage, 110),
    ('C02-R4', r4_metadata_tables, 3),
    ('C02-R5', r5_escaping, 7),
    ('C02-R6', r6_header_constants, 5),
    ('C02-R7', r7_writer_stateless, 3),
    ('C02-R8', r8_falsy_numbers_survive, 25),
    ('C02-R9', r9_encoding, 6),
    ('C02-R10', r10_no_truth_test_of_elements, 10),
    ('C02-R11', r11_attributes_set_before_construction, 3),
    ('C02-R12', r12_preserved_text_is_written_as_preserved, 5),
]
