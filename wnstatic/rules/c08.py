"""C08 — lexicon specifiers and language codes select exactly the documented lexicons (structural clauses)."""
from __future__ import annotations
import ast
from ..pat import Frag
from ..src import norm, walk_no_nested, AnalysisError
from ..pyutil import parents

META = {
    'title': 'Lexicon specifiers and language codes select exactly the documented lexicons',
    'technique': 'def-use non-interference inside the per-specifier loop; SQL shape (LIMIT => recency ORDER BY, GLOB predicate); error-path shape read off the effect summary of find_lexicons',
    'explanation': (
        'GLOB matching itself is SQLite semantics and is not decided. Decided: R1 specifier non-interference - inside the loop over '
        'lexicon.split() the SQL text and parameters of one specifier depend only on that specifier, lang and constants (a use of '
        'the whole argument inside the loop makes one specifier change the meaning of another: "a space-separated list is the '
        'union"); R2 every statement with LIMIT has an ORDER BY, and the single-result selection on lexicons orders by rowid '
        'descending (the only recency the schema records) - "the most recently added one"; R3 the match is '
        '`id || ":" || version GLOB :specifier`, ":*" is appended exactly when the specifier has no colon, and the language test is '
        'an equality skipped only for NULL; R4 find_lexicons raises wn.Error when nothing matched unless the request was the bare '
        '"*" without language, wn.lexicons() converts exactly wn.Error into [], Wordnet.__init__ does not catch it, and the default '
        'request is "*". R6 the default expand set handed to find_lexicons contains only installed providers (analysis of C12-R4): a valid selection does not depend on which declared dependencies are installed.'),
    'decides': ['specifier non-interference', 'LIMIT implies recency order', 'shape of the match', 'error vs empty'],
    'not_decided': ['GLOB pattern semantics', 'ids that are prefixes of other ids (follows from the ":" separator given GLOB semantics)'],
    'assumptions': ['rowids of lexicons grow with insertion (INTEGER PRIMARY KEY without reuse below the maximum)'],
}


def _fl(ctx):
    return ctx.repo.func('_queries', 'find_lexicons')


def r1_non_interference(ctx, res):
    f = _fl(ctx)
    loops = [n for n in walk_no_nested(f.node) if isinstance(n, ast.For) and 'split' in norm(n.iter)]
    if len(loops) != 1:
        raise AnalysisError('anchor vanished: loop over lexicon.split() in find_lexicons')
    lp = loops[0]
    whole = None
    it = lp.iter
    if isinstance(it, ast.Call) and isinstance(it.func, ast.Attribute) and isinstance(it.func.value, ast.Name):
        whole = it.func.value.id
    key = 'specifier-loop'
    res.inst(key, f.module.loc(lp), f'for {norm(lp.target)} in {norm(lp.iter)}')
    if whole is None or whole not in f.params:
        res.find(key, f.module.loc(lp), 'find_lexicons no longer iterates the space-separated parts of its lexicon argument')
        return
    for st in lp.body:
        for n in ast.walk(st):
            if isinstance(n, ast.Name) and n.id == whole and isinstance(n.ctx, ast.Load):
                stmt = n
                while not isinstance(stmt, ast.stmt):
                    stmt = stmt._parent
                k2 = f'whole-argument-in-loop:{norm(stmt)[:60]}'
                res.inst(k2, f.module.loc(n), 'use of the whole argument inside the per-specifier loop')
                res.find(k2, f.module.loc(n),
                         f'`{norm(stmt)[:80]}` uses the whole argument `{whole}` inside the loop over its parts: what one specifier selects '
                         f"depends on the other specifiers of the list (e.g. 'a ab:*' makes the bare id `a` select every version of a), "
                         f'so a list is not the union of its specifiers')
    # variables that carry state from one iteration into the SQL of the next
    assigned_before = {t.id for n in f.node.body if isinstance(n, (ast.Assign, ast.AnnAssign)) and n.lineno < lp.lineno
                       for t in (n.targets if isinstance(n, ast.Assign) else [n.target]) if isinstance(t, ast.Name)}
    carried = set()
    for st in lp.body:
        for n in ast.walk(st):
            if isinstance(n, ast.AugAssign) and isinstance(n.target, ast.Name) and n.target.id in assigned_before:
                carried.add(n.target.id)
    for st in lp.body:
        for n in ast.walk(st):
            if isinstance(n, ast.Call) and isinstance(n.func, ast.Attribute) and isinstance(n.func.value, ast.Name) \
                    and n.func.value.id in assigned_before and n.func.attr in ('append', 'extend', 'add', 'update', 'insert', 'setdefault'):
                carried.add(n.func.value.id)
    key = 'no-carried-state'
    res.inst(key, f.module.loc(lp), f'variables updated across iterations: {sorted(carried)}')
    for c in sorted(carried):
        uses = [n for st in lp.body for n in ast.walk(st) if isinstance(n, (ast.JoinedStr, ast.Dict)) and c in {x.id for x in ast.walk(n) if isinstance(x, ast.Name)}]
        uses += [n for st in lp.body for n in ast.walk(st) if isinstance(n, ast.Call) and isinstance(n.func, ast.Attribute)
                 and n.func.attr in ('execute', 'executemany') and c in {x.id for a in n.args for x in ast.walk(a) if isinstance(x, ast.Name)}]
        tests = [n for st in lp.body for n in ast.walk(st) if isinstance(n, (ast.If, ast.IfExp, ast.comprehension))
                 and c in {x.id for x in ast.walk(n.test if not isinstance(n, ast.comprehension) else ast.Tuple(elts=list(n.ifs), ctx=ast.Load())) if isinstance(x, ast.Name)}]
        if uses or tests:
            res.find(key + ':' + c, f.module.loc(lp), f'`{c}` accumulates across the specifiers of the list and influences what later specifiers '
                                                      f'select (statement text, parameters or a filter): a list is no longer the union of what '
                                                      f'its specifiers select one by one')


def r2_limit_order(ctx, res):
    n = 0
    for site in ctx.sites:
        for v in site.variants:
            if v.stmt is None or v.stmt.verb != 'SELECT':
                continue
            lim = v.stmt.limit()
            if lim is None:
                continue
            n += 1
            key = f'limit:{site.func.key}:LIMIT {lim}'
            ob = v.stmt.order_by()
            res.inst(key, site.loc, f'ORDER BY {ob} LIMIT {lim}')
            unlimited = lim.replace(' ', '') in ('-1',)
            if ob is None and not unlimited:
                res.find(key, site.loc,
                         f'{site.func.qualname}: `LIMIT {lim}` without ORDER BY returns an arbitrary (in practice the first-added) row; '
                         f'a bare lexicon id must select the most recently added version')
            elif not unlimited and site.func.key == '_queries.find_lexicons':
                if ob.replace(' ', '').lower() != 'rowiddesc':
                    res.find(key, site.loc, f'find_lexicons selects one lexicon with ORDER BY {ob}; "the most recently added one" requires '
                                            f'ORDER BY rowid DESC')
    f = _fl(ctx)
    # the limit is decided per specifier: unlimited iff the specifier has a star (read off the statement variants and their path facts)
    key = 'limit-decision'
    vs = [v for s_ in ctx.sites_of(f.key) for v in s_.variants if v.stmt is not None]
    res.inst(key, f.module.loc(f.node), f'{[(v.stmt.limit(), dict(v.facts)) for v in vs][:4]}')
    if n == 0 or not vs:
        res.find(key, f.module.loc(f.node), 'find_lexicons no longer limits the selection for a bare id to one lexicon')
    lims = sorted({(v.stmt.limit() or '').replace(' ', '') for v in vs})
    if lims != ['-1', '1']:
        res.find(key, f.module.loc(f.node), f'find_lexicons sends statements with LIMIT {lims}; expected -1 (specifier with a star) and 1')
    from ..speccheck import view
    fv = view(ctx, '_queries', 'find_lexicons')
    ys = [r for r in fv.rows if r[0] == 'yield' and len(r[3]) == 2]
    if not ys or not all("'-1' if '*' in $1 else '1'" in r[3][1] for r in ys):
        res.find(key, f.module.loc(f.node), f'the limit is no longer `-1 if the specifier (as given) contains a star else 1`: '
                                            f'{[r[3][1][-160:] for r in ys][:1]}')


def r3_match_shape(ctx, res):
    f = _fl(ctx)
    sites = ctx.sites_of(f.key)
    vs = [v for s in sites for v in s.variants if v.stmt is not None]
    if not vs:
        raise AnalysisError('anchor vanished: the selection statement of find_lexicons is not SQL any more')
    for v in vs:
        preds = [p.replace(' ', '') for p in v.stmt.where_predicates(0)]
        key = f'match-predicate:{" & ".join(preds)[:80]}'
        res.inst(key, sites[0].loc, f'{preds}')
        want = ['id||":"||versionGLOB:specifier', '(:languageISNULLORlanguage=:language)']
        if sorted(preds) != sorted(want):
            res.find(key, sites[0].loc, f'find_lexicons matches with WHERE {preds}; documented: id:version GLOB specifier and an optional '
                                        f'language equality ({want})')
        if v.stmt.target is None and not any(o.table == 'lexicons' for o in v.stmt.occs):
            res.find(key + ':table', sites[0].loc, 'find_lexicons does not select from lexicons')
        if v.params[0] == 'named' and set(v.params[1]) != {'specifier', 'language'}:
            res.find(key + ':params', sites[0].loc, f'find_lexicons binds {sorted(v.params[1])}')
    from ..speccheck import view
    fv = view(ctx, '_queries', 'find_lexicons')
    ys = [r for r in fv.rows if r[0] == 'yield']
    key = 'colon-star-appended'
    res.inst(key, f.module.loc(f.node), "specifier + ':*' exactly when it has no colon")
    want = "{'specifier': $1 if ':' in $1 else $1 + ':*', 'language': lang}"
    okp = bool(ys) and all(len(r[3]) == 2 and r[3][0] == 'for lexicon.split()' for r in ys)
    if not okp or not all(want in r[3][1] for r in ys):
        res.find(key, f.module.loc(f.node), '":*" is no longer appended exactly when the specifier has no colon (a bare id must match every '
                                            'version of exactly that id), or the statement is no longer bound to (specifier: this specifier, '
                                            f'language: lang): {[r[3][1][-110:] for r in ys][:1]}')
    key = 'params-dict'
    res.inst(key, f.module.loc(f.node), want)


def r4_error_vs_empty(ctx, res):
    f = _fl(ctx)
    from ..speccheck import view
    fv = view(ctx, '_queries', 'find_lexicons')
    key = 'raises-when-nothing-found'
    raises = [r for r in fv.rows if r[0] == 'raise']
    res.inst(key, f.module.loc(f.node), f'{[(r[1][:40], sorted(r[2])) for r in raises]}')
    ok = len(raises) == 1 and raises[0][1].startswith('wn.Error(') and not raises[0][3] \
        and {g for g in raises[0][2] if not g.startswith('not #')} == {"lexicon != '*' or lang is not None"} \
        and len([g for g in raises[0][2] if g.startswith('not #')]) == 1
    if not ok:
        res.find(key, f.module.loc(f.node), "find_lexicons no longer raises wn.Error exactly when nothing matched and the request was more "
                                            f"specific than the bare '*': {[(r[1][:40], sorted(r[2])) for r in raises]}")
    key = 'found-flag'
    res.inst(key, f.module.loc(f.node), 'flag set next to every yield')
    okf = False
    if ok:
        flag = [g for g in raises[0][2] if g.startswith('not #')][0][4:]
        ys = [r for r in fv.rows if r[0] == 'yield']
        sets = [r for r in fv.rows if r[0] == 'store' and r[1] == f'{flag} = True']
        init = [e for e in fv.E if e.kind == 'new' and e.text.startswith(flag + '<False>') and not e.ctx]
        okf = bool(ys) and bool(init) and all(any(s_[3] == y[3] and s_[2] == y[2] for s_ in sets) for y in ys)
    if not okf:
        res.find(key, f.module.loc(f.node), 'the `found` flag is no longer initialised false and set for every yielded row')
    lx = ctx.repo.func('_core', 'lexicons')
    key = 'lexicons-empty-on-error'
    from ..speccheck import view as _view
    lv = _view(ctx, '_core', 'lexicons')
    rets = [r for r in lv.rows if r[0] == 'return']
    caught = [r for r in rets if any(g.startswith('<except') for g in r[2])]
    plain = [r for r in rets if r not in caught]
    res.inst(key, lx.module.loc(lx.node), f'{[(r[1][:50], sorted(r[2])) for r in rets]}')
    wparams = [a.arg for a in ctx.repo.func('_core', 'Wordnet.__init__').node.args.args[1:]]

    def _selects_request(text):
        # `Wordnet(<lexicon>, <lang>).lexicons()` with the arguments bound by parameter name
        try:
            e = ast.parse(text, mode='eval').body
        except SyntaxError:
            return False
        if not (isinstance(e, ast.Call) and isinstance(e.func, ast.Attribute) and e.func.attr == 'lexicons' and not e.args and not e.keywords):
            return False
        w = e.func.value
        if not (isinstance(w, ast.Call) and norm(w.func).split('.')[-1] == 'Wordnet') or any(isinstance(a, ast.Starred) for a in w.args):
            return False
        b = dict(zip(wparams, w.args))
        b.update({k.arg: k.value for k in w.keywords if k.arg})
        return set(b) == {'lexicon', 'lang'} and norm(b['lexicon']) == 'lexicon' and norm(b['lang']) == 'lang'
    ok = len(caught) == 1 and caught[0][1] == '[]' and set(caught[0][2]) == {'<except wn.Error>'} \
        and len(plain) == 1 and not plain[0][2] and _selects_request(plain[0][1])
    if not ok:
        res.find(key, lx.module.loc(lx.node), 'wn.lexicons() no longer converts exactly wn.Error from Wordnet(...) into an empty list')
    wi = ctx.repo.func('_core', 'Wordnet.__init__')
    key = 'wordnet-does-not-catch'
    tries = [n for n in walk_no_nested(wi.node) if isinstance(n, ast.Try)]
    res.inst(key, wi.module.loc(wi.node), f'{len(tries)} try statements')
    if tries:
        res.find(key, wi.module.loc(wi.node), 'Wordnet.__init__ catches exceptions: a request matching no lexicon may no longer be an error')
    key = 'wordnet-default-request'
    from ..speccheck import view
    wv = view(ctx, '_core', 'Wordnet.__init__')
    res.inst(key, wi.module.loc(wi.node), "find_lexicons(lexicon or '*', lang=lang)")
    sel = [r for r in wv.rows if r[0] == 'store' and r[1].startswith('self._lexicons = ')]
    dm = wv.find('store', 'self._default_mode = not lexicon and (not lang)')
    if len(sel) != 1 or sel[0][2] or "find_lexicons(lexicon or '*', lang=lang)" not in sel[0][1] or not dm or dm[0][2]:
        res.find(key, wi.module.loc(wi.node), "Wordnet.__init__ no longer selects with find_lexicons(lexicon or '*', lang=lang) / default mode "
                                              f'iff neither lexicon nor lang is given: {[r[1][:90] for r in sel]}')
    # the request reaches the query unmodified: lexicon and lang are never re-bound on the way (the stored language tag and
    # the stored id:version are compared as given; a normalisation applied on one side only makes lexicons unselectable)
    from ..pyutil import binding_sites
    for fobj, pnames in ((wi, ('lexicon', 'lang')), (lx, ('lexicon', 'lang')), (f, ('lexicon', 'lang')), (rm_f(ctx), ('lexicon',))):
        for pn in pnames:
            key = f'argument-unmodified:{fobj.qualname}:{pn}'
            kinds = [b[0] for b in binding_sites(fobj.node, pn)]
            res.inst(key, fobj.module.loc(fobj.node), f'bindings {kinds}')
            if kinds != ['param']:
                res.find(key, fobj.module.loc(fobj.node),
                         f'{fobj.qualname} re-binds its `{pn}` argument ({kinds}) before it is used for the selection: the value that '
                         f'reaches `id || ":" || version GLOB ...` / `language = ...` is no longer what the caller asked for, while the '
                         f'stored attributes are compared as they are in the document')
    rm = ctx.repo.func('_add', 'remove')
    key = 'remove-uses-find_lexicons'
    res.inst(key, rm.module.loc(rm.node), 'find_lexicons(lexicon=lexicon)')
    if 'find_lexicons(lexicon=lexicon)' not in norm(rm.node):
        res.find(key, rm.module.loc(rm.node), 'remove() no longer selects lexicons with find_lexicons')


def r5_selection_before_write(ctx, res):
    from .c05 import r9_selection_materialised
    r9_selection_materialised(ctx, res)


def rm_f(ctx):
    return ctx.repo.func('_add', 'remove')


def r6_selection_survives_missing_dependencies(ctx, res):
    """a valid specifier selects its lexicons whether or not the providers those lexicons declare are installed: the default
    expand set that Wordnet.__init__ hands to find_lexicons() contains only installed providers (a specifier list in which
    nothing matches makes find_lexicons raise, and wn.lexicons() turns that into an empty selection) - analysis of C12-R4."""
    from .c12 import r4_default_expand
    r4_default_expand(ctx, res)


RULES = [
    ('C08-R1', r1_non_interference, 2),
    ('C08-R2', r2_limit_order, 2),
    ('C08-R3', r3_match_shape, 3),
    ('C08-R4', r4_error_vs_empty, 12),
    ('C08-R5', r5_selection_before_write, 3),
    ('C08-R6', r6_selection_survives_missing_dependencies, 3),
]
