"""C16 — results are a function of database content and arguments only."""
from __future__ import annotations
import ast
from ..src import norm, walk_no_nested, AnalysisError
from ..ont import Analysis, TAINTED, ORDS, SET, CLEAN, HOLD
from ..consts import const, Unknown

META = {
    'title': 'Results are a function of database content and arguments only',
    'technique': 'interprocedural order-nondeterminism taint (set iteration order -> observable result)',
    'explanation': (
        'Decides, for every function of wn/, that no value whose order depends on Python\'s hash seed reaches an '
        'observable result. Abstract kinds SET / ORD[seq] / ORD[dict] / HOLD are propagated through assignments, '
        'containers, comprehensions, loop bodies executed in set order, attributes and calls (functions analysed per '
        'argument-kind vector, parameter kinds joined over all call sites to a fixpoint). Sinks: the return / yield '
        'value of any public API function or of a function used as a value (registries, callbacks); an '
        'order-selected element (x[0], next, min/max with key, unpacking, early return from a set loop); text written '
        'to a file or handed to lmf.dump; SQL bind parameters unless every placeholder of the group is a pure '
        'membership test (IN list / VALUES CTE used only with IN); rows inserted by executemany. Sanitizers: sorted() '
        'without key, set(), len/sum/any/all, min/max without key, membership. R2: no function outside the connection '
        'pool / configuration mutates module-level state (read-only calls do not change later results); the '
        'who-may-write rule over SQL is C05-R3. R7: keyless sorted()/min()/max() over a set counts as a sanitiser only when the elements are not database entities (entities compare by rowid and all placeholder synsets share one, so ties keep set order). R4 no unintended sharing of mutable objects between results. R5 no one-shot iterator (map, filter, zip, generator) is kept in an attribute. R8 no clock / process / random source and no time-stamping writer (gzip in a writing mode without mtime, tar / zip writers), the builtin hash() only inside __hash__. R9 no repr / str of an object whose class defines neither (memory address in a message). R10 default argument values are constants (no iterator / list / dict / set evaluated once at import).'),
    'decides': ['no hash-seed-ordered value reaches a result, a file or a position-sensitive SQL parameter',
                'no query path writes module-level state', 'no one-shot iterator is kept in an attribute'],
    'not_decided': ['order of rows SQLite returns for queries without ORDER BY (taken as a function of content)',
                    'float rounding'],
    'assumptions': ['str/int hashing affects only set/frozenset iteration order; dicts keep insertion order',
                    'R7: element types of keyless sorted() over sets are inferred from annotations only (positive evidence)'],
}

PUBLIC_MODULES = {'taxonomy', 'similarity', 'ic', 'morphy', 'validate', 'lmf', 'util', 'project', 'constants',
                  'metrics', 'web'}
# functions whose output bytes are a function of the deep content of an argument
OUTPUT_PARAMS = {'lmf.dump': 'resource'}


def _public_functions(ctx):
    repo = ctx.repo
    pub = {}
    allnames = const(repo, 'wn', '__all__')
    if isinstance(allnames, Unknown):
        raise AnalysisError('cannot fold wn.__all__')
    init = repo.mod('wn')
    classes = []
    for name in allnames:
        imp = init.imports.get(name)
        if not imp or imp[0] != 'obj' or imp[1] not in repo.modules:
            continue
        m = repo.modules[imp[1]]
        if imp[2] in m.funcs:
            pub[m.funcs[imp[2]].key] = m.funcs[imp[2]]
        if imp[2] in m.classes:
            classes.append(m.classes[imp[2]])
    for m in repo.modules.values():
        if m.short in PUBLIC_MODULES:
            for q, f in m.funcs.items():
                if '.' not in q and not q.startswith('_'):
                    pub[f.key] = f
            for c in m.classes.values():
                if not c.name.startswith('_'):
                    classes.append(c)
    for c in classes:
        for k in repo.mro(c):
            for name, f in k.methods.items():
                if not name.startswith('_') or name in ('__call__', '__iter__', '__getitem__', '__repr__', '__str__'):
                    pub[f.key] = f
    return pub


def _address_taken(ctx):
    """functions referenced as values (registries, callbacks): their results are observable through the holder."""
    out = {}
    for m in ctx.repo.modules.values():
        for n in ast.walk(m.tree):
            if isinstance(n, ast.Name) and isinstance(n.ctx, ast.Load):
                par = getattr(n, '_parent', None)
                if isinstance(par, ast.Call) and par.func is n:
                    continue
                if isinstance(par, (ast.Attribute,)):
                    continue
                if n.id in m.funcs and '.' not in n.id:
                    f = m.funcs[n.id]
                    out[f.key] = f
                else:
                    imp = m.imports.get(n.id)
                    if imp and imp[0] == 'obj' and imp[1] in ctx.repo.modules and imp[2] in ctx.repo.modules[imp[1]].funcs:
                        if isinstance(par, (ast.ImportFrom, ast.alias)):
                            continue
                        f = ctx.repo.modules[imp[1]].funcs[imp[2]]
                        out[f.key] = f
    return out


def r1_ont(ctx, res):
    an = ctx.repo.cache('ont', lambda: Analysis(ctx).run())
    pub = _public_functions(ctx)
    taken = _address_taken(ctx)
    if len(pub) < 80:
        raise AnalysisError(f'only {len(pub)} public API functions found')
    nsets = 0
    for key, st in sorted(an.states.items()):
        f = st.func
        loc = f.module.loc(f.node)
        observable = key in pub or key in taken
        res.inst(f'fn:{key}', loc, f'return kind {st.ret.kind}' + (' (observable)' if observable else ''))
        if observable and st.ret.kind in TAINTED:
            for root in sorted(st.ret.roots) or ['(root not located)']:
                k = f'return:{key}<-{root}'
                res.find(k, loc,
                         f'{f.qualname} ({"public API" if key in pub else "used as a value / registry entry"}) returns a value whose '
                         f'order depends on the hash seed ({st.ret.kind}); root: {root}')
        for s in st.sinks:
            for root in sorted(s.roots) or ['(root not located)']:
                k = f'{s.kind}:{key}:{norm(s.node)[:50]}<-{root}'
                res.inst(k, f.module.loc(s.node), s.what)
                res.find(k, f.module.loc(s.node), f'{s.what} in {f.qualname}; root: {root}')
        nsets += sum(1 for v in st.env.values() if v.kind == SET)
    # deep-content output functions
    for fk, pname in OUTPUT_PARAMS.items():
        modshort, q = fk.split('.', 1)
        f = ctx.repo.func(modshort, q)
        pk = an.param_kinds.get(f.key, ())
        idx = f.params.index(pname)
        v = pk[idx] if idx < len(pk) else None
        k = f'output:{fk}({pname})'
        res.inst(k, f.module.loc(f.node), f'kind of `{pname}` joined over all call sites: {v.kind if v else "clean"}')
        if v is not None and v.kind in TAINTED:
            for root in sorted(v.roots) or ['(root not located)']:
                res.find(f'{k}<-{root}', f.module.loc(f.node),
                         f'the bytes written by {fk} depend on the hash seed: its `{pname}` argument holds a seed-ordered value; root: {root}')
    res.note(f'{len(an.states)} functions analysed in {an.rounds} fixpoint rounds; {len(pub)} public API functions, '
             f'{len(taken)} functions used as values; {nsets} set-typed locals tracked; attribute kinds: '
             f'{ {k: v.kind for k, v in an.attr_kinds.items() if v.kind != CLEAN} }')


MUTATORS = {'append', 'extend', 'insert', 'add', 'update', 'setdefault', 'pop', 'popitem', 'remove', 'discard', 'clear',
            'sort', 'reverse', '__setitem__', '__delitem__'}
MEMO_DECORATORS = {'lru_cache', 'cache', 'cached_property', 'memoize', 'memoized'}
STATE_OK = {
    '_db.connect': 'the connection pool',
    '_config': 'configuration object (explicit user action)',
    '_download': 'download cache bookkeeping (explicit user action)',
}


def hidden_state_subset(ctx, res, modules, prefix):
    """re-report (under another property) the hidden-state findings located in `modules`."""
    from ..runtime import Result
    tmp = Result('tmp')
    r2_no_hidden_state(ctx, tmp)
    n = 0
    for i in tmp.instances:
        if any(i.key.startswith(f'state:{m}.') for m in modules):
            n += 1
            res.inst(f'{prefix}:{i.key}', i.loc, i.desc)
    for f in tmp.findings:
        if any(f.key.startswith(f'state:{m}.') for m in modules):
            res.find(f'{prefix}:{f.key}', f.loc, f.message)
    return n


def r2_no_hidden_state(ctx, res):
    """functions must not mutate module-level objects (a cache written by a query would make later results depend on
    earlier calls)."""
    n = 0
    for m in ctx.repo.modules.values():
        modnames = set()
        for s in m.tree.body:
            if isinstance(s, (ast.Assign, ast.AnnAssign)):
                tg = s.targets if isinstance(s, ast.Assign) else [s.target]
                for t in tg:
                    if isinstance(t, ast.Name):
                        modnames.add(t.id)
        for f in m.funcs.values():
            n += 1
            key = f'state:{f.key}'
            local = set(f.params)
            for x in walk_no_nested(f.node):
                if isinstance(x, ast.Name) and isinstance(x.ctx, ast.Store):
                    local.add(x.id)
            globals_decl = {nm for x in walk_no_nested(f.node) if isinstance(x, ast.Global) for nm in x.names}
            bad = []
            for x in walk_no_nested(f.node):
                tgt = None
                if isinstance(x, (ast.Assign, ast.AugAssign, ast.Delete)):
                    tgs = x.targets if isinstance(x, (ast.Assign, ast.Delete)) else [x.target]
                    for t in tgs:
                        if isinstance(t, ast.Subscript) and isinstance(t.value, ast.Name):
                            tgt = t.value.id
                        elif isinstance(t, ast.Name) and t.id in globals_decl:
                            bad.append((x, f'assigns module global `{t.id}`'))
                        if tgt and tgt in modnames and (tgt not in local or tgt in globals_decl):
                            bad.append((x, f'stores into module-level `{tgt}`'))
                elif isinstance(x, ast.Call) and isinstance(x.func, ast.Attribute) and x.func.attr in MUTATORS \
                        and isinstance(x.func.value, ast.Name):
                    nm = x.func.value.id
                    if nm in modnames and nm not in local:
                        bad.append((x, f'mutates module-level `{nm}` ({x.func.attr})'))
            for dec in f.node.decorator_list:
                dn = norm(dec.func if isinstance(dec, ast.Call) else dec).split('.')[-1]
                if dn in MEMO_DECORATORS:
                    bad.append((dec, f'is memoised with @{dn} (a process-wide cache keyed by its arguments: results survive add()/remove() '
                                     f'and rowid reuse)'))
            res.inst(key, m.loc(f.node), 'no mutation of module-level state')
            for node, why in bad:
                if f.key in STATE_OK or m.short in STATE_OK:
                    continue
                res.find(f'{key}:{norm(node)[:40]}', m.loc(node), f'{f.qualname} {why}: results of later calls can depend on earlier calls')
    if n < 300:
        raise AnalysisError('function enumeration collapsed')


def memo_purity(ctx, res, only_module=None):
    """local memo idiom `if K not in C: C[K] = V` (C outlives the current iteration): V must be a function of K alone."""
    n = 0
    for func in ctx.repo.all_funcs():
        if only_module and func.module.short != only_module:
            continue
        for node in walk_no_nested(func.node):
            if not (isinstance(node, ast.If) and isinstance(node.test, ast.Compare) and len(node.test.ops) == 1
                    and isinstance(node.test.ops[0], ast.NotIn) and isinstance(node.test.comparators[0], ast.Name)):
                continue
            cname = node.test.comparators[0].id
            ktext = norm(node.test.left)
            for st in node.body:
                if isinstance(st, ast.Assign) and any(isinstance(t, ast.Subscript) and norm(t.value) == cname and norm(t.slice) == ktext
                                                      for t in st.targets):
                    n += 1
                    key = f'memo:{func.key}:{cname}[{ktext}]'
                    knames = {x.id for x in ast.walk(node.test.left) if isinstance(x, ast.Name)}
                    local_assigned = {t.id for x in walk_no_nested(func.node) if isinstance(x, (ast.Assign, ast.AnnAssign, ast.AugAssign, ast.For))
                                      for t in ast.walk(x.targets[0] if isinstance(x, ast.Assign) else x.target) if isinstance(t, ast.Name)}
                    # names bound inside the value expression itself (comprehension variables) are its own
                    own = {t.id for c in ast.walk(st.value) if isinstance(c, ast.comprehension) for t in ast.walk(c.target) if isinstance(t, ast.Name)}
                    vnames = {x.id for x in ast.walk(st.value) if isinstance(x, ast.Name)} - own
                    # names computed inside the memo branch itself are part of the memoised computation: follow them
                    inner = {}
                    for x in ast.walk(node):
                        if isinstance(x, ast.Assign) and x is not st:
                            for t in x.targets:
                                if isinstance(t, ast.Name):
                                    inner.setdefault(t.id, set()).update(y.id for y in ast.walk(x.value) if isinstance(y, ast.Name))
                    work, seen_n = list(vnames), set()
                    while work:
                        nm = work.pop()
                        if nm in seen_n:
                            continue
                        seen_n.add(nm)
                        if nm in inner:
                            work.extend(inner[nm])
                    vnames = {nm for nm in seen_n if nm not in inner}
                    foreign = sorted((vnames & local_assigned) - knames - {cname})
                    res.inst(key, func.module.loc(st), f'value depends on {sorted(vnames)}')
                    if foreign:
                        res.find(key, func.module.loc(st),
                                 f'{func.qualname} caches `{cname}[{ktext}] = {norm(st.value)[:60]}` but the value also depends on {foreign}, '
                                 f'state of the current walk/iteration: a later lookup of the same key reuses a value computed for another '
                                 f'context (results then depend on the order of earlier calls / tokens)')
    return n


def r3_memo_purity(ctx, res):
    n = memo_purity(ctx, res)
    if n < 1:
        raise AnalysisError('no local memo idiom found (ic.compute hypernym_cache expected)')


def r4_no_shared_objects(ctx, res):
    """no function hands out a module-level (or default-argument) mutable object that is then written into - the write
    would persist across calls - and no two records built in one call share an object that is updated in place."""
    from ..sharing import report
    report(ctx, res, None, 'all')


ONE_SHOT_CALLS = {'map', 'filter', 'zip', 'iter', 'reversed', 'enumerate', 'chain', 'islice', 'groupby'}


def r5_no_one_shot_iterators_kept(ctx, res):
    """an object attribute (or a module-level name) never holds a one-shot iterator - map(), filter(), zip(), a generator
    expression, the result of a generator function: the first reader exhausts it, every later read-only call sees it empty, so
    repeated calls on one object disagree.  Stored sequences are materialised (tuple(...), list(...))."""
    gens = set()
    for f in ctx.repo.all_funcs():
        if any(isinstance(n, (ast.Yield, ast.YieldFrom)) for n in walk_no_nested(f.node)):
            gens.add(f.name)
    n = 0

    def one_shot(v):
        if isinstance(v, ast.GeneratorExp):
            return 'a generator expression'
        if isinstance(v, ast.Call):
            nm = v.func.id if isinstance(v.func, ast.Name) else (v.func.attr if isinstance(v.func, ast.Attribute) else None)
            if nm in ONE_SHOT_CALLS:
                return f'{nm}(...)'
            if nm in gens and isinstance(v.func, ast.Name):
                return f'the generator {nm}(...)'
        if isinstance(v, ast.IfExp):
            return one_shot(v.body) or one_shot(v.orelse)
        return None
    for f in ctx.repo.all_funcs():
        for node in walk_no_nested(f.node):
            if not isinstance(node, (ast.Assign, ast.AnnAssign)) or getattr(node, 'value', None) is None:
                continue
            tgts = node.targets if isinstance(node, ast.Assign) else [node.target]
            for t in tgts:
                if isinstance(t, ast.Attribute) and isinstance(t.value, ast.Name) and t.value.id in ('self', 'cls'):
                    n += 1
                    key = f'kept-iterator:{f.key}:{norm(t)}'
                    what = one_shot(node.value)
                    if what is None and isinstance(node.value, ast.Name):
                        from ..pyutil import binding_sites
                        vals = [b[1] for b in binding_sites(f.node, node.value.id) if b[0] == 'assign']
                        whats = [one_shot(x) for x in vals]
                        what = next((w for w in whats if w), None) if vals and all(whats) else None
                    res.inst(key, f.module.loc(node), what or 'materialised / scalar value')
                    if what:
                        res.find(key, f.module.loc(node), f'{f.qualname} stores {what} in `{norm(t)}`: a one-shot iterator kept on the object is '
                                                          f'empty after its first use, so the second expanded_lexicons()/describe()-style read '
                                                          f'differs from the first')
    if n < 40:
        raise AnalysisError(f'only {n} attribute assignments examined')


def r6_output_independent_of_locale(ctx, res):
    """the bytes dump()/export() write are a function of the data and the arguments - not of the process locale: data files are
    opened with an explicit UTF-8 encoding (analysis of C02-R9)."""
    from .c02 import text_files_name_their_encoding
    text_files_name_their_encoding(ctx, res, prefix='locale-independent')


# ---------------------------------------------------------------------------
# R7: keyless sorted()/min()/max() over a set is a sanitiser only for totally ordered elements

_FLAT_PASS = {'set', 'frozenset', 'list', 'tuple', 'sorted', 'reversed', 'iter', 'flatten', 'unique_list', 'chain', 'filter'}
_SET_METHODS = {'intersection', 'union', 'difference', 'symmetric_difference', 'copy'}


def _entity_classes(ctx):
    """classes of wn._core deriving from _DatabaseEntity: their __lt__ compares rowids, and placeholders share NON_ROWID"""
    core = ctx.repo.mod('_core')
    bases = {}
    for n in core.tree.body:
        if isinstance(n, ast.ClassDef):
            bases[n.name] = [norm(b).split('.')[-1] for b in n.bases]
    ent = {'_DatabaseEntity'} if '_DatabaseEntity' in bases else set()
    changed = True
    while changed:
        changed = False
        for c, bs in bases.items():
            if c not in ent and any(b in ent for b in bs):
                ent.add(c)
                changed = True
    return ent


def _ann_says(ann, entities, module=None):
    """True: the annotation names an entity class of wn._core; False: it names only scalars; None: says nothing"""
    if ann is None:
        return None
    if isinstance(ann, ast.Constant) and isinstance(ann.value, str):
        try:
            ann = ast.parse(ann.value, mode='eval').body
        except SyntaxError:
            return None
    names = set()
    for n in ast.walk(ann):
        if isinstance(n, ast.Constant) and isinstance(n.value, str):
            try:
                sub = ast.parse(n.value, mode='eval').body
            except SyntaxError:
                continue
            r = _ann_says(sub, entities, module)
            if r is True:
                return True
            names.add('?' if r is None else 'str')
        elif isinstance(n, ast.Name):
            if n.id in entities:
                imp = module.imports.get(n.id) if module is not None else None
                if module is None or module.short == '_core' or (imp and imp[0] == 'obj' and imp[1] in ('wn', 'wn._core')):
                    return True
                names.add('?')
            else:
                names.add(n.id)
        elif isinstance(n, ast.Attribute):
            if n.attr in entities and isinstance(n.value, ast.Name):
                imp = module.imports.get(n.value.id) if module is not None else None
                if imp and imp[0] == 'mod' and imp[1] in ('wn', 'wn._core'):
                    return True
            names.add('?')
    scalars = {'str', 'int', 'float', 'bytes'}
    shapes = {'set', 'frozenset', 'list', 'tuple', 'dict', 'Set', 'List', 'Tuple', 'Dict', 'Sequence', 'Iterable', 'Iterator', 'Optional',
              'Collection', 'AbstractSet', 'FrozenSet', 'None', 'Counter', 'Mapping'}
    if names & scalars and not (names - scalars - shapes):
        return False
    return None


def holds_entities(ctx, f, expr, entities, depth=0, comp_env=None):
    """do the elements of the collection `expr` (anywhere inside, nested containers flattened) include database entities?
    True / False / None (not inferred).  Positive evidence only: annotations and the return annotations of the functions called."""
    from ..pyutil import binding_sites
    comp_env = comp_env or {}
    if depth > 8 or expr is None:
        return None

    def any3(vals):
        vals = list(vals)
        if any(v is True for v in vals):
            return True
        if vals and all(v is False for v in vals):
            return False
        return None
    if isinstance(expr, ast.Constant):
        return False
    if isinstance(expr, (ast.JoinedStr, ast.Compare, ast.BoolOp)) and not isinstance(expr, ast.BoolOp):
        return False
    if isinstance(expr, ast.BoolOp):
        return any3(holds_entities(ctx, f, v, entities, depth + 1, comp_env) for v in expr.values)
    if isinstance(expr, ast.IfExp):
        return any3(holds_entities(ctx, f, v, entities, depth + 1, comp_env) for v in (expr.body, expr.orelse))
    if isinstance(expr, (ast.Tuple, ast.List, ast.Set)):
        return any3(holds_entities(ctx, f, v, entities, depth + 1, comp_env) for v in expr.elts) if expr.elts else False
    if isinstance(expr, ast.Starred):
        return holds_entities(ctx, f, expr.value, entities, depth + 1, comp_env)
    if isinstance(expr, (ast.SetComp, ast.ListComp, ast.GeneratorExp)):
        env = dict(comp_env)
        for g in expr.generators:
            src = holds_entities(ctx, f, g.iter, entities, depth + 1, env)
            for n in ast.walk(g.target):
                if isinstance(n, ast.Name):
                    env[n.id] = src
        return holds_entities(ctx, f, expr.elt, entities, depth + 1, env)
    if isinstance(expr, ast.BinOp):
        if isinstance(expr.op, (ast.BitOr, ast.BitAnd, ast.Sub, ast.BitXor, ast.Add)):
            return any3(holds_entities(ctx, f, v, entities, depth + 1, comp_env) for v in (expr.left, expr.right))
        return None
    if isinstance(expr, ast.Subscript):
        if isinstance(expr.slice, ast.Slice):
            return holds_entities(ctx, f, expr.value, entities, depth + 1, comp_env)
        if isinstance(expr.slice, ast.Constant) and isinstance(expr.slice.value, str):
            return None     # a field of a record: nothing known
        # an element of a container: of the container's kind (nested containers are flattened)
        return holds_entities(ctx, f, expr.value, entities, depth + 1, comp_env)
    if isinstance(expr, ast.Attribute):
        if expr.attr in ('id', 'pos', 'ili', 'name', 'version', 'language', 'label', '_id', '_lexid'):
            return False
        return None
    if isinstance(expr, ast.Name):
        if expr.id in comp_env:
            return comp_env[expr.id]
        for p in f.param_nodes():
            if p.arg == expr.id:
                return _ann_says(p.annotation, entities, f.module)
        vals = []
        for n in walk_no_nested(f.node):
            if isinstance(n, ast.AnnAssign) and isinstance(n.target, ast.Name) and n.target.id == expr.id:
                a = _ann_says(n.annotation, entities, f.module)
                if a is not None:
                    return a
        for b in binding_sites(f.node, expr.id):
            if b[0] == 'assign' and b[1] is not None:
                vals.append(holds_entities(ctx, f, b[1], entities, depth + 1, comp_env))
            elif b[0] == 'for' and b[1] is not None:
                vals.append(holds_entities(ctx, f, b[1], entities, depth + 1, comp_env))
        for n in walk_no_nested(f.node):
            if isinstance(n, ast.Call) and isinstance(n.func, ast.Attribute) and isinstance(n.func.value, ast.Name) \
                    and n.func.value.id == expr.id and n.func.attr in ('add', 'update', 'append', 'extend') and n.args:
                vals.append(holds_entities(ctx, f, n.args[0], entities, depth + 1, comp_env))
            if isinstance(n, ast.AugAssign) and isinstance(n.target, ast.Name) and n.target.id == expr.id:
                vals.append(holds_entities(ctx, f, n.value, entities, depth + 1, comp_env))
        return any3(vals)
    if isinstance(expr, ast.Call):
        fn = expr.func
        name = fn.id if isinstance(fn, ast.Name) else fn.attr if isinstance(fn, ast.Attribute) else ''
        if isinstance(fn, ast.Name) and name in entities:
            return True
        if isinstance(fn, ast.Name) and name in _FLAT_PASS and name not in f.module.funcs:
            return any3(holds_entities(ctx, f, a, entities, depth + 1, comp_env) for a in expr.args) if expr.args else False
        if isinstance(fn, ast.Attribute) and name in _SET_METHODS:
            return any3([holds_entities(ctx, f, fn.value, entities, depth + 1, comp_env)]
                        + [holds_entities(ctx, f, a, entities, depth + 1, comp_env) for a in expr.args])
        if name in ('len', 'str', 'int', 'repr', 'format', 'join', 'lower', 'strip', 'split', 'keys') and name not in f.module.funcs:
            return False
        # a function / method of the repository: its return annotation
        anns = []
        for call, cal in ctx.cg.callees(f):
            if call is expr:
                anns = [_ann_says(c.node.returns, entities, c.module) for c in cal]
        if anns:
            if any(a is True for a in anns):
                return True
            if all(a is False for a in anns):
                return False
        return None
    return None


def r7_keyless_ordering_is_total(ctx, res):
    """`sorted(S)` (min, max) without a key turns a set into a seed-independent sequence only if no two distinct elements
    compare as equal.  Strings, numbers and tuples of them do; database entities do not: _DatabaseEntity.__lt__ compares
    rowids, and all inferred / simulated placeholder synsets share NON_ROWID - ties keep the input order, i.e. the iteration
    order of the set.  Every keyless ordering of a set-ordered collection must not be over entities."""
    an = ctx.repo.cache('ont', lambda: Analysis(ctx).run())
    entities = _entity_classes(ctx)
    if 'Synset' not in entities or len(entities) < 5:
        raise AnalysisError(f'entity classes not found in wn/_core.py: {sorted(entities)}')
    res.note(f'entity classes (ordered by rowid, placeholders tie): {sorted(entities)}')
    n = 0
    for (fkey, text), (f, call) in sorted(an.keyless_orderings.items()):
        n += 1
        key = f'keyless-order:{fkey}:{text[:60]}'
        he = holds_entities(ctx, f, call.args[0], entities)
        res.inst(key, f.module.loc(call), {True: 'elements are database entities', False: 'elements are strings / numbers',
                                           None: 'element type not inferred (no entity annotation on any source)'}[he])
        if he is True:
            res.find(key, f.module.loc(call),
                     f'{f.qualname}: `{text[:80]}` orders a set of database entities without a key: entities compare by rowid and '
                     f'placeholder synsets (*INFERRED*, *ROOT*) all share one, so equal items stay in set-iteration order, which '
                     f'depends on PYTHONHASHSEED')
    if n < 5:
        raise AnalysisError(f'only {n} keyless orderings of set-ordered collections found')


# ---------------------------------------------------------------------------
# R8: nothing an API result or written file is computed from depends on the clock, the process or a random source

_CLOCK = {('time', x) for x in ('time', 'time_ns', 'monotonic', 'perf_counter', 'ctime', 'asctime', 'localtime', 'gmtime', 'strftime',
                                'process_time')} | \
    {('datetime', x) for x in ('now', 'utcnow', 'today')} | {('date', 'today')} | \
    {('os', x) for x in ('getpid', 'getppid', 'urandom', 'times', 'getlogin', 'uname')} | \
    {('uuid', x) for x in ('uuid1', 'uuid4')} | {('socket', 'gethostname'), ('platform', 'node')}
_RANDOM_MODULES = {'random', 'secrets'}
# writers that stamp their output with the current time unless told otherwise
_STAMPING = {('gzip', 'open'): 'mtime', ('gzip', 'GzipFile'): 'mtime', ('gzip', 'compress'): 'mtime'}
_ARCHIVE_WRITERS = {('tarfile', 'open'), ('zipfile', 'ZipFile'), ('shutil', 'make_archive')}


def _mode_of(call, pos=1):
    for k in call.keywords:
        if k.arg == 'mode':
            return k.value
    return call.args[pos] if len(call.args) > pos else None


def _is_read_mode(m):
    """the mode argument of an open()-like call: True read-only, False writing, None unknown"""
    if m is None:
        return True      # default mode of gzip.open / GzipFile / tarfile.open is reading
    if isinstance(m, ast.Constant) and isinstance(m.value, str):
        return not any(ch in m.value for ch in 'wax+')
    return None


def r8_no_clock_or_process_dependence(ctx, res):
    """API results and the bytes written by dump / export are a function of database content and arguments: no value flows from
    the clock, the process id, the host or a random source, and no writer stamps its output with the current time - gzip.open /
    GzipFile in a writing mode put `time.time()` into the header (bytes 4-7) unless mtime= is given; tar / zip writers store
    member times.  Every reference to such a source in wn/ is examined; gzip readers are fine."""
    from ..pyutil import binding_sites
    n = 0
    for f in ctx.repo.all_funcs():
        m = f.module
        for node in walk_no_nested(f.node):
            if isinstance(node, ast.Name) and isinstance(node.ctx, ast.Load):
                # `from gzip import open as gzopen`
                imp = m.imports.get(node.id)
                if not (imp and imp[0] == 'ext' and '.' in imp[1]) or node.id in f.params:
                    continue
                modname, attr = imp[1].rsplit('.', 1)[0].split('.')[-1], imp[1].rsplit('.', 1)[1]
            elif isinstance(node, ast.Attribute) and isinstance(node.value, ast.Name):
                imp = m.imports.get(node.value.id)
                modname = imp[1].split('.')[-1] if imp and imp[0] == 'ext' else None
                attr = node.attr
                if modname is None:
                    continue
            else:
                continue
            pair = (modname, attr)
            loc = m.loc(node)
            if pair in _CLOCK or modname in _RANDOM_MODULES:
                n += 1
                key = f'env-source:{f.key}:{modname}.{attr}'
                res.inst(key, loc, 'clock / process / random source')
                res.find(key, loc, f'{f.qualname} reads {modname}.{attr}: a value that differs between calls and processes for the same '
                                   f'database content and arguments')
                continue
            if pair in _STAMPING or pair in _ARCHIVE_WRITERS:
                n += 1
                key = f'stamping-writer:{f.key}:{modname}.{attr}'
                par = getattr(node, '_parent', None)
                calls = []
                if isinstance(par, ast.Call) and par.func is node:
                    calls = [par]
                else:
                    # a reference kept in a local (`opener = gzip.open if .. else lzma.open`): the calls of that local
                    p = par
                    while p is not None and not isinstance(p, (ast.Assign, ast.AnnAssign, ast.FunctionDef)):
                        p = getattr(p, '_parent', None)
                    tgt = None
                    if isinstance(p, ast.Assign) and len(p.targets) == 1 and isinstance(p.targets[0], ast.Name):
                        tgt = p.targets[0].id
                    elif isinstance(p, ast.AnnAssign) and isinstance(p.target, ast.Name):
                        tgt = p.target.id
                    if tgt is not None:
                        calls = [c for c in walk_no_nested(f.node) if isinstance(c, ast.Call) and isinstance(c.func, ast.Name) and c.func.id == tgt]
                    if not calls:
                        calls = [None]
                verdicts = []
                for c in calls:
                    if c is None:
                        verdicts.append(None)
                        continue
                    if any(k.arg == _STAMPING.get(pair) for k in c.keywords):
                        verdicts.append(True)
                        continue
                    verdicts.append(_is_read_mode(_mode_of(c, 1 if pair != ('gzip', 'compress') else 99)) if pair != ('gzip', 'compress') else False)
                res.inst(key, loc, f'{[norm(c)[:50] if c is not None else "kept as a value" for c in calls]} -> read-only: {verdicts}')
                if not all(v is True for v in verdicts):
                    res.find(key, loc, f'{f.qualname} uses {modname}.{attr} for writing (or in a way the analysis cannot follow): the output '
                                       f'carries the current time (gzip header bytes 4-7 / archive member times) unless mtime is fixed - two '
                                       f'runs with the same content and arguments write different bytes')
    # the builtin hash() of a str / bytes is salted per process: outside __hash__ methods it must not be called at all
    for f in ctx.repo.all_funcs():
        if f.name == '__hash__':
            continue
        for node in walk_no_nested(f.node):
            if isinstance(node, ast.Call) and isinstance(node.func, ast.Name) and node.func.id == 'hash' and 'hash' not in f.params \
                    and 'hash' not in f.module.funcs:
                n += 1
                key = f'env-source:{f.key}:hash()'
                res.inst(key, f.module.loc(node), 'builtin hash() outside a __hash__ method')
                res.find(key, f.module.loc(node), f'{f.qualname} calls the builtin hash(): for str / bytes it is salted per process '
                                                  f'(PYTHONHASHSEED), so a value derived from it differs between processes')
    # module level: tables of openers (`_OPENERS = {'.gz': gzip.open}`) are used from functions - followed through their readers
    for m in ctx.repo.modules.values():
        for st in m.tree.body:
            if not isinstance(st, (ast.Assign, ast.AnnAssign)) or getattr(st, 'value', None) is None:
                continue
            refs = [x for x in ast.walk(st.value) if isinstance(x, ast.Attribute) and isinstance(x.value, ast.Name)
                    and (m.imports.get(x.value.id) or ('', ''))[0] == 'ext'
                    and ((m.imports[x.value.id][1].split('.')[-1], x.attr) in _STAMPING
                         or (m.imports[x.value.id][1].split('.')[-1], x.attr) in _ARCHIVE_WRITERS)]
            if not refs:
                continue
            tname = norm(st.targets[0]) if isinstance(st, ast.Assign) else norm(st.target)
            for x in refs:
                n += 1
                key = f'stamping-writer:{m.short}.{tname}:{norm(x)}'
                # locals bound from the table, and their calls
                bad = []
                seen_use = False
                for f in ctx.repo.all_funcs():
                    if f.module is not m:
                        continue
                    for a in walk_no_nested(f.node):
                        if isinstance(a, ast.Assign) and len(a.targets) == 1 and isinstance(a.targets[0], ast.Name) \
                                and any(isinstance(y, ast.Name) and y.id == tname for y in ast.walk(a.value)):
                            loc_name = a.targets[0].id
                            for c in walk_no_nested(f.node):
                                if isinstance(c, ast.Call) and isinstance(c.func, ast.Name) and c.func.id == loc_name:
                                    seen_use = True
                                    if _is_read_mode(_mode_of(c)) is not True and not any(k.arg == 'mtime' for k in c.keywords):
                                        bad.append((f, c))
                res.inst(key, m.loc(x), f'table `{tname}`; calls through it with a writing / unknown mode: {len(bad)}')
                if bad or not seen_use:
                    f, c = bad[0] if bad else (None, None)
                    res.find(key, m.loc(c) if c is not None else m.loc(x),
                             f'`{norm(x)}` is kept in `{tname}` and ' + (f'called by {f.qualname} as `{norm(c)[:70]}`' if c is not None
                                                                        else 'used in a way the analysis cannot follow') +
                             ': a gzip stream written this way carries the current time in its header - dump / export to the same '
                             'destination twice gives different bytes')
    if n < 1:
        raise AnalysisError('no reference to a compressing / archiving library found (expected gzip.open in wn/project.py)')


# ---------------------------------------------------------------------------
# R9: no default object repr (memory address) in a message or result

def _classes_without_repr(ctx):
    """classes defined in wn/ -> (has __repr__, has __str__) through their bases inside wn/ (Enum / Exception / tuple / dict / str bases
    bring their own)"""
    info = {}
    for m in ctx.repo.modules.values():
        for c in m.classes.values():
            info[c.name] = (c, m)
    out = {}
    for name, (c, m) in info.items():
        has_r = has_s = False
        foreign = False
        for b in ctx.repo.mro(c):
            has_r = has_r or '__repr__' in b.methods
            has_s = has_s or '__str__' in b.methods
            for bb in b.node.bases:
                bn = norm(bb).split('.')[-1].split('[')[0]
                if bn not in info and bn not in ('object', 'Generic', 'Protocol', 'ABC'):
                    foreign = True      # Enum, Exception, NamedTuple, TypedDict, str, dict, ...: printable
        out[name] = (has_r or foreign, has_s or has_r or foreign)
    return out


def r9_no_default_repr_in_text(ctx, res):
    """text the library produces (error messages included) is a function of content and arguments: an object whose class defines
    no __repr__ / __str__ prints as `<wn.Wordnet object at 0x7f...>` - the memory address differs between two objects built from
    the same arguments and between processes.  Every `{x!r}`, `{x}`, repr(x), str(x) whose operand is annotated with (or is
    `self` of) a class of wn/ without its own text form is reported."""
    import re
    classes = _classes_without_repr(ctx)
    bare = {n for n, (r, s_) in classes.items() if not r}
    if 'Wordnet' not in classes or len(classes) < 20:
        raise AnalysisError(f'only {len(classes)} classes of wn/ found')
    res.note(f'classes of wn/ without __repr__: {sorted(bare)}')
    n = 0
    for f in ctx.repo.all_funcs():
        ann = {}
        for p_ in f.param_nodes():
            if p_.annotation is not None:
                ann[p_.arg] = norm(p_.annotation)
        if f.cls is not None and f.params and f.params[0] == 'self':
            ann['self'] = f.cls.name
        for node in walk_no_nested(f.node):
            if isinstance(node, ast.AnnAssign) and isinstance(node.target, ast.Name):
                ann[node.target.id] = norm(node.annotation)
        for node in walk_no_nested(f.node):
            operand, how = None, None
            if isinstance(node, ast.FormattedValue):
                operand, how = node.value, ('repr' if node.conversion == ord('r') else 'str')
            elif isinstance(node, ast.Call) and isinstance(node.func, ast.Name) and node.func.id in ('repr', 'str', 'format') and len(node.args) >= 1:
                operand, how = node.args[0], ('repr' if node.func.id == 'repr' else 'str')
            if not isinstance(operand, ast.Name) or operand.id not in ann:
                continue
            words = set(re.findall(r'[A-Za-z_][A-Za-z_0-9]*', ann[operand.id]))
            hit = sorted(w for w in words & set(classes) if not classes[w][0 if how == 'repr' else 1])
            n += 1
            if hit and not (words & {'str', 'int', 'Optional'} and len(words & set(classes)) == 0):
                key = f'default-repr:{f.key}:{operand.id}'
                res.inst(key, f.module.loc(node), f'{how}() of a {hit[0]}')
                res.find(key, f.module.loc(node),
                         f'{f.qualname} formats `{operand.id}` ({hit[0]}) with {how}(): {hit[0]} defines no __repr__'
                         + ('' if how == 'repr' else ' / __str__') + ', so the text contains the object\'s memory address - it differs '
                         'between two objects built from the same arguments and between processes')
    res.inst('default-repr:operands-examined', 'wn/', f'{n} formatted operands with a known annotation')
    if n < 20:
        raise AnalysisError(f'only {n} annotated operands of string formatting found')


def r10_no_state_in_default_arguments(ctx, res):
    """a default argument value is evaluated once, at import: an iterator, counter, list, dict or set there is process-wide state
    (`numbering=itertools.count(1)` makes the second export of a process number its frames from where the first stopped).
    Default values are constants, names, tuples / frozensets of them, or None."""
    n = 0

    def constant_like(v):
        if isinstance(v, (ast.Constant, ast.Name, ast.Attribute)):
            return True
        if isinstance(v, ast.Tuple):
            return all(constant_like(x) for x in v.elts)
        if isinstance(v, ast.UnaryOp):
            return constant_like(v.operand)
        if isinstance(v, ast.Call) and isinstance(v.func, ast.Name) and v.func.id in ('frozenset', 'tuple') \
                and all(constant_like(a) or isinstance(a, (ast.List, ast.Set, ast.Tuple)) for a in v.args):
            return True
        return False
    for f in ctx.repo.all_funcs():
        a = f.node.args
        for d in list(a.defaults) + [x for x in a.kw_defaults if x is not None]:
            n += 1
            if not constant_like(d):
                key = f'default-argument-state:{f.key}:{norm(d)[:40]}'
                res.inst(key, f.module.loc(d), 'default value built by a call / display')
                res.find(key, f.module.loc(d), f'{f.qualname} has the default argument `{norm(d)[:60]}`: it is evaluated once and shared by every '
                                               f'call of the process - a result that depends on it differs between the first and the second call')
    res.inst('default-argument-state:examined', 'wn/', f'{n} default values')
    if n < 100:
        raise AnalysisError(f'only {n} default argument values found')

RULES = [
    ('C16-R1', r1_ont, 300),
    ('C16-R2', r2_no_hidden_state, 300),
    ('C16-R3', r3_memo_purity, 1),
    ('C16-R4', r4_no_shared_objects, 4),
    ('C16-R5', r5_no_one_shot_iterators_kept, 40),
    ('C16-R6', r6_output_independent_of_locale, 6),
    ('C16-R7', r7_keyless_ordering_is_total, 5),
    ('C16-R8', r8_no_clock_or_process_dependence, 1),
    ('C16-R9', r9_no_default_repr_in_text, 1),
    ('C16-R10', r10_no_state_in_default_arguments, 1),
]
