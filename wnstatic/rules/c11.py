"""C11 — relation queries return exactly the declared relations; closures terminate."""
from __future__ import annotations
import ast
from ..pat import Frag
from ..src import norm, walk_no_nested, AnalysisError
from ..loops import all_whiles, classify_while, recursion_cycles
from ..pyutil import parents, is_self_attr

META = {
    'title': 'Relation queries return exactly the declared relations; closures terminate',
    'technique': 'termination-idiom classification of every while loop / recursion cycle; sibling cross-check of the three relation queries (type filter read off the path facts of the statement variants); effect summaries of relation_paths, relations(), get_related() and the importer split',
    'explanation': (
        'Decides: R1 every `while` loop and every recursion cycle of wn/ matches a recorded termination idiom - (G) global '
        'visited set guarding every growth of the worklist (_Relatable.closure), (P) per-path visited sets that grow '
        'strictly (relation_paths: finitely many simple paths), (B) bounded consumption of an iterator, structural or '
        'flag-bounded recursion - so closure()/relation_paths() terminate on cycles and self-loops; R2 the three relation '
        'queries (synset, sense, sense->synset) agree: same type-filter guard, same rt CTE, DISTINCT, same leading select '
        'columns, scope on relation and target (C04-R1); R3 Relation equality and hash use name, source, target, lexicon and '
        'subtype, and relation_map() is keyed by it; R4 the importer sends a sense relation to sense_relations iff its target '
        'is a sense id, to sense_synset_relations iff a synset id, and raises otherwise (exhaustive three-way split); '
        'R5 relations()/get_related() dedupe order-preservingly and pass the requested types to the query. R7 a relation target '
        'built field by field takes id, pos, ili, owning lexicon and rowid from the matching columns of its own row. R8 _iter_relations yields local and borrowed relations for every requested type list, with no other condition (shape of C12-R3). R9 relation-name literals of the convenience wrappers exist in the constants inventories. R10 the borrowed relations are complete: every in-scope synset with the target ILI is a target (C12-R1, C12-R2 on Synset._iter_expanded_relations). R11 a foreign-key parent joined only to report its id carries no lexicon filter. R12 the default-mode scope of an element is its whole extension family (C04-R4). R13 relation types are registered from every relation of the lexicon being added (C05-R10).'),
    'decides': ['termination idioms', 'sibling agreement of relation queries', 'relation identity', 'importer split',
                'type filter forwarding', 'visited sets hold entities', 'relation targets carry their own lexicon and rowid'],
    'not_decided': ['exactness of result sets (SQLite semantics)'],
    'assumptions': ['get_related() returns finite lists'],
}

RECURSION_OK = {
    'project.iterpackages': 'recursion on the single entry extracted from a tar archive: bounded by the nesting depth of a finite file',
}


def r1_termination(ctx, res):
    whiles = all_whiles(ctx.repo)
    for f, n in whiles:
        info = classify_while(f, n)
        res.inst(info.key, f.module.loc(n), f'idiom {info.idiom}: {info.why}')
        if info.idiom == 'NONE':
            res.find(info.key, f.module.loc(n),
                     f'`while {norm(n.test)}` in {f.qualname} matches no termination idiom: {info.why}; on a cyclic relation '
                     f'graph (or a self-loop) the loop does not terminate')
    # the two traversal primitives must keep their specific idioms
    want = {'_core._Relatable.closure': ('G',), '_core._Relatable.relation_paths': ('P', 'G')}
    found = {}
    for f, n in whiles:
        if f.key in want:
            found[f.key] = classify_while(f, n).idiom
    for k, allowed in want.items():
        key = f'primitive:{k}'
        res.inst(key, 'wn/_core.py', f'idiom {found.get(k)}')
        if k not in found:
            # rewritten without a while loop: must then be recursion-free and loop over a finite list; flag for review
            fobj = ctx.repo.try_func(*k.split('.', 1))
            if fobj is None:
                raise AnalysisError(f'anchor vanished: {k}')
            res.find(key, fobj.module.loc(fobj.node), f'{k} no longer contains the worklist loop whose termination idiom was confirmed '
                                                      f'({allowed}); re-confirm termination on cyclic graphs')
        elif found[k] not in allowed and found[k] != 'NONE':
            res.find(key, 'wn/_core.py', f'{k} uses idiom {found[k]}, expected {allowed}')
    # relation_paths must yield only simple paths: candidates filtered against the path's own visited set, which
    # contains the start node
    from ..speccheck import view
    import re as _re
    v = view(ctx, '_core', '_Relatable.relation_paths')
    key = 'relation_paths:start-in-visited'
    first = [r for r in v.rows if r[0] == 'call' and r[3] == ('for self.get_related(*args)',) and '.append(' in r[1]]
    res.inst(key, v.loc(), f'{[r[1] for r in first]}')
    ok = len(first) == 1
    if ok:
        m = _re.match(r'^#\d+\.append\(\(\[\$1\], \{(.+)\}\)\)$', first[0][1])
        ok = bool(m) and {x.strip() for x in m.group(1).split(',')} == {'self', '$1'}
    if not ok:
        res.find(key, v.loc(), f'the initial visited set of relation_paths no longer contains the start entity and the first target (the '
                               f'entities themselves): paths can return to the start (not simple): {[r[1] for r in first]}')
    # recursion
    for comp in recursion_cycles(ctx):
        key = 'recursion:' + ','.join(comp)
        funcs = [ctx.repo.func(*k.split('.', 1)) for k in comp]
        why = _recursion_ok(ctx, comp, funcs)
        res.inst(key, funcs[0].module.loc(funcs[0].node), why or 'unrecognised recursion')
        if why is None:
            res.find(key, funcs[0].module.loc(funcs[0].node),
                     f'recursion cycle {comp} matches no termination idiom (structural recursion on children, flag-bounded '
                     f'recursion, or an entry of the reviewed table)')


def _recursion_ok(ctx, comp, funcs):
    if len(comp) == 1 and comp[0] in RECURSION_OK:
        return RECURSION_OK[comp[0]]
    keys = set(comp)
    # flag-bounded: every recursive call passes <flag>=True and sits under `if not <flag>`
    flag_ok = True
    struct_ok = True
    ncalls = 0
    for f in funcs:
        for call, cal in ctx.cg.callees(f):
            if not any(c.key in keys for c in cal):
                continue
            ncalls += 1
            flags = [kw.arg for kw in call.keywords if isinstance(kw.value, ast.Constant) and kw.value.value is True]
            under = False
            for p in parents(call):
                if isinstance(p, ast.If) and isinstance(p.test, ast.UnaryOp) and isinstance(p.test.op, ast.Not) \
                        and isinstance(p.test.operand, ast.Name) and p.test.operand.id in flags \
                        and any(call is x for b in p.body for x in ast.walk(b)):
                    under = True
            if not under:
                flag_ok = False
            # structural: first argument is an element of (an iteration over / subscript of) the first parameter
            first = call.args[0] if call.args else None
            p0 = f.params[0] if f.params else None
            ok = False
            if first is not None and p0:
                if isinstance(first, ast.Subscript) and isinstance(first.value, ast.Name) and first.value.id == p0:
                    ok = True
                if isinstance(first, ast.Name):
                    # a local bound to an element of the first parameter: `last = elem[-1]; f(last, ...)`
                    from ..pyutil import binding_sites
                    bs = [b for b in binding_sites(f.node, first.id) if b[0] == 'assign']
                    if bs and all(isinstance(b[1], ast.Subscript) and isinstance(b[1].value, ast.Name) and b[1].value.id == p0
                                  and not isinstance(b[1].slice, ast.Slice) for b in bs):
                        ok = True
                    for p in parents(call):
                        if isinstance(p, ast.For) and isinstance(p.target, ast.Name) and p.target.id == first.id:
                            it = p.iter
                            while isinstance(it, ast.Subscript):
                                it = it.value
                            if isinstance(it, ast.Name) and it.id == p0:
                                ok = True
            if not ok:
                struct_ok = False
    if ncalls and flag_ok:
        return 'flag-bounded recursion: every recursive call passes <flag>=True and is made only under `if not <flag>` (depth <= 1)'
    if ncalls and struct_ok:
        return 'structural recursion on the children of the first parameter (finite tree)'
    return None


# ---------------------------------------------------------------------------

REL_QUERIES = {
    'get_synset_relations': ('synset_relations', 'synsets'),
    'get_sense_relations': ('sense_relations', 'senses'),
    'get_sense_synset_relations': ('sense_synset_relations', 'synsets'),
}


def _atoms(node, val, out):
    """facts implied by `node` having truth value `val`:  out[atom text] = bool"""
    if isinstance(node, ast.UnaryOp) and isinstance(node.op, ast.Not):
        return _atoms(node.operand, not val, out)
    if isinstance(node, ast.BoolOp):
        if (isinstance(node.op, ast.And) and val) or (isinstance(node.op, ast.Or) and not val):
            for x in node.values:
                _atoms(x, val, out)
        return
    if isinstance(node, ast.Compare) and len(node.ops) == 1 and isinstance(node.ops[0], ast.NotIn):
        out[f'{norm(node.left)} in {norm(node.comparators[0])}'] = not val
        return
    out[norm(node)] = val


def _requested(facts):
    """three-valued truth of `relation_types and '*' not in relation_types` under the path facts of a statement variant"""
    at = {}
    whole = None
    for text, val in facts.items():
        try:
            node = ast.parse(text, mode='eval').body
        except SyntaxError:
            continue
        if norm(node) == "relation_types and '*' not in relation_types":
            whole = val
        elif norm(node) == "not relation_types or '*' in relation_types":
            whole = not val            # the same test, negated (De Morgan)
        _atoms(node, val, at)
    a, b = at.get('relation_types'), at.get("'*' in relation_types")
    if a is True and b is False:
        return True
    if a is False or b is True:
        return False
    return whole


def r2_sibling_relation_queries(ctx, res):
    for fname, (reltable, tgttable) in REL_QUERIES.items():
        f = ctx.repo.func('_queries', fname)
        loc = f.module.loc(f.node)
        # (a) the type filter is present exactly when types were requested and '*' is not among them (read off the path facts of
        #     the statement variants, so the guard may live in this function or in a helper)
        key = f'type-guard:{fname}'
        sites0 = ctx.sites_of(f.key)
        vs0 = [v for s in sites0 for v in s.variants if v.stmt is not None]
        res.inst(key, loc, f'{len(vs0)} variants')
        mk = S_MARK('qs', 'relation_types')
        for v in vs0:
            tv = _requested(v.facts)
            requested, decided = tv is True, tv is False
            if mk in v.sql and not requested:
                res.find(key, loc, f"{fname} applies its type filter under {dict(v.facts)}; its siblings filter exactly when `relation_types and "
                                   f"'*' not in relation_types`: without the emptiness test a call without relation types asks for `type IN ()` "
                                   f'and returns nothing instead of all relations')
            if mk not in v.sql and not decided:
                res.find(key, loc, f'{fname} omits the type filter under {dict(v.facts)}: requested relation types are ignored')
        # (b) statement shape
        sites = ctx.sites_of(f.key)
        vs = [v for s in sites for v in s.variants if v.stmt is not None]
        key = f'shape:{fname}'
        res.inst(key, loc, f'{len(vs)} variants')
        if len(vs) < 2:
            res.find(key, loc, f'{fname}: expected a filtered and an unfiltered statement variant, found {len(vs)}')
        for v in vs:
            st = v.stmt
            flat = ' '.join(v.sql.split())
            if not st.distinct():
                res.find(key + ':distinct', loc, f'{fname}: SELECT without DISTINCT (duplicated declarations are reported twice)')
            sel = [s.replace(' ', '') for s in (st.select_list() or [])]
            if sel[:3] != ['rel.type', 'rel.lexicon', 'rel.metadata']:
                res.find(key + ':select', loc, f'{fname}: select list starts with {sel[:3]}, expected rel.type, rel.lexicon, rel.metadata')
            import re as _re_rt
            rel_alias = next((o.alias for o in st.occs if o.kind == 'table' and o.table == reltable), None)
            rt_join = rel_alias is not None and bool(_re_rt.search(
                r'JOIN rt ON (?:' + _re_rt.escape(rel_alias) + r'\.type_rowid = rt\.rowid|rt\.rowid = ' + _re_rt.escape(rel_alias) + r'\.type_rowid)', flat))
            if 'rt' not in st.ctes or not rt_join:
                res.find(key + ':rt', loc, f'{fname}: relation rows are not joined to the rt (relation type) CTE on type_rowid')
            if rel_alias is None or not _re_rt.search(r'FROM ' + reltable + r'(?: AS)? ' + _re_rt.escape(rel_alias) + r'\b', flat):
                res.find(key + ':table', loc, f'{fname}: does not read {reltable}')
            if f'JOIN {tgttable} AS' not in flat or 'rel.target_rowid' not in flat:
                res.find(key + ':target', loc, f'{fname}: targets are not resolved in {tgttable} through rel.target_rowid')
            has_filter = 'type IN (' in flat.replace(S_MARK('qs', 'relation_types'), '').replace('  ', ' ') or \
                         S_MARK('qs', 'relation_types') in v.sql
            wants_filter = v.facts.get('relation_types') is True and v.facts.get("'*' in relation_types") is False
            if S_MARK('qs', 'relation_types') in v.sql:
                if 'WHERE type IN ( ' + S_MARK('qs', 'relation_types') + ' )' not in ' '.join(v.sql.replace('(', ' ( ').replace(')', ' ) ').split()):
                    res.find(key + ':filter', loc, f'{fname}: the type filter is not `WHERE type IN (...)` inside the rt CTE')
            src_pred = 'source_rowid IN' if fname == 'get_synset_relations' else 'source_rowid = ?'
            if src_pred not in flat:
                res.find(key + ':source', loc, f'{fname}: relation rows are not restricted to the source row(s)')
    # callers pass the requested types through
    core = ctx.repo.mod('_core')
    for mname, qname in (('Synset._iter_local_relations', 'get_synset_relations'), ('Sense._iter_sense_relations', 'get_sense_relations'),
                         ('Sense._iter_sense_synset_relations', 'get_sense_synset_relations'),
                         ('Synset._iter_expanded_relations', 'get_synset_relations')):
        f = ctx.repo.func('_core', mname)
        key = f'types-forwarded:{mname}'
        calls = [n for n in walk_no_nested(f.node) if isinstance(n, ast.Call) and isinstance(n.func, ast.Name) and n.func.id == qname]
        res.inst(key, f.module.loc(f.node), f'{[norm(c)[:60] for c in calls]}')
        if not calls:
            res.find(key, f.module.loc(f.node), f'{mname} no longer calls {qname}')
        for c in calls:
            if len(c.args) < 2 or norm(c.args[1]) != 'args':
                res.find(key, f.module.loc(c), f'{mname} passes `{norm(c.args[1]) if len(c.args) > 1 else "nothing"}` as relation types to '
                                                f'{qname}; expected the requested types `args`')


def S_MARK(kind, name):
    from ..sql import marker
    return marker(kind, name)


# ---------------------------------------------------------------------------

def r3_relation_identity(ctx, res):
    core = ctx.repo.mod('_core')
    rel = core.classes.get('Relation')
    if rel is None:
        raise AnalysisError('anchor vanished: class Relation')
    want = {'name', 'source_id', 'target_id', '_lexicon', 'subtype'}
    for m in ('__eq__', '__hash__'):
        f = rel.methods.get(m)
        key = f'relation-identity:{m}'
        if f is None:
            res.inst(key, core.relpath, 'missing')
            res.find(key, core.relpath, f'Relation defines no {m}: relations compare/hash by object identity and relation_map() '
                                        f'keys no longer denote declarations')
            continue
        attrs = {n.attr for n in ast.walk(f.node) if is_self_attr(n)}
        res.inst(key, core.loc(f.node), f'uses {sorted(attrs)}')
        if attrs != want:
            res.find(key, core.loc(f.node), f'Relation.{m} uses {sorted(attrs)}; relation identity is (name, source, target, lexicon, '
                                            f'dc:type) = {sorted(want)}: relations that differ only in their dc:type must stay distinct')
    if '__eq__' in rel.methods:
        others = {n.attr for n in ast.walk(rel.methods['__eq__'].node) if isinstance(n, ast.Attribute) and isinstance(n.value, ast.Name)
                  and n.value.id == 'other'}
        key = 'relation-identity:eq-other'
        res.inst(key, core.loc(rel.methods['__eq__'].node), f'compares other.{sorted(others)}')
        if others != want:
            res.find(key, core.loc(rel.methods['__eq__'].node), f'Relation.__eq__ compares other.{sorted(others)}')
    sub = rel.methods.get('subtype')
    key = 'relation-identity:subtype'
    res.inst(key, core.relpath, 'subtype = metadata type')
    if sub is None or "self._metadata.get('type')" not in norm(sub.node):
        res.find(key, core.relpath, 'Relation.subtype is no longer the dc:type of the metadata')
    for cname in ('Synset', 'Sense'):
        f = ctx.repo.func('_core', f'{cname}.relation_map')
        key = f'relation_map:{cname}'
        rets = [n for n in walk_no_nested(f.node) if isinstance(n, ast.Return)]
        res.inst(key, f.module.loc(f.node), norm(rets[0].value) if rets else 'no return')
        ok = len(rets) == 1 and isinstance(rets[0].value, ast.Call) and norm(rets[0].value.func) == 'dict' \
            and '_iter_' in norm(rets[0].value)
        if not ok:
            res.find(key, f.module.loc(f.node), f'{cname}.relation_map is no longer dict(<(Relation, target) pairs>)')


def r4_importer_split(ctx, res):
    """the importer sends a sense relation to sense_relations iff its target is a sense id, to sense_synset_relations iff
    a synset id, and raises otherwise - read off the effect summary of _insert_sense_relations"""
    import re as _re
    from ..speccheck import view
    v = view(ctx, '_add', '_insert_sense_relations')
    loc = v.loc()
    key = 'sense-relation-split:id-sets'
    res.inst(key, loc, 'sense ids / synset ids built from all senses / synsets of the lexicon (incl. external ones)')
    syn = [r for r in v.rows if r[0] == 'call' and _re.match(r"^#\d+\.add\(\$1\['id'\]\)$", r[1]) and r[3] == ("for lexicon.get('synsets', [])",) and not r[2]]
    sen = [r for r in v.rows if r[0] == 'call' and _re.match(r"^#\d+\.add\(\$2\['id'\]\)$", r[1])
           and r[3] == ("for lexicon.get('entries', [])", "for $1.get('senses', [])") and not r[2]]
    if len(syn) != 1 or len(sen) != 1:
        res.find(key, loc, f'the id sets used for the split are no longer all synset ids and all sense ids of the lexicon: '
                           f'{[(r[1], r[3]) for r in v.rows if r[0] == "call" and ".add(" in r[1]]}')
        return
    SYN, SEN = syn[0][1].split('.')[0], sen[0][1].split('.')[0]
    rel_ctx = ("for lexicon.get('entries', [])", "for $1.get('senses', [])", "for $2.get('relations', [])")
    key = 'sense-relation-split'
    res.inst(key, loc, 'three-way split on the target id')
    to_sense = [r for r in v.rows if r[0] == 'call' and '.append(' in r[1] and r[3] == rel_ctx and set(r[2]) == {f"$3['target'] in {SEN}"}]
    to_syn = [r for r in v.rows if r[0] == 'call' and '.append(' in r[1] and r[3] == rel_ctx
              and set(r[2]) == {f"$3['target'] in {SYN}", f"$3['target'] not in {SEN}"}]
    err = [r for r in v.rows if r[0] == 'raise' and 'Error(' in r[1] and r[3] == rel_ctx
           and set(r[2]) == {f"$3['target'] not in {SYN}", f"$3['target'] not in {SEN}"}]
    if len(to_sense) != 1 or len(to_syn) != 1 or len(err) != 1:
        res.find(key, loc, 'sense relations are no longer split exhaustively: target in sense ids -> sense_relations, '
                           f'target in synset ids -> sense_synset_relations, otherwise wn.Error: '
                           f'{[(r[1][:30], sorted(r[2])) for r in v.rows if r[3] == rel_ctx and r[0] in ("call", "raise")][:4]}')
        return
    L1, L2 = to_sense[0][1].split('.')[0], to_syn[0][1].split('.')[0]
    key = 'sense-relation-split:tables'
    pairs = sorted({c for r in v.rows for c in r[3] if c.startswith("for [('sense_relations'") or c.startswith("for (('sense_relations'")})
    execs = [r for r in v.rows if r[0] == 'call' and '.executemany(' in r[1]]
    res.inst(key, loc, f'{pairs or [r[1][:60] for r in execs]}')
    want = f"[('sense_relations', SENSE_QUERY, {L1}), ('sense_synset_relations', SYNSET_QUERY, {L2})]"
    ok = bool(pairs) and all(c[4:] in (want, '(' + want[1:-1] + ')') for c in pairs)
    if not ok and not pairs:
        # unrolled form: one statement per table, each over the batches of its own list, with its own target query
        def unrolled(table, tq, lst):
            hits = [r for r in execs if _re.search(r"INSERT INTO \{?'?" + table + r"'?\}?(\s|\\n)", r[1])]
            return len(hits) == 1 and '({SENSE_QUERY}),({' + tq + '})' in hits[0][1].replace(' ', '') \
                and hits[0][3] == (f'for _batch({lst})',)
        ok = unrolled('sense_relations', 'SENSE_QUERY', L1) and unrolled('sense_synset_relations', 'SYNSET_QUERY', L2)
    if not ok:
        res.find(key, loc, f'relation lists are no longer paired with tables / target queries as {want}: {pairs}')


def _unique_targets(res, key, v, it, what):
    """the only return is unique_list(<the second component of every pair of self.<it>(*args), unfiltered>) - the iterable may be
    a generator in place or a local list filled by a loop"""
    from ..speccheck import as_loop
    res.inst(key, v.loc(), '1 required effect')
    rets = [r for r in v.rows if r[0] in ('return', 'yield', 'yield-from', 'raise')]
    ok = len(rets) == 1 and rets[0][0] == 'return' and not rets[0][2] and rets[0][1].startswith('unique_list(') and rets[0][1].endswith(')')
    if ok:
        ok = as_loop(v, rets[0][1][len('unique_list('):-1]) == ('$1[1]', (f'for self.{it}(*args)',), frozenset())
    if not ok:
        res.find(key, v.loc(), f'{v.f.qualname}: {what}; expected `return unique_list((_2 for _1, _2 in self.{it}(*args)))`; '
                               f'found {[r[1][:80] for r in rets][:3]}')


def r5_dedupe(ctx, res):
    from ..speccheck import view, expect
    for cname, it in (('Synset', '_iter_relations'), ('Sense', '_iter_sense_relations')):
        _unique_targets(res, f'get_related:{cname}', view(ctx, '_core', f'{cname}.get_related'), it,
                        f'{cname}.get_related de-duplicates order-preservingly the targets of self.{it}(*args) (the requested types)')
        v = view(ctx, '_core', f'{cname}.relations')
        key = f'relations:{cname}'
        res.inst(key, v.loc(), 'dict-as-ordered-set per relation name')
        grp = v.find('store', text_re=r'^#\d+\.setdefault\(\$1\[0\]\.name, \{\}\)\[\$1\[1\]\] = True$', ctx=(f'for self.{it}(*args)',))
        if len(grp) != 1 or grp[0][2]:
            res.find(key, v.loc(), f'{cname}.relations no longer groups targets per relation name in an order-preserving mapping over '
                                   f'self.{it}(*args): {v.describe(("store", "call"))[:3]}')
    _unique_targets(res, 'get_related_synsets', view(ctx, '_core', 'Sense.get_related_synsets'), '_iter_sense_synset_relations',
                    'Sense.get_related_synsets forwards the requested types and de-duplicates order-preservingly')
    uv = view(ctx, '_util', 'unique_list')
    key = 'unique_list'
    res.inst(key, uv.loc(), 'dict-based order-preserving de-duplication')
    rets = [r for r in uv.rows if r[0] == 'return']
    ok = len(rets) == 1 and (
        (rets[0][1] == 'list(#1)' and bool(uv.find('store', '#1[$1] = True', (), ('for items',))) and any(e.kind == 'new' and e.text == '#1<{}>' for e in uv.E))
        or rets[0][1] in ('list(dict.fromkeys(items))', 'list({_1: True for _1 in items})'))
    if not ok:
        res.find(key, uv.loc(), f'unique_list is no longer an order-preserving (dict based) de-duplication: {uv.describe()[:3]}')


TRAVERSAL_MODULES = ('_core', 'taxonomy', 'ic', 'similarity')


def r6_visited_by_entity(ctx, res):
    """visited sets of the traversals hold the entities themselves: every placeholder synset that an expand lexicon
    contributes has the same `.id` ('*INFERRED*') and `._id` (NON_ROWID), only its hash distinguishes it (by ILI), so a
    visited set keyed by id stops a closure / path at the second placeholder."""
    n = 0
    for ms in TRAVERSAL_MODULES:
        m = ctx.repo.mod(ms)
        for f in m.funcs.values():
            has_loop = any(isinstance(x, ast.While) for x in walk_no_nested(f.node))
            setnames = set()
            for x in walk_no_nested(f.node):
                if isinstance(x, (ast.Assign, ast.AnnAssign)) and getattr(x, 'value', None) is not None:
                    v = x.value
                    is_set = isinstance(v, (ast.Set, ast.SetComp)) or (isinstance(v, ast.Call) and norm(v.func) in ('set', 'frozenset')) \
                        or (isinstance(x, ast.AnnAssign) and norm(x.annotation).startswith(('set[', 'Set[')))
                    if is_set:
                        for t in (x.targets if isinstance(x, ast.Assign) else [x.target]):
                            if isinstance(t, ast.Name):
                                setnames.add(t.id)
            if not setnames and not has_loop:
                continue
            key = f'visited-key:{f.key}'
            n += 1
            res.inst(key, m.loc(f.node), f'sets {sorted(setnames)}')

            def is_idkey(e):
                return isinstance(e, ast.Attribute) and e.attr in ('id', '_id') and not (isinstance(e.value, ast.Name) and e.value.id == 'self' and not has_loop)
            # containers that GROW by id keys during the walk (a table that is only looked up / incremented is not a visited set)
            growing = set(setnames)
            for x in walk_no_nested(f.node):
                if isinstance(x, ast.Call) and isinstance(x.func, ast.Attribute) and x.func.attr in ('add', 'append') and x.args \
                        and is_idkey(x.args[0]) and isinstance(x.func.value, ast.Name):
                    growing.add(x.func.value.id)
                if isinstance(x, ast.Assign) and len(x.targets) == 1 and isinstance(x.targets[0], ast.Subscript) \
                        and isinstance(x.targets[0].value, ast.Name) and is_idkey(x.targets[0].slice):
                    growing.add(x.targets[0].value.id)
            for x in walk_no_nested(f.node):
                bad = None
                if isinstance(x, ast.Compare) and len(x.ops) == 1 and isinstance(x.ops[0], (ast.In, ast.NotIn)) and is_idkey(x.left) \
                        and isinstance(x.comparators[0], ast.Name) and x.comparators[0].id in growing:
                    bad = x
                elif isinstance(x, ast.Call) and isinstance(x.func, ast.Attribute) and x.func.attr == 'add' and x.args and is_idkey(x.args[0]) \
                        and isinstance(x.func.value, ast.Name) and x.func.value.id in setnames:
                    bad = x
                elif has_loop and isinstance(x, ast.Set) and any(is_idkey(e) for e in x.elts) \
                        and not (isinstance(getattr(x, '_parent', None), ast.Call) and x in x._parent.args):
                    bad = x
                if bad is not None:
                    res.find(key, m.loc(bad), f'{f.qualname} keys a visited set by an id (`{norm(bad)}`): all inferred placeholder synsets share '
                                              f"id '*INFERRED*' and rowid NON_ROWID, so the traversal treats the second placeholder as already "
                                              f'visited and loses everything behind it')
                    break
    if n < 4:
        raise AnalysisError('traversal functions with visited sets not found')


# ---------------------------------------------------------------------------
# R7: an entity built from an unpacked row takes every identifying field from the matching column of that row

PARAM_COLS = {
    'Synset': {'id': 'synsets.id', 'pos': 'synsets.pos', 'ili': 'ilis.id', '_lexid': 'synsets.lexicon_rowid', '_id': 'synsets.rowid'},
    'Sense': {'id': 'senses.id', 'entry_id': 'entries.id', 'synset_id': 'synsets.id', '_lexid': 'senses.lexicon_rowid', '_id': 'senses.rowid'},
    'Word': {'id': 'entries.id', 'pos': 'entries.pos', '_lexid': 'entries.lexicon_rowid', '_id': 'entries.rowid'},
}


def entity_fields_from_row(ctx, res, prefix='entity-fields'):
    """Synset(...) / Sense(...) / Word(...) built field by field from the row of a query (relation targets): the constructor's
    id, pos, ili, _lexid and _id are the columns of that same row that hold the entity's id, pos, ILI, owning lexicon and
    rowid (positions from the prescribed select lists, C01-R7).  An entity given another object's lexicon or rowid
    compares / hashes / scopes as the wrong thing once a relation crosses a lexicon boundary."""
    import re as _re
    from ..speccheck import view
    from .c01 import SELECT_LISTS, CTOR_PARAMS
    from .c02 import _parse_summary_expr
    core = ctx.repo.mod('_core')
    n = 0
    for f in core.funcs.values():
        src = norm(f.node)
        if not any(f'{c}(' in src for c in PARAM_COLS) or '<locals>' in f.qualname:
            continue
        try:
            v = view(ctx, '_core', f.qualname)
        except AnalysisError:
            continue
        for k, t, g, c, e in v.rows:
            if k not in ('yield', 'return', 'call', 'store', 'eval') or not any(f'{cn}(' in t for cn in PARAM_COLS):
                continue
            try:
                tree = _parse_summary_expr(t if k != 'store' else t.split(' = ', 1)[1])
            except AnalysisError:
                continue
            loops = [x for x in c if x.startswith('for ')]
            for call in ast.walk(tree):
                if not (isinstance(call, ast.Call) and isinstance(call.func, ast.Name) and call.func.id in PARAM_COLS):
                    continue
                if any(isinstance(a, ast.Starred) for a in call.args):
                    continue        # splatted rows: C01-R7
                cname = call.func.id
                params = CTOR_PARAMS[cname]
                bound = dict(zip(params, call.args))
                for kw in call.keywords:
                    if kw.arg in PARAM_COLS[cname]:
                        bound[kw.arg] = kw.value
                rowvars = set()
                key = f'{prefix}:{f.qualname}:{cname}'
                n += 1
                res.inst(key, v.loc(e), f'{sorted(bound)}')
                for pn, want_col in PARAM_COLS[cname].items():
                    a = bound.get(pn)
                    if a is None:
                        continue
                    m = _re.fullmatch(r'_loop_(\d+)\[(\d+)\]', norm(a))
                    if not m:
                        if isinstance(a, ast.Constant):
                            continue
                        res.find(key, v.loc(e), f'{f.qualname} builds {cname}(...) with {pn}=`{norm(a)[:40].replace("_loop_", "$")}`, which is not a field of '
                                                f'the row that describes this {cname}')
                        break
                    lv, idx = int(m.group(1)), int(m.group(2))
                    rowvars.add(lv)
                    q = _re.match(r'for (?:list\(|iter\()?(\w+)\(', loops[lv - 1]) if lv - 1 < len(loops) else None
                    sl = SELECT_LISTS.get(q.group(1)) if q else None
                    if sl is None:
                        continue
                    if idx >= len(sl) or sl[idx] != want_col:
                        res.find(key, v.loc(e), f'{f.qualname} builds {cname}(...) with {pn} from column {idx} of {q.group(1)} '
                                                f'({sl[idx] if idx < len(sl) else "out of range"}); the {pn} of the {cname} is {want_col}')
                        break
                else:
                    if len(rowvars) > 1:
                        res.find(key, v.loc(e), f'{f.qualname} builds one {cname} from the rows of different loops {sorted(rowvars)}')
    return n


def r7_targets_are_row_entities(ctx, res):
    n = entity_fields_from_row(ctx, res)
    if n < 3:
        raise AnalysisError(f'only {n} field-wise entity constructions found in wn/_core.py')


def r8_iter_relations_unconditional(ctx, res):
    """Synset._iter_relations yields the synset's own relations and (with an ILI and expand lexicons) the borrowed ones for
    EVERY requested type list - in particular for relation types outside the standard inventory, which add() stores as they are
    (shape of C12-R3: no other condition, no early exit)."""
    from .c12 import r3_order_and_switch
    r3_order_and_switch(ctx, res)


def r9_relation_names_exist(ctx, res):
    """the convenience wrappers (hypernyms, hyponyms, holonyms, meronyms, ...) pass relation names that exist: every string
    literal handed to get_related / relations / closure / relation_paths inside wn/_core.py and wn/taxonomy.py is a member of the
    relation inventories of wn.constants (a lost comma concatenates two names into one that matches nothing)."""
    from ..consts import const, Unknown
    inv = set()
    for nm in ('SYNSET_RELATIONS', 'SENSE_RELATIONS', 'SENSE_SYNSET_RELATIONS'):
        v = const(ctx.repo, 'constants', nm)
        if isinstance(v, Unknown) or not v:
            raise AnalysisError(f'cannot fold wn.constants.{nm}')
        inv |= set(v)
    n = 0
    for ms in ('_core', 'taxonomy', 'ic', 'similarity'):
        m = ctx.repo.mod(ms)
        for f in m.funcs.values():
            for c in walk_no_nested(f.node):
                if isinstance(c, ast.Call) and isinstance(c.func, ast.Attribute) \
                        and c.func.attr in ('get_related', 'relations', 'closure', 'relation_paths', 'get_related_synsets'):
                    lits = [a for a in c.args if isinstance(a, ast.Constant) and isinstance(a.value, str)]
                    if not lits:
                        continue
                    n += 1
                    key = f'relation-names:{f.key}:{c.func.attr}'
                    bad = [a.value for a in lits if a.value not in inv and a.value != '*']
                    res.inst(key, m.loc(c), f'{len(lits)} literal relation names')
                    if bad:
                        res.find(key, m.loc(c), f'{f.qualname} asks for relation type(s) {bad}, which are not in the relation inventories of '
                                                f'wn.constants: the relations of the intended types are silently left out')
    if n < 6:
        raise AnalysisError(f'only {n} calls with literal relation names found')


def r10_borrowed_relations_complete(ctx, res):
    """relations() / get_related() / closure() include the relations borrowed through expand lexicons: for every borrowed relation
    EVERY in-scope synset carrying the target's ILI is a target (an ILI may be shared by several synsets of one lexicon, by two
    installed versions, by a base and its extension), with the source and relation row it was borrowed from - the analysis of
    Synset._iter_expanded_relations on its effect summary (C12-R1, C12-R2)."""
    from .c12 import r1_provenance, r2_nullness
    r1_provenance(ctx, res)
    r2_nullness(ctx, res)


def reported_parents_unfiltered(ctx, res, prefix='reported-parent'):
    """an element may hang on a parent of ANOTHER lexicon - the sense an extension adds belongs to a synset of its base, an
    external entry's sense to a base entry: a row that is in scope stays in the result whatever lexicon its parent is in.  So an
    occurrence that is the foreign-key parent of a row of the result and is joined only to report its id (the synset id of a
    target sense, the entry id of a sense) carries NO lexicon filter; filtering it drops in-scope rows when only the child's
    lexicon is selected."""
    from .. import scoping as SC
    schema = ctx.schema
    n = 0
    seen = set()
    for s in ctx.sites:
        if s.func.module.short != '_queries':
            continue
        for v in s.variants:
            st = v.stmt
            if st is None or st.verb != 'SELECT':
                continue
            st.lexicon_filters(schema)
            eqs = SC._eq_predicates(st)
            real = [o for o in st.occs if o.kind == 'table' and o.table in schema.tables]
            for o in real:
                for sc, left, right, conj, pos in eqs:
                    for a, b in ((left, right), (right, left)):
                        if '.' not in a or '.' not in b:
                            continue
                        qa, ca = a.split('.', 1)
                        qb, cb = b.split('.', 1)
                        if qa != o.alias or ca != 'rowid':
                            continue
                        ob = next((x for x in real if x.alias == qb and x.scope == sc), None)
                        if ob is None or ob is o or not any(fk.table == ob.table and fk.column == cb and fk.ref_table == o.table for fk in schema.fks):
                            continue
                        if not SC._only_reports_id(st, schema, o, [x for x in real if x.scope == o.scope]):
                            continue
                        sig = (s.func.name, o.alias, ob.alias, cb, tuple(o.filters))
                        if sig in seen:
                            continue
                        seen.add(sig)
                        n += 1
                        key = f'{prefix}:{s.func.name}:{o.table} AS {o.alias}<-{ob.alias}.{cb}'
                        res.inst(key, s.loc, f'filters: {list(o.filters)}')
                        if o.filters:
                            res.find(key, s.loc,
                                     f'{s.func.name} joins {o.table} AS {o.alias} only to report the id of the parent of {ob.alias} '
                                     f'({ob.alias}.{cb}) but restricts it to the lexicon scope ({list(o.filters)}): a row of {ob.table} '
                                     f'whose parent lives in another lexicon (an extension\'s sense on a base synset) is dropped when only '
                                     f'its own lexicon is selected')
    if n < 4:
        raise AnalysisError(f'only {n} reported-parent joins found in wn/_queries.py')


def r11_reported_parents_unfiltered(ctx, res):
    reported_parents_unfiltered(ctx, res)

def r12_default_scope_is_the_extension_family(ctx, res):
    """in default mode the relations of an element are read in the scope of its whole extension family - own lexicon, every
    lexicon it extends, every lexicon extending it, in both directions and to any depth (C04-R4): an extension of an extension
    declares relations on the middle lexicon's elements too."""
    from .c04 import r4_default_formula
    r4_default_formula(ctx, res)

def r13_relation_types_registered(ctx, res):
    """a relation is stored through the rowid of its type in the shared relation_types table: the table is completed from EVERY
    relation of the lexicon being added - local and external synsets and senses alike (C05-R10) - or the add of an extension
    that declares a new relation type on a base synset fails."""
    from .c05 import r10_lookup_tables_complete
    r10_lookup_tables_complete(ctx, res)

RULES = [
    ('C11-R1', r1_termination, 6),
    ('C11-R2', r2_sibling_relation_queries, 10),
    ('C11-R3', r3_relation_identity, 6),
    ('C11-R4', r4_importer_split, 3),
    ('C11-R5', r5_dedupe, 6),
    ('C11-R6', r6_visited_by_entity, 4),
    ('C11-R7', r7_targets_are_row_entities, 3),
    ('C11-R8', r8_iter_relations_unconditional, 1),
    ('C11-R9', r9_relation_names_exist, 6),
    ('C11-R10', r10_borrowed_relations_complete, 10),
    ('C11-R11', r11_reported_parents_unfiltered, 4),
    ('C11-R12', r12_default_scope_is_the_extension_family, 3),
    ('C11-R13', r13_relation_types_registered, 3),
]
