"""C04 — queries stay inside the selected lexicons."""
from __future__ import annotations
import ast
from ..src import norm, walk_no_nested, AnalysisError
from ..pyutil import get_arg, binding_sites, is_self_attr, resolve_value, enclosing
from ..scoping import (scoped_functions, classify_occurrences, writer_locality, provenance, SCOPE_PARAM,
                       kwargs_keys)

META = {
    'title': 'Queries stay inside the selected lexicons and ignore unrelated ones',
    'explanation': (
        'Decides the layering clause of C04 from the program text: every read path from the database to an API '
        'object is constrained to the right lexicon set. R1: in every SELECT variant of wn/_queries.py each '
        'occurrence of a content table is bound by a conjunctive `lexicon_rowid IN <scope parameter>` filter or '
        'falls in one of four re-verified exemption classes (FK-parent of an accepted row, child rows of a '
        'filtered owner, row-keyed lookup, child table the importer attaches only to local parents). R2: every '
        'call site of a scoped query passes a scope whose provenance fits its context (element navigation -> '
        'self._get_lexicon_ids(); Wordnet search -> _lexicon_ids; expand sources -> _expanded_ids; exporter / '
        'describe -> one-tuple of a lexicon rowid). R3: element methods never navigate through the Wordnet-level '
        'id lookups. R4: default-mode scope formula. R5: Word/Sense/Synset objects are built only from rows of '
        'scoped queries or as placeholders. R7: every Word/Sense/Synset the library builds is handed the Wordnet of the object it was '
        'reached from (an omitted `_wordnet` falls back to a default-mode Wordnet()). R8 rows the importer writes are owned by the lexicon being added (C05-R7). R9 every comparison of two columns in the embedded SQL (`a.x = b.y`, `a.x IN (SELECT b.y ...)`) compares keys of ONE table (own rowid or the target of its foreign key, from the schema): a lexicon filter through a sub-select that returns rowids of another table scopes nothing. Does not decide which rows SQLite returns for a filter. R10 the default expand set derives from the selected lexicons only (C12-R4). R11 foreign keys stay enforced on the pooled connection (C05-R2).'),
    'decides': ['SQL scoping of every table occurrence', 'scope provenance at every call site',
                'navigation discipline of element methods', 'default-mode scope formula', 'constructor provenance',
                'scope recomputed per call', 'Wordnet handed on to every constructed element'],
    'not_decided': ['row sets computed by SQLite', 'which lexicons a specifier selects (C08)'],
    'assumptions': ['the importer is the only writer (C05-R3), so writer-side locality facts describe all stored rows'],
}

ELEMENT_BASE = '_LexiconElement'
# the only calls that may be scoped by the expand lexicons: finding the expand-side *sources* and their relations
EXPAND_OK = {('Synset._iter_expanded_relations', 'find_synsets'),
             ('Synset._iter_expanded_relations', 'get_synset_relations')}
# element methods that intentionally leave the element's scope: translation targets another lexicon by design
TRANSLATE_EXEMPT = {'Synset.translate': 'translation looks up a different target lexicon by construction '
                                        '(lexicon/lang arguments), guarded by the ILI (C10-R3)'}
# calls with an omitted scope that are row-keyed / lookup-only
OMITTED_OK = {
    # (query function, keyword that must be given, caller module or None for any)
    ('find_ilis', 'id', '_core'): 'Synset.ili: lookup of the shared ILI inventory by the id the synset carries',
    ('find_proposed_ilis', 'synset_rowid', None): 'row-keyed by the rowid of a synset obtained from a scoped query',
}


def _query_variants(ctx):
    for site in ctx.sites:
        if site.func.module.short != '_queries':
            continue
        for v in site.variants:
            if v.stmt is not None and v.stmt.verb == 'SELECT':
                yield site, v


def r1_sql_scoping(ctx, res):
    wl = writer_locality(ctx)
    nvar = 0
    content_seen = set()
    for site, v in _query_variants(ctx):
        func = site.func
        has_scope = SCOPE_PARAM in func.params
        if has_scope and v.facts.get(SCOPE_PARAM) is False:
            continue   # unrestricted branch: whether a caller may take it is R2's question
        nvar += 1
        for occ, status, reason in classify_occurrences(ctx, v.stmt, SCOPE_PARAM, wl):
            if status in ('cte', 'exempt-registry', 'exempt-lookup'):
                continue
            key = f'{func.key}:{occ.table} AS {occ.alias}@{_scope_label(v.stmt, occ)}'
            content_seen.add(occ.table)
            if status == 'UNFILTERED':
                cross = _cross_owner(ctx, wl, occ.table)
                res.inst(key, site.loc, f'UNFILTERED {occ.table}')
                res.find(key, site.loc,
                         f'table occurrence `{occ.table} AS {occ.alias}` in {func.qualname} is not constrained to the '
                         f'selected lexicons ({reason}); {cross}',
                         sql=' '.join(v.sql.split())[:400], scope_param=SCOPE_PARAM if has_scope else '(function has none)')
            else:
                res.inst(key, site.loc, f'{status}: {reason}')
    res.note(f'{nvar} SELECT variants of wn/_queries.py analysed; content tables seen: {sorted(content_seen)}')


def _scope_label(stmt, occ):
    if occ.scope == 0:
        return 'top'
    # label the sub-query by the token preceding its opening parenthesis (stable, no positions)
    o = stmt.group_open.get(occ.scope, 0)
    prev = stmt.toks[o - 1] if o > 0 else ''
    nth = sorted(g for g in stmt.query_groups if g).index(occ.scope) if occ.scope in stmt.query_groups else 0
    return f'sub{nth}:{prev.upper()}'


def _cross_owner(ctx, wl, table):
    crosses = [f'{t}.{c}' for (t, c), loc in wl.items() if t == table and loc == 'cross']
    if crosses:
        return (f'the importer can attach {table} rows of one lexicon to parents of another '
                f'(cross-owner FK: {", ".join(crosses)}), so rows of unselected lexicons can be returned')
    return f'{table} rows carry their own lexicon_rowid which is not compared'


# ---------------------------------------------------------------------------

def _expected_context(ctx, caller):
    """which provenance tags are acceptable at a call made from `caller`."""
    repo = ctx.repo
    if '.<locals>.' in caller.qualname:
        # a closure acts in the context of the function that defines it
        outer = caller.module.funcs.get(caller.qualname.rsplit('.<locals>.', 1)[0])
        if outer is not None:
            return _expected_context(ctx, outer)
    if caller.cls is not None:
        mro = [c.name for c in repo.mro(caller.cls)]
        if ELEMENT_BASE in mro and caller.cls.name != ELEMENT_BASE:
            return 'element', {'element'}
        if caller.cls.name == 'Wordnet':
            return 'wordnet', {'wordnet'}
        if caller.cls.name == 'Lexicon':
            return 'single', {'single'}
    if caller.module.short == '_export':
        return 'single', {'single'}
    if caller.module.short == '_core' and caller.name == '_find_helper':
        return 'wordnet', {'wordnet'}
    if caller.module.short == '_core' and caller.name == '_desc_counts':
        return 'single', {'single'}
    if caller.module.short == '_queries':
        return 'forward', {'forward'}
    return 'unknown', set()


def r2_callsite_provenance(ctx, res):
    scoped = scoped_functions(ctx)
    cg = ctx.cg
    for fkey, qf in sorted(scoped.items()):
        for caller, call in cg.callers_of(qf):
            ctxname, allowed = _expected_context(ctx, caller)
            arg = get_arg(call, qf, SCOPE_PARAM)
            key = f'{caller.key}->{qf.name}({norm(call)[:70]})'
            loc = caller.module.loc(call)
            # **kwargs dictionaries built locally (the kwargs of _find_helper)
            if arg == 'UNKNOWN':
                kwn = [kw.value for kw in call.keywords if kw.arg is None]
                arg = None
                for k in kwn:
                    if isinstance(k, ast.Name):
                        keys = kwargs_keys(caller, k.id)
                        if SCOPE_PARAM in keys:
                            arg = keys[SCOPE_PARAM]
                if arg is None:
                    res.inst(key, loc, 'scope hidden in ** splat')
                    res.find(key, loc, f'call of scoped query {qf.name} passes its scope through an unresolvable ** mapping')
                    continue
            if ctxname == 'forward':
                # internal forwarding inside wn._queries: must pass its own scope parameter through
                res.inst(key, loc, 'forward')
                ok = isinstance(arg, ast.Name) and arg.id == SCOPE_PARAM and SCOPE_PARAM in caller.params
                if not ok:
                    res.find(key, loc, f'{caller.qualname} calls scoped query {qf.name} without forwarding its own '
                                       f'`{SCOPE_PARAM}` (passes {norm(arg) if isinstance(arg, ast.AST) else arg})')
                continue
            tags = provenance(ctx, caller, arg)
            res.inst(key, loc, f'context={ctxname} provenance={sorted(tags)}')
            if tags == {'omitted'}:
                given = {kw.arg for kw in call.keywords if kw.arg}
                why = None
                for (fname, kwname, cmod), reason in OMITTED_OK.items():
                    if qf.name == fname and kwname in given and cmod in (None, caller.module.short):
                        why = reason
                if why is None:
                    res.find(key, loc, f'{caller.qualname} calls scoped query {qf.name} without a lexicon scope '
                                       f'(searches every installed lexicon)')
                continue
            extra = set()
            if (caller.qualname, qf.name) in EXPAND_OK:
                extra = {'expand'}   # expand sources only (C12)
            bad = {t for t in tags if t not in allowed | extra}
            if bad or not tags:
                res.find(key, loc,
                         f'scope passed to {qf.name} from {caller.qualname} has provenance {sorted(tags)}; '
                         f'context `{ctxname}` requires {sorted(allowed | extra) or "a recognised scope"}',
                         argument=norm(arg) if isinstance(arg, ast.AST) else str(arg))


# ---------------------------------------------------------------------------

def _element_classes(ctx):
    core = ctx.repo.mod('_core')
    base = core.classes.get(ELEMENT_BASE)
    if base is None:
        raise AnalysisError(f'anchor vanished: class {ELEMENT_BASE} in wn/_core.py')
    return [c for c in ctx.repo.subclasses(base) if c is not base]


WORDNET_LOOKUPS = {'word', 'words', 'sense', 'senses', 'synset', 'synsets', 'ili', 'ilis'}


def r3_navigation(ctx, res):
    """element methods must not navigate through Wordnet-level lookups (they search all selected lexicons)."""
    core = ctx.repo.mod('_core')
    n = 0
    for cls in _element_classes(ctx):
        for m in cls.methods.values():
            n += 1
            key = f'{m.key}'
            bad = []
            for node in walk_no_nested(m.node):
                if isinstance(node, ast.Call) and isinstance(node.func, ast.Attribute) and node.func.attr in WORDNET_LOOKUPS:
                    recv = node.func.value
                    if is_self_attr(recv, '_wordnet') or (isinstance(recv, ast.Name) and _is_wordnet_local(m, recv.id)):
                        bad.append(node)
                if isinstance(node, ast.Call) and isinstance(node.func, ast.Name) and node.func.id in WORDNET_LOOKUPS \
                        and node.func.id in core.funcs and m.qualname not in TRANSLATE_EXEMPT:
                    bad.append(node)
            res.inst(key, m.module.loc(m.node), 'element method')
            for node in bad:
                res.find(f'{m.key}:{norm(node)[:60]}', m.module.loc(node),
                         f'{m.qualname} navigates with the Wordnet-level lookup `{norm(node)[:60]}`, which searches '
                         f'all selected lexicons (every installed lexicon in default mode) instead of the '
                         f"element's own scope self._get_lexicon_ids()")
    if n == 0:
        raise AnalysisError('no element methods found')


def _is_wordnet_local(m, name):
    for s in binding_sites(m.node, name):
        if s[0] == 'assign' and is_self_attr(s[1], '_wordnet'):
            return True
    return False


def r4_default_formula(ctx, res):
    f = ctx.repo.func('_core', f'{ELEMENT_BASE}._get_lexicon_ids')
    loc = f.module.loc(f.node)
    key = f.key
    res.inst(key, loc, 'default-mode scope formula')
    from ..speccheck import view
    v = view(ctx, '_core', f'{ELEMENT_BASE}._get_lexicon_ids')
    rets = [r for r in v.rows if r[0] == 'return']
    rets_t = [r for r in rets if r[2] == frozenset({'self._wordnet._default_mode'})]
    rets_f = [r for r in rets if r[2] == frozenset({'not self._wordnet._default_mode'})]
    if len(rets) != 2 or len(rets_t) != 1 or len(rets_f) != 1:
        res.find(key, loc, f'_get_lexicon_ids no longer branches on self._wordnet._default_mode with one result per mode: '
                           f'{[(r[1][:60], sorted(r[2])) for r in rets]}')
        return
    leaves = set()
    tv = rets_t[0][4].rhs
    for n in ast.walk(tv):
        if isinstance(n, ast.Call) and isinstance(n.func, ast.Name) and n.func.id.startswith('get_lexicon_'):
            args = [norm(a) for a in n.args] + [f'{k.arg}={norm(k.value)}' for k in n.keywords]
            leaves.add(f'{n.func.id}({",".join(args)})')
    inner_calls = {id(x) for n in ast.walk(tv) if isinstance(n, ast.Call) and isinstance(n.func, ast.Name) and n.func.id.startswith('get_lexicon_')
                   for x in ast.walk(n)}
    for n in ast.walk(tv):
        if id(n) in inner_calls:
            continue
        if is_self_attr(n, '_lexid'):
            leaves.add('self._lexid')
        elif isinstance(n, ast.Attribute) and not is_self_attr(n, '_lexid') and not is_self_attr(n):
            leaves.add(norm(n))
    want = {'self._lexid', 'get_lexicon_extension_bases(self._lexid)', 'get_lexicon_extensions(self._lexid)'}
    # all three are always part of the scope: none of them may sit under `or` / `and` / a conditional expression
    for n in ast.walk(tv):
        if isinstance(n, (ast.BoolOp, ast.IfExp)) and any(isinstance(x, ast.Call) and isinstance(x.func, ast.Name) and x.func.id.startswith('get_lexicon_')
                                                          or is_self_attr(x, '_lexid') for x in ast.walk(n)):
            res.find(key + ':combination', loc, f'the default-mode scope combines its parts with `{norm(n)[:90]}`: the bases and the extensions of the '
                                                f"entity's lexicon (and the lexicon itself) must all be in scope at once - with `or` a lexicon in the "
                                                f'middle of a chain of extensions loses one direction, and the inverse navigations disagree')
            break
    if leaves != want:
        res.find(key, loc, f'default-mode scope is built from {sorted(leaves)}; the property requires exactly the '
                           f"entity's own lexicon, all its extension bases and all its extensions {sorted(want)}")
    if rets_f[0][1] != 'self._wordnet._lexicon_ids':
        res.find(key + ':restricted', loc, f'restricted-mode scope is `{rets_f[0][1]}`, expected self._wordnet._lexicon_ids')
    # the two recursive extension queries must be unbounded by default
    for name in ('get_lexicon_extension_bases', 'get_lexicon_extensions'):
        qf = ctx.repo.func('_queries', name)
        from ..sqlx import _default_of
        d = _default_of(qf, 'depth')
        res.inst(f'{qf.key}:depth-default', qf.module.loc(qf.node), 'unbounded default depth')
        if d is None or not (isinstance(d, ast.UnaryOp) and isinstance(d.op, ast.USub)) and not (
                isinstance(d, ast.Constant) and isinstance(d.value, int) and d.value < 0):
            res.find(f'{qf.key}:depth-default', qf.module.loc(qf.node),
                     f'{name} no longer defaults to unbounded depth (default {norm(d) if d is not None else "none"})')


# ---------------------------------------------------------------------------

def r5_constructor_provenance(ctx, res):
    """every Word/Sense/Synset construction takes its row from a scoped query or is a placeholder."""
    scoped = scoped_functions(ctx)
    scoped_names = {f.name for f in scoped.values()} | {'get_entry_senses', 'get_synset_members'}
    qmod = ctx.repo.mod('_queries')
    for name in list(scoped_names):
        if name not in qmod.funcs:
            scoped_names.discard(name)
    targets = {'Word', 'Sense', 'Synset'}
    count = 0
    for func in ctx.repo.all_funcs():
        if func.module.short in ('lmf', 'validate', '_add'):
            continue
        for node in walk_no_nested(func.node):
            if not isinstance(node, ast.Call):
                continue
            cname = None
            if isinstance(node.func, ast.Name) and node.func.id in targets | {'cls'}:
                cname = node.func.id
            if cname is None:
                continue
            if cname == 'cls':
                if func.qualname == 'Synset.empty':
                    continue
                if not _cls_is_entity(ctx, func, targets):
                    continue
            c = ctx.repo.resolve_class(func.module, cname) if cname != 'cls' else True
            if c is None or (c is not True and c.module.short != '_core'):
                continue
            count += 1
            key = f'{func.key}:{norm(node)[:70]}'
            loc = func.module.loc(node)
            ok, why = _row_from_scoped(ctx, func, node, scoped_names)
            res.inst(key, loc, why)
            if not ok:
                res.find(key, loc, f'{cname}(...) in {func.qualname} is not built from a row of a lexicon-scoped query: {why}')
    if count == 0:
        raise AnalysisError('no entity constructions found')


def _cls_is_entity(ctx, func, targets):
    for p in func.param_nodes():
        if p.arg == 'cls' and p.annotation is not None:
            return True
    return func.cls is not None and func.cls.name in targets


def _wordnet_position(ctx, func, call):
    """index of the positional parameter `_wordnet` in the constructor of the class being built (None when keyword-only / unknown)"""
    if not isinstance(call.func, ast.Name):
        return None
    c = ctx.repo.resolve_class(func.module, call.func.id) if call.func.id != 'cls' else func.cls
    if c is None:
        return None
    for k in ctx.repo.mro(c):
        init = k.methods.get('__init__')
        if init is not None:
            params = [a.arg for a in init.node.args.posonlyargs + init.node.args.args][1:]
            return params.index('_wordnet') if '_wordnet' in params else None
    return None


def _row_from_scoped(ctx, func, call, scoped_names):
    wpos = _wordnet_position(ctx, func, call)
    data_args = [a for i, a in enumerate(call.args)
                 if not (wpos is not None and i == wpos and not any(isinstance(x, ast.Starred) for x in call.args[:i + 1]))]
    data_kw = [k.value for k in call.keywords if k.arg not in ('_wordnet',)]
    names = []
    for a in data_args + data_kw:
        inner = a.value if isinstance(a, ast.Starred) else a
        if isinstance(inner, ast.Call) and isinstance(inner.func, ast.Name) and inner.func.id == 'next' and inner.args:
            inner = inner.args[0]
        if isinstance(inner, ast.Name):
            names.append(inner.id)
        elif isinstance(inner, ast.Attribute) or isinstance(inner, ast.Constant):
            continue
        else:
            for n in ast.walk(inner):
                if isinstance(n, ast.Name):
                    names.append(n.id)
    names = [n for n in names if n not in ('self', '_wn', 'w')]
    if not names:
        return False, 'no row data'
    for nm in names:
        ok, why = _name_from_scoped(ctx, func, nm, scoped_names, 0)
        if not ok:
            return False, f'`{nm}`: {why}'
    return True, f'row variables {names} come from scoped queries'


def _name_from_scoped(ctx, func, nm, scoped_names, depth):
    if depth > 4:
        return False, 'depth'
    sites = binding_sites(func.node, nm)
    if not sites:
        return False, 'unbound'
    for s in sites:
        kind = s[0]
        if kind in ('for', 'comp'):
            it = s[1]
        elif kind == 'assign':
            it = s[1]
        elif kind == 'param':
            # a private helper that receives the rows: every call site must pass rows of a scoped query
            callers = ctx.cg.callers_of(func) if func.name.startswith('_') and func.cls is None else []
            if not callers:
                return False, 'parameter'
            from ..pyutil import get_arg
            for caller, call in callers:
                arg = get_arg(call, func, nm)
                if not isinstance(arg, ast.AST):
                    return False, f'parameter `{nm}` not passed by {caller.qualname}'
                ok, why = _iter_is_scoped(ctx, caller, arg, scoped_names, depth + 1)
                if not ok:
                    return False, f'parameter `{nm}` <- {caller.qualname}: {why}'
            continue
        else:
            return False, kind
        ok, why = _iter_is_scoped(ctx, func, it, scoped_names, depth)
        if not ok:
            return False, why
    return True, 'ok'


def _iter_is_scoped(ctx, func, it, scoped_names, depth):
    while isinstance(it, ast.Call) and isinstance(it.func, ast.Name) and it.func.id in ('list', 'iter', 'next', 'reversed') and it.args:
        it = it.args[0]
    if isinstance(it, ast.Call):
        cal = ctx.cg.resolve_call(func, it)
        if cal and all(c.module.short == '_queries' and c.name in scoped_names for c in cal):
            return True, 'scoped query'
        return False, f'`{norm(it)[:50]}` is not a scoped query call'
    if isinstance(it, ast.Name):
        return _name_from_scoped(ctx, func, it.id, scoped_names, depth + 1)
    return False, f'`{norm(it)[:50]}`'


def r6_scope_recomputed(ctx, res):
    """the scope of a query is recomputed from the database on every call: no memoisation / module-level cache in the query
    layer and the entity classes (a cached extension chain or lexicon list survives remove()/add() and rowid reuse)."""
    from .c16 import hidden_state_subset
    n = hidden_state_subset(ctx, res, ('_queries', '_core', '_db'), 'scope-fresh')
    if n < 150:
        raise AnalysisError(f'only {n} functions of the query layer examined for hidden state')


def _wordnet_valued(func, e, depth=0):
    """is `e` the Wordnet an element was created by: self._wordnet / x._wordnet, `self` inside class Wordnet, a parameter named
    _wordnet or annotated Wordnet, or a local bound to one of these"""
    if isinstance(e, ast.Attribute) and e.attr == '_wordnet':
        return True
    if isinstance(e, ast.Name):
        if e.id == 'self' and func.cls is not None and func.cls.name == 'Wordnet':
            return True
        for p in func.param_nodes():
            if p.arg == e.id:
                return p.arg == '_wordnet' or (p.annotation is not None and 'Wordnet' in norm(p.annotation))
        if depth < 3:
            vals = [s[1] for s in binding_sites(func.node, e.id) if s[0] == 'assign']
            return bool(vals) and all(_wordnet_valued(func, v, depth + 1) for v in vals)
    return False


def r7_wordnet_handed_on(ctx, res):
    """every Word / Sense / Synset that the library builds is bound to the Wordnet of the object it was reached from: the
    constructors fall back to a fresh default-mode Wordnet() when `_wordnet` is omitted, and navigation from such an object
    (senses, words, relations, closures) silently uses the default scope and expand set instead of the selected lexicons."""
    targets = {'Word', 'Sense', 'Synset'}
    n = 0
    for func in ctx.repo.all_funcs():
        if func.module.short in ('lmf', 'validate', '_add', '_export'):
            continue
        for node in walk_no_nested(func.node):
            if not isinstance(node, ast.Call):
                continue
            is_empty = isinstance(node.func, ast.Attribute) and node.func.attr == 'empty' and norm(node.func.value).split('.')[-1] in targets
            is_ctor = isinstance(node.func, ast.Name) and (node.func.id in targets or (node.func.id == 'cls' and _cls_is_entity(ctx, func, targets)))
            if not (is_empty or is_ctor):
                continue
            if is_ctor and node.func.id != 'cls':
                c = ctx.repo.resolve_class(func.module, node.func.id)
                if c is None or c.module.short != '_core':
                    continue
            n += 1
            key = f'wordnet-handed-on:{func.key}:{norm(node)[:60]}'
            loc = func.module.loc(node)
            given = [k.value for k in node.keywords if k.arg == '_wordnet']
            if not given and is_ctor:
                wpos = _wordnet_position(ctx, func, node)
                pos = [a for a in node.args if not isinstance(a, ast.Starred)]
                if wpos is not None and not any(isinstance(a, ast.Starred) for a in node.args) and len(node.args) > wpos:
                    given = [node.args[wpos]]
                elif any(isinstance(a, ast.Starred) for a in node.args) and pos and _wordnet_valued(func, node.args[-1]):
                    given = [node.args[-1]]          # Word(*row, self._wordnet): the row fills the leading parameters
            ok = bool(given) and all(_wordnet_valued(func, g) for g in given)
            res.inst(key, loc, f'_wordnet = {norm(given[0]) if given else "<omitted>"}')
            if not ok:
                res.find(key, loc, f'{norm(node)[:80]} in {func.qualname} ' + ('does not pass `_wordnet`' if not given else
                                   f'passes `{norm(given[0])}` as `_wordnet`, which is not the Wordnet of the object it is reached from')
                                   + ': the new object falls back to a default-mode Wordnet() and navigation from it leaves the selected lexicons')
    if n < 12:
        raise AnalysisError(f'only {n} constructions of Word/Sense/Synset found')


def r8_rows_owned_by_the_lexicon_being_added(ctx, res):
    """the lexicon filter of every query compares `lexicon_rowid`: it is only as good as the owner the importer records.
    Every row written into a table with a lexicon_rowid column is owned by the lexicon being added (C05-R7) - a form of an
    extension recorded under the base lexicon's rowid is found by a Wordnet restricted to the base."""
    from .c05 import r7_ownership
    r7_ownership(ctx, res)


def key_domain(schema, table, col):
    """the key a column holds: its own table's rowid, or the (table, column) its foreign key refers to; None for plain data"""
    if col == 'rowid':
        return (table, 'rowid')
    c = schema.col(table, col) if table in schema.tables else None
    if c is not None and c.pk and c.type == 'INTEGER':
        return (table, 'rowid')
    for fk in schema.fks:
        if fk.table == table and fk.column == col:
            return (fk.ref_table, fk.ref_column)
    return None


def key_domains_agree(ctx, res, prefix='keys', modules=None, floor=300):
    """every comparison of two columns in the embedded SQL - `a.x = b.y` in ON / WHERE, `a.x IN (SELECT b.y ...)` - compares
    keys of ONE table: a lexicon filter applied through a sub-select scopes nothing if the sub-select hands back the rowids
    of a different table (ilis.rowid where synsets.rowid is expected: both are integers, SQLite compares them happily)."""
    sc = ctx.schema
    n = 0
    for site in ctx.sites:
        if modules is not None and site.func.module.short not in modules:
            continue
        for vi, v in enumerate(site.variants):
            for (lt, lc), (rt, rc), i in v.stmt.key_comparisons(sc):
                n += 1
                dl, dr = key_domain(sc, lt, lc), key_domain(sc, rt, rc)
                key = f'{prefix}:{site.func.key}:{lt}.{lc}~{rt}.{rc}'
                res.inst(key, site.loc, f'{dl} ~ {dr}')
                if dl != dr and (dl is not None or dr is not None):
                    res.find(key, site.loc,
                             f'{site.func.qualname} compares {lt}.{lc} (a key of {dl[0] if dl else "no table: plain data"}) with '
                             f'{rt}.{rc} (a key of {dr[0] if dr else "no table: plain data"}): rowids of different tables are '
                             f'matched by accident of numbering - the rows selected, and any lexicon scope applied through this '
                             f'comparison, are arbitrary')
    if n < floor:
        raise AnalysisError(f'only {n} column comparisons found in the embedded SQL')


def r9_key_domains_agree(ctx, res):
    key_domains_agree(ctx, res)


def r10_default_expand_from_the_selection_only(ctx, res):
    """what a restricted Wordnet borrows from is derived from the lexicons it SELECTS: the default expand set is the installed
    declared dependencies of exactly those (C12-R4) - not of their extensions or bases, whose presence must not change results."""
    from .c12 import r4_default_expand
    r4_default_expand(ctx, res)

def r11_foreign_keys_stay_enforced(ctx, res):
    """scoping by lexicon_rowid presupposes that a removed lexicon takes its rows with it: foreign keys are switched on when a
    connection is opened and never off afterwards (C05-R2) - with enforcement off, remove() leaves the content rows behind and the
    next lexicon that reuses the rowid inherits them."""
    from .c05 import r2_fk_enforcement
    r2_fk_enforcement(ctx, res)

RULES = [
    ('C04-R1', r1_sql_scoping, 40),
    ('C04-R2', r2_callsite_provenance, 30),
    ('C04-R3', r3_navigation, 30),
    ('C04-R4', r4_default_formula, 3),
    ('C04-R5', r5_constructor_provenance, 8),
    ('C04-R6', r6_scope_recomputed, 150),
    ('C04-R7', r7_wordnet_handed_on, 12),
    ('C04-R8', r8_rows_owned_by_the_lexicon_being_added, 12),
    ('C04-R9', r9_key_domains_agree, 300),
    ('C04-R10', r10_default_expand_from_the_selection_only, 5),
    ('C04-R11', r11_foreign_keys_stay_enforced, 3),
]
