"""C03 — exporting a database and re-importing it preserves the lexicons (structural agreement)."""
from __future__ import annotations
import ast
from ..pat import Frag
from ..src import norm, walk_no_nested, AnalysisError
from ..consts import const, Unknown
from ..pyutil import parents, binding_sites, get_arg
from ..vguard import version_guard_of, call_chain_guards, _neg
from .c02 import VERSIONED_KEYS, CLASS_VERSION

META = {
    'title': 'Exporting a database and re-importing it preserves the lexicons',
    'technique': 'exporter <-> model key coverage; version-guard contradiction rule over local containers across calls; provenance of metadata rowids; effect summaries (name-free normal form of a function: locals inlined, positional loop variables, cells, comprehension = loop, helpers expanded) of export(), _precheck and _export_synsets',
    'explanation': (
        'Observational identity of databases is not statically decidable. Decided: R1 every key of every non-extension model '
        'class is produced by the exporter function for that element, under a version condition compatible with the one under '
        'which lmf.dump writes it; R2 version-guard consistency (contradiction rule): for every local container, the version '
        'conditions under which it is populated and those under which it is read - following it through call arguments - are '
        'jointly satisfiable (a map filled only for < 1.1 and read only for >= 1.1 is a finding: that is how sense-frame links '
        'were lost); R3 every _export_metadata(rowid, T) passes a sanitized table name T and a rowid that is the rowid column '
        'of T in the query row it was unpacked from; R4 every query the exporter issues is scoped by the one-tuple of the '
        'exported lexicon rowid (C04-R2); R5 export() runs _precheck before building anything and writes through lmf.dump; '
        'R9 a synset\'s members and an entry\'s senses are drawn per owner from the rank-ordered queries; R8 no comparison in the exporter tests a stored value against a constant (the exported content of an element does not depend on its part of speech, type, ...). R10 the exporter\'s output goes through the writer analysis of C02-R5 (values quoted by quoteattr / ElementTree). R11 every query reachable from export() is lexicon-scoped (C04-R1 on that call graph). R12 every frame written under version >= 1.1 has an identity a <Sense subcat> can refer to (a nullable id written as \'\' with no senses list is a frame whose links are lost). R13 belief analysis: a query-result position that one consumer in the exporter guards with `or` / a truth test may be absent, so no other consumer - directly or through a table handed to a helper - may order or join it unfiltered (TypeError on None). R15 the writer\'s metadata table is complete (C02-R4). R16 the rows the exporter is handed have the prescribed columns and joins (C01-R7). R17 the writer\'s attributes reach their element (C02-R11).'),
    'decides': ['exporter key coverage', 'version-guard consistency', 'metadata provenance', 'single-lexicon scoping', 'precheck first',
                'exporter never switches on stored values', 'declared order of members / senses exported',
                'frames written for 1.1+ are referable', 'possibly absent ids are filtered before sorted()/join'],
    'not_decided': ['value-level reconstruction (e.g. ili="in" for a proposed ILI without definition)', 'equality of re-imported databases'],
    'assumptions': [],
}

# model class -> exporter functions that build it
PRODUCERS = {
    'Lexicon': ['_export_lexicon'],
    'Dependency': ['_export_requires'],
    'LexicalEntry': ['_export_lexical_entries'],
    'Lemma': ['_export_lexical_entries'],
    'Form': ['_export_lexical_entries'],
    'Pronunciation': ['_export_pronunciations'],
    'Tag': ['_export_tags'],
    'Sense': ['_export_senses'],
    'Relation': ['_export_sense_relations', '_export_synset_relations'],
    'Example': ['_export_examples'],
    'Count': ['_export_counts'],
    'Synset': ['_export_synsets'],
    'Definition': ['_export_definitions'],
    'ILIDefinition': ['_export_ili_definition'],
    'SyntacticBehaviour': ['_export_syntactic_behaviours_1_0', '_export_syntactic_behaviours_1_1'],
    'LexicalResource': ['export'],
}
EACH_PRODUCER = {'Relation'}       # every listed function must produce all keys
# which display inside the function is the element (by a key only that element has)
MARKER_KEY = {'Lemma': 'partOfSpeech', 'Form': 'writtenForm', 'LexicalEntry': 'lemma'}


def _displays(f):
    """dict displays of a function with their variable (if assigned) and the constant-key stores on that variable."""
    out = []
    for n in walk_no_nested(f.node):
        if isinstance(n, ast.Dict) and n.keys and all(isinstance(k, ast.Constant) for k in n.keys):
            var = None
            par = getattr(n, '_parent', None)
            if isinstance(par, (ast.Assign, ast.AnnAssign)):
                tg = par.targets[0] if isinstance(par, ast.Assign) else par.target
                if isinstance(tg, ast.Name):
                    var = tg.id
            keys = {k.value: (version_guard_of(f, n), n) for k in n.keys}
            out.append((n, var, keys))
    for n in walk_no_nested(f.node):
        if isinstance(n, ast.Assign):
            for t in n.targets:
                if isinstance(t, ast.Subscript) and isinstance(t.slice, ast.Constant) and isinstance(t.slice.value, str):
                    base = t.value
                    for d, var, keys in out:
                        if var is not None and isinstance(base, ast.Name) and base.id == var:
                            keys.setdefault(t.slice.value, (version_guard_of(f, n), n))
                        # entry['lemma']['pronunciations'] = ... -> store into the nested display under key 'lemma'
                        if isinstance(base, ast.Subscript) and isinstance(base.value, ast.Name) and base.value.id == var \
                                and isinstance(base.slice, ast.Constant):
                            for k2, v2 in zip(d.keys, d.values):
                                if k2.value == base.slice.value and isinstance(v2, ast.Dict):
                                    for d3, var3, keys3 in out:
                                        if d3 is v2:
                                            keys3.setdefault(t.slice.value, (version_guard_of(f, n), n))
    return out


def r1_coverage(ctx, res):
    model = ctx.model
    exp = ctx.repo.mod('_export')
    n = 0
    for cls, fnames in PRODUCERS.items():
        per_func = []
        for fn in fnames:
            f = ctx.repo.func('_export', fn)
            ds = _displays(f)
            # records may be built in private helpers of the exporter (not themselves producers of another element)
            allprod = {x for v_ in PRODUCERS.values() for x in v_}
            seen_h, todo = set(), [(f, 0)]
            while todo:
                g, dp = todo.pop()
                for call, cal in ctx.cg.callees(g):
                    for c in cal:
                        if c.module.short == '_export' and c.name not in allprod and c.key not in seen_h and dp < 2 and c.name.startswith('_export_'):
                            seen_h.add(c.key)
                            ds = ds + _displays(c)
                            todo.append((c, dp + 1))
            cand = []
            for d, var, keys in ds:
                mk = MARKER_KEY.get(cls)
                if mk is not None:
                    if mk in keys:
                        cand.append(keys)
                else:
                    # the display with the largest overlap with the class keys
                    cand.append(keys)
            if not cand:
                per_func.append((f, {}))
                continue
            best = max(cand, key=lambda ks: len(set(ks) & set(model.classes[cls])))
            per_func.append((f, best))
        for k in model.classes[cls]:
            n += 1
            key = f'exports:{cls}.{k}'
            loc = exp.loc(per_func[0][0].node)
            res.inst(key, loc, f'produced by {fnames}')
            if cls in EACH_PRODUCER:
                missing = [f.qualname for f, ks in per_func if k not in ks]
            elif cls == 'SyntacticBehaviour':
                # 1.0 frames carry senses, 1.1 frames carry the id; the frame string is in both
                missing = []
                want_in = {'subcategorizationFrame': [0, 1], 'senses': [0], 'id': [1]}[k]
                for i in want_in:
                    if k not in per_func[i][1]:
                        missing.append(per_func[i][0].qualname)
            else:
                missing = [] if any(k in ks for _, ks in per_func) else [f.qualname for f, _ in per_func]
            if missing:
                res.find(key, loc, f'the exporter ({", ".join(missing)}) never produces {cls}.{k}: that part of the stored lexicon is not '
                                   f'exported')
                continue
            want = VERSIONED_KEYS.get((cls, k), CLASS_VERSION.get(cls, 'any'))
            if want in (None, 'any'):
                # must be produced on some path that is not restricted to one version
                gs = {ks[k][0] or call_chain_guards(ctx, f) for f, ks in per_func if k in ks}
                if gs and all(g in ('>=1.1', '<1.1') for g in gs) and len(gs) == 1:
                    res.find(key + ':guard', loc, f'{cls}.{k} exists in every WN-LMF version but the exporter produces it only under {sorted(gs)}')
            else:
                for f, ks in per_func:
                    if k in ks:
                        g = ks[k][0] or call_chain_guards(ctx, f)
                        if g is not None and g == _neg(want):
                            res.find(key + ':guard', exp.loc(ks[k][1]), f'{cls}.{k} is only expressible in versions {want} but the exporter produces '
                                                                        f'it under {g}')
    if n < 75:
        raise AnalysisError(f'only {n} model keys checked against the exporter')


# ---------------------------------------------------------------------------
# R2: guard consistency of local containers

MUTATING = {'append', 'extend', 'add', 'update', 'setdefault', 'insert'}


def _is_empty_container(v):
    if isinstance(v, (ast.Dict, ast.List, ast.Set)) and not (getattr(v, 'keys', None) or getattr(v, 'elts', None)):
        return True
    if isinstance(v, ast.Call) and norm(v.func) in ('dict', 'list', 'set') and not v.args and not v.keywords:
        return True
    return False


def _populations(f, name):
    out = []
    for n in walk_no_nested(f.node):
        if isinstance(n, ast.Call) and isinstance(n.func, ast.Attribute) and n.func.attr in MUTATING:
            base = n.func.value
            while isinstance(base, (ast.Call, ast.Attribute, ast.Subscript)):
                base = base.func if isinstance(base, ast.Call) else base.value
            if isinstance(base, ast.Name) and base.id == name:
                out.append(n)
        if isinstance(n, (ast.Assign, ast.AugAssign)):
            tg = n.targets if isinstance(n, ast.Assign) else [n.target]
            for t in tg:
                if isinstance(t, ast.Subscript):
                    b = t.value
                    while isinstance(b, ast.Subscript):
                        b = b.value
                    if isinstance(b, ast.Name) and b.id == name:
                        out.append(n)
    return out


def _reads(ctx, f, name, outer_guard, depth=0, seen=None):
    """(function, node, effective guard) of every read of container `name` in f and, through arguments, in callees."""
    seen = seen or set()
    out = []
    if depth > 4 or (f.key, name) in seen:
        return out
    seen = seen | {(f.key, name)}
    pops = {id(x) for p in _populations(f, name) for x in ast.walk(p)}
    for n in walk_no_nested(f.node):
        if isinstance(n, ast.Name) and n.id == name and isinstance(n.ctx, ast.Load) and id(n) not in pops:
            par = getattr(n, '_parent', None)
            g = version_guard_of(f, n) or outer_guard
            if isinstance(par, ast.Call) and n in par.args or (isinstance(par, ast.keyword)):
                call = par if isinstance(par, ast.Call) else getattr(par, '_parent', None)
                for c in ctx.cg.resolve_call(f, call) if isinstance(call, ast.Call) else []:
                    params = c.params
                    pname = None
                    if isinstance(par, ast.keyword):
                        pname = par.arg
                    else:
                        idx = call.args.index(n)
                        skip = 1 if c.cls is not None and params and params[0] in ('self', 'cls') else 0
                        if idx + skip < len(params):
                            pname = params[idx + skip]
                    if pname and c.module.short == '_export':
                        out.extend(_reads(ctx, c, pname, g, depth + 1, seen))
                continue
            if isinstance(par, ast.Return):
                continue
            out.append((f, n, g))
    return out


def r2_guard_consistency(ctx, res):
    exp = ctx.repo.mod('_export')
    n = 0
    for f in exp.funcs.values():
        for s in walk_no_nested(f.node):
            if not isinstance(s, (ast.Assign, ast.AnnAssign)) or s.value is None or not _is_empty_container(s.value):
                continue
            tg = s.targets[0] if isinstance(s, ast.Assign) else s.target
            if not isinstance(tg, ast.Name):
                continue
            name = tg.id
            pops = _populations(f, name)
            if not pops:
                continue
            n += 1
            pg = {version_guard_of(f, p) for p in pops}
            key = f'container:{f.key}:{name}'
            reads = _reads(ctx, f, name, None)
            res.inst(key, exp.loc(s), f'populated under {sorted(str(g) for g in pg)}, {len(reads)} reads')
            if len(pg) == 1 and None not in pg:
                g = next(iter(pg))
                bad = [(rf, rn, rg) for rf, rn, rg in reads if rg == _neg(g)]
                ok = [(rf, rn, rg) for rf, rn, rg in reads if rg != _neg(g)]
                for rf, rn, rg in bad:
                    stmt = rn
                    while getattr(stmt, '_parent', None) is not None and not isinstance(stmt, ast.stmt):
                        stmt = stmt._parent
                    res.find(f'{key}->{rf.qualname}:{norm(stmt)[:50]}', rf.module.loc(rn),
                             f'`{name}` is populated only when the LMF version is {g} ({f.qualname}) but is read in {rf.qualname} only when it is '
                             f'{rg}: on that path the container is always empty, so whatever it should contribute (here: `{norm(stmt)[:70]}`) '
                             f'is silently lost from the export')
    if n < 3:
        raise AnalysisError(f'only {n} local containers found in wn/_export.py')


# ---------------------------------------------------------------------------

def r3_metadata_provenance(ctx, res):
    from .c01 import SELECT_LISTS, _query_of
    exp = ctx.repo.mod('_export')
    tables = const(ctx.repo, '_queries', '_SANITIZED_METADATA_TABLES')
    if isinstance(tables, Unknown):
        raise AnalysisError('cannot fold _SANITIZED_METADATA_TABLES')
    em = ctx.repo.func('_export', '_export_metadata')
    n = 0
    for caller, call in ctx.cg.callers_of(em):
        n += 1
        key = f'metadata:{caller.qualname}:{norm(call)[:60]}'
        res.inst(key, caller.module.loc(call), norm(call))
        if len(call.args) != 2:
            res.find(key, caller.module.loc(call), 'unexpected arguments to _export_metadata')
            continue
        rowid_e, table_e = call.args
        tvals = _table_values(ctx, caller, table_e)
        if not tvals:
            res.find(key, caller.module.loc(call), f'cannot resolve the table argument `{norm(table_e)}`')
            continue
        for t in tvals:
            if t not in tables:
                res.find(key, caller.module.loc(call), f'_export_metadata is asked for table {t!r}, which is not a metadata table')
        # provenance of the rowid
        col = _rowid_column(ctx, caller, rowid_e, call)
        if col is None:
            res.find(key, caller.module.loc(call), f'cannot trace the rowid `{norm(rowid_e)}` to a query column')
            continue
        for t in tvals:
            want = {f'{t}.rowid', '$.rowid', f'{t}._id'}
            if col not in want:
                res.find(key, caller.module.loc(call),
                         f'_export_metadata({norm(rowid_e)}, {t!r}) receives {col}: the metadata of a different row/table is exported')
    if n < 8:
        raise AnalysisError(f'only {n} metadata lookups found in the exporter')
    # find_entries yields (_id, _pos, wordforms, lexid, rowid) with rowid = entries.rowid
    fe = ctx.repo.func('_queries', 'find_entries')
    key = 'find_entries-yield'
    import re as _re
    from ..speccheck import view
    fv = view(ctx, '_queries', 'find_entries')
    res.inst(key, fe.module.loc(fe.node), 'yield (id, pos, forms, lexicon rowid, entry rowid) per group of the first four columns')
    ys = [r for r in fv.rows if r[0] == 'yield']
    ok = len(ys) == 1 and len(ys[0][3]) == 1 and 'groupby(' in ys[0][3][0]
    if ok:
        m = _re.match(r'^\((.+)\[2\], (.+)\[3\], (#\d+), (.+)\[0\], (.+)\[1\]\)$', ys[0][1])
        ok = bool(m) and len({m.group(1), m.group(2), m.group(4), m.group(5)}) == 1 \
            and m.group(1) in ('$1[0]', 'cast(tuple[int, int, str, str], $1[0])')
        if ok:
            forms = [r for r in fv.rows if r[0] == 'call' and r[1] == f'{m.group(3)}.append(($2[4], $2[5], $2[6], $2[7]))']
            ok = len(forms) == 1 and len(forms[0][3]) == 2 and forms[0][3][1] == 'for $1[1]'
        gtext = ys[0][3][0]
        keyed = '_1[0:4]' in gtext
        if not keyed:
            mk = _re.search(r'groupby\(.*, (?:key=)?(\w+)\)$', gtext)
            if mk and mk.group(1) in fe.module.funcs:
                kv = view(ctx, '_queries', mk.group(1))
                p0 = kv.f.params[0] if kv.f.params else '?'
                keyed = [r[1] for r in kv.rows if r[0] == 'return'] == [f'{p0}[0:4]']
        ok = ok and keyed
    if not ok:
        res.find(key, fe.module.loc(fe.node), f'find_entries no longer regroups its rows as (id, pos, forms, lexicon rowid, entry rowid), '
                                              f'grouped by the first four columns: {[r[1][:100] for r in ys]}')


def _table_values(ctx, func, e):
    if isinstance(e, ast.Constant) and isinstance(e.value, str):
        return [e.value]
    if isinstance(e, ast.JoinedStr):
        names = [n.id for n in ast.walk(e) if isinstance(n, ast.Name)]
        if len(names) == 1 and names[0] in func.params:
            from ..sqlx import _callsite_strings
            from ..consts import evaluate
            vals = _callsite_strings(ctx.repo, func).get(names[0]) or []
            out = []
            for v in vals:
                r = evaluate(e, {names[0]: v})
                if isinstance(r, str):
                    out.append(r)
            return out
    return []


YIELDS = {'find_entries': ['entries.id', 'entries.pos', 'forms', 'entries.lexicon_rowid', 'entries.rowid'],
          'get_entry_senses': None, 'get_synset_members': None}


def _rowid_column(ctx, func, e, call):
    from .c01 import SELECT_LISTS
    if isinstance(e, ast.Attribute) and e.attr == '_id':
        return 'lexicons._id' if 'lexicon' in norm(e.value) else f'{norm(e.value)}._id'
    if not isinstance(e, ast.Name):
        return None
    # innermost binding of the name that encloses the call (comprehension target), else function-level bindings
    cands = []
    for p in parents(call):
        if isinstance(p, (ast.ListComp, ast.GeneratorExp, ast.SetComp, ast.DictComp)):
            for g in p.generators:
                if e.id in {x.id for x in ast.walk(g.target) if isinstance(x, ast.Name)}:
                    cands.append((g.target, g.iter))
        if isinstance(p, ast.For) and e.id in {x.id for x in ast.walk(p.target) if isinstance(x, ast.Name)}:
            cands.append((p.target, p.iter))
        if cands:
            break
    if not cands:
        for s in binding_sites(func.node, e.id):
            if s[0] == 'unpack':
                cands.append((s[2], s[1]))
            elif s[0] == 'param':
                # e.g. _export_ili_definition(synset_rowid): not a metadata rowid itself
                return None
    for tgt, it in cands:
        if not isinstance(tgt, (ast.Tuple, ast.List)):
            continue
        idx = None
        for i, x in enumerate(tgt.elts):
            if isinstance(x, ast.Name) and x.id == e.id:
                idx = i
        if idx is None:
            continue
        q = it
        while isinstance(q, ast.Call) and isinstance(q.func, ast.Name) and q.func.id in ('next', 'list', 'iter') and q.args:
            q = q.args[0]
        if isinstance(q, ast.Name):
            # the iterable was bound to a temporary first
            sites = [b for b in binding_sites(func.node, q.id) if b[0] == 'assign']
            if len(sites) == 1 and len(binding_sites(func.node, q.id)) == 1:
                q = sites[0][1]
                while isinstance(q, ast.Call) and isinstance(q.func, ast.Name) and q.func.id in ('next', 'list', 'iter') and q.args:
                    q = q.args[0]
        if not isinstance(q, ast.Call):
            continue
        cal = ctx.cg.resolve_call(func, q)
        if len(cal) != 1:
            continue
        qn = cal[0].name
        if qn in ('get_entry_senses', 'get_synset_members'):
            qn = '_get_senses'
        cols = YIELDS.get(qn) or SELECT_LISTS.get(qn)
        if cols and idx < len(cols):
            return cols[idx]
    return None


def r4_scoping(ctx, res):
    from .c04 import r2_callsite_provenance
    from ..runtime import Result
    tmp = Result('tmp')
    r2_callsite_provenance(ctx, tmp)
    n = 0
    for i in tmp.instances:
        if i.key.startswith('_export.'):
            n += 1
            res.inst(i.key, i.loc, i.desc)
    for f in tmp.findings:
        if f.key.startswith('_export.'):
            res.find(f.key, f.loc, f.message)
    if n < 12:
        raise AnalysisError(f'only {n} scoped query calls found in the exporter')


def r5_precheck_first(ctx, res):
    import re as _re
    from ..speccheck import view
    from .c01 import SELECT_LISTS
    v = view(ctx, '_export', 'export')
    f = v.f
    key = 'precheck-first'
    eff = [r for r in v.rows if r[0] in ('call', 'store', 'aug')]
    first = min(eff, key=lambda r: r[4].node.lineno) if eff else None
    res.inst(key, v.loc(), first[1][:60] if first else '')
    if first is None or first[1] != '_precheck(lexicons)' or first[2]:
        res.find(key, v.loc(), 'export() no longer starts with _precheck(lexicons): lexicons with clashing identifiers are '
                               'written into one file and cannot be re-imported faithfully')
    key = 'export-writes-through-dump'
    res.inst(key, v.loc(), 'lmf.dump({lmf_version, lexicons: every lexicon exported}, destination)')
    dumps = [r for r in v.rows if r[0] == 'call' and r[1].startswith('lmf.dump(')]
    ok = len(dumps) == 1
    if ok:
        t = dumps[0][1]
        m1 = _re.match(r"^lmf\.dump\(\{'lmf_version': version, 'lexicons': \[_export_lexicon\(_1, (.+)\) for _1 in lexicons\]\}, destination\)$", t)
        m2 = _re.match(r"^lmf\.dump\(\{'lmf_version': version, 'lexicons': (#\d+)\}, destination\)$", t)
        if m2:
            ap = [r for r in v.rows if r[0] == 'call' and r[1].startswith(m2.group(1) + '.append(_export_lexicon($1, ') and r[3] == ('for lexicons',)
                  and not {g for g in r[2]} - set(dumps[0][2])]
            ok = len(ap) == 1
        else:
            ok = bool(m1)
    if not ok:
        res.find(key, v.loc(), f'export() no longer builds one resource from all lexicons and writes it with lmf.dump: {[r[1][:120] for r in dumps]}')
    pv = view(ctx, '_export', '_precheck')
    pc = pv.f
    # identifiers that take part in the clash test must be NOT NULL columns (a nullable id yields None for every lexicon
    # that omits it, and two such lexicons would "clash" on None)
    for r in pv.rows:
        m = _re.match(r'^#\d+\.(?:update|add)\(\(_1\[(\d+)\] for _1 in (\w+)\(', r[1]) if r[0] == 'call' else None
        if m:
            qn, idx = m.group(2), int(m.group(1))
        else:
            # loop form:  for row in Q(...): ids.add(row[k])
            m = _re.match(r'^#\d+\.add\(\$2\[(\d+)\]\)$', r[1]) if r[0] == 'call' and len(r[3]) == 2 else None
            m2 = _re.match(r'^for (\w+)\(', r[3][1]) if m else None
            if not m2:
                continue
            qn, idx = m2.group(1), int(m.group(1))
        cols = {'find_entries': ['entries.id']}.get(qn) or SELECT_LISTS.get(qn)
        key = f'precheck-id-column:{qn}'
        col = cols[idx] if cols and idx < len(cols) else None
        res.inst(key, pv.loc(r[4]), f'{col}')
        ok = False
        if col and '.' in col:
            t, c = col.split('.', 1)
            sc = ctx.schema.col(t, c) if t in ctx.schema.tables else None
            ok = sc is not None and sc.notnull and c == 'id'
        if not ok:
            res.find(key, pv.loc(r[4]), f'_precheck collects column {idx} of {qn} ({col}) as an identifier: that column is not a '
                                        f'NOT NULL id, so lexicons that simply omit it (None) are refused as having clashing identifiers')
    key = 'precheck-raises'
    res.inst(key, pv.loc(), 'raises wn.Error on clashing identifiers')
    rs = [r for r in pv.rows if r[0] == 'raise' and r[1].startswith('wn.Error(')]
    okr = len(rs) == 1 and len(rs[0][2]) == 1 and rs[0][3] == ('for lexicons',)
    if okr:
        g = next(iter(rs[0][2]))
        okr = bool(_re.match(r'^(#\d+)\.intersection\((#\d+)\)$', g) or _re.match(r'^not (#\d+)\.isdisjoint\((#\d+)\)$', g))
        acc = [r for r in pv.rows if (r[0] == 'aug' and ' |= ' in r[1]) or (r[0] == 'call' and '.update(#' in r[1])]
        okr = okr and bool(acc)
    if not okr:
        res.find(key, pv.loc(), f'_precheck no longer refuses exports whose lexicons share identifiers: {[(r[1][:50], sorted(r[2])) for r in rs]}')


def r6_proposed_ili_marker(ctx, res):
    """writer/reader agreement on proposed ILIs: the importer stores a proposed_ilis row for every synset with ili="in"
    (with or without a definition - see the binding table), so the exporter must reconstruct ili="in" from the *existence*
    of that row, not from the presence of a definition text."""
    from ..speccheck import view
    v = view(ctx, '_export', '_export_synsets')
    f = v.f
    key = 'proposed-ili-marker'
    # the value stored under 'ili' in the exported synset record
    vals = []
    for e in v.E:
        for node in ([e.lhs, e.rhs] if e.kind in ('store', 'call', 'new', 'return', 'yield') else []):
            if node is None:
                continue
            for d in ast.walk(node):
                if isinstance(d, ast.Dict):
                    for k, val in zip(d.keys, d.values):
                        if isinstance(k, ast.Constant) and k.value == 'ili':
                            vals.append(val)
    # ... or stored separately:  record['ili'] = ...
    for e in v.E:
        if e.kind == 'store' and isinstance(e.lhs, ast.Subscript) and isinstance(e.lhs.slice, ast.Constant) and e.lhs.slice.value == 'ili':
            vals.append(e.rhs)
    markers = []
    for val in vals:
        for n in ast.walk(val):
            if isinstance(n, ast.IfExp) and isinstance(n.body, ast.Constant) and n.body.value == 'in':
                markers.append(n.test)
    res.inst(key, v.loc(), f'{len(vals)} ili values, {len(markers)} conditional "in" markers')
    if not markers:
        res.find(key, v.loc(), "_export_synsets never reconstructs ili=\"in\": proposed ILIs are exported as synsets without ILI")
        return
    # importer side: the row is inserted under Synset.ili == 'in' alone
    from .c01 import computed_bindings, ROW_GUARD
    guards = computed_bindings(ctx).get(('proposed_ilis', ROW_GUARD), set())
    imp_ok = any("Synset.ili == const:'in'" in g for g in guards) and not any('ili_definition' in x for g in guards for x in g)
    res.inst(key + ':importer', 'wn/_add.py', f'{sorted(guards)}')
    if not imp_ok:
        res.find(key + ':importer', 'wn/_add.py', f'the importer no longer stores a proposed_ilis row for exactly the synsets with ili="in": {sorted(guards)}')
    for test in {norm(t): t for t in markers}.values():
        k2 = f'{key}:guard'
        res.inst(k2, v.loc(), norm(test)[:80])
        calls = [norm(n.func) for n in ast.walk(test) if isinstance(n, ast.Call)]
        row_based = any(c == 'find_proposed_ilis' or _helper_reaches(ctx, f, c, 'find_proposed_ilis') for c in calls)
        defn_based = any(c == '_export_ili_definition' for c in calls) or 'definition' in norm(test).replace('find_proposed_ilis', '')
        if defn_based or not row_based:
            res.find(k2, v.loc(),
                     f'ili = "in" is reconstructed under `{norm(test)[:120]}`, i.e. not from the existence of the proposed_ilis row (the '
                     f'importer records a proposed ILI by that row; its definition is optional): a synset <Synset ili="in"> without '
                     f'<ILIDefinition> is exported with ili="" and re-imported without its proposed ILI')


def _helper_reaches(ctx, f, name, target, depth=0):
    g = f.module.funcs.get(name)
    if g is None or depth > 2 or name == '_export_ili_definition':
        return False
    for n in walk_no_nested(g.node):
        if isinstance(n, ast.Call):
            c = norm(n.func)
            if c == target or _helper_reaches(ctx, f, c, target, depth + 1):
                return True
    return False


def _reaches(ctx, f, call, target, via=None, depth=0):
    if isinstance(call.func, ast.Name) and call.func.id == 'next' and call.args and isinstance(call.args[0], ast.Call):
        return _reaches(ctx, f, call.args[0], target, via, depth)
    cal = ctx.cg.resolve_call(f, call)
    for c in cal:
        if via is not None and c.name == via:
            return True
        if target is not None and c.name == target:
            return True
        if depth < 2 and c.module.short == '_export' and target is not None and via is None and c.name != '_export_ili_definition':
            for n in walk_no_nested(c.node):
                if isinstance(n, ast.Call) and _reaches(ctx, c, n, target, None, depth + 1):
                    return True
    return False


def r7_no_shared_records(ctx, res):
    """the exported records do not share mutable objects between entries / senses / synsets."""
    from ..sharing import report
    report(ctx, res, {'_export'}, 'export')


# ---------------------------------------------------------------------------
# R8: the exporter does not special-case stored values

def _is_constant_operand(n):
    if isinstance(n, ast.Constant) and n.value is not None:
        return True
    if isinstance(n, ast.Name) and n.id.isupper():
        return True
    if isinstance(n, ast.Attribute) and n.attr.isupper():
        return True
    if isinstance(n, (ast.Tuple, ast.List, ast.Set)) and n.elts and all(_is_constant_operand(e) for e in n.elts):
        return True
    return False


def _mentions_version(n):
    return any(isinstance(x, ast.Name) and x.id == 'version' for x in ast.walk(n))


def classify_compare(node):
    """category of a comparison in the exporter, or None when it tests a stored value against a constant"""
    operands = [node.left] + list(node.comparators)
    if any(_mentions_version(o) for o in operands):
        return 'version'
    if all(isinstance(op, (ast.Is, ast.IsNot)) for op in node.ops) and any(isinstance(o, ast.Constant) and o.value is None for o in operands):
        return 'None test'
    if any(_is_constant_operand(o) for o in operands):
        return None
    if all(isinstance(op, (ast.In, ast.NotIn)) for op in node.ops):
        return 'membership in a computed collection'
    return 'comparison of two computed values'


_R8_CONTROL = [("pos == ADJ", None), ("pos in ('a', 's')", None), ("table != 'senses'", None), ("wn.constants.ADJ == pos", None),
               ("version >= (1, 1)", 'version'), ("rowid is not None", 'None test'), ("id in sbmap", 'membership in a computed collection')]


def r8_value_independent(ctx, res):
    """what the exporter writes for an element does not depend on comparing a stored value (part of speech, relation type,
    table name, ...) with a constant: the schema does not tie the presence of one value to the content of another (an
    adjposition row may exist for a sense of any part of speech), so such a switch drops or alters data for some stored
    lexicon.  Every comparison in wn/_export.py is a version comparison, a None test or a test between computed values."""
    for text, want in _R8_CONTROL:
        got = classify_compare(ast.parse(text, mode='eval').body)
        if got != want:
            raise AnalysisError(f'C03-R8 classifier no longer separates its control `{text}`: {got!r}')
    exp = ctx.repo.mod('_export')
    n = 0
    for f in exp.funcs.values():
        if f.name == '_precheck':
            continue
        for node in walk_no_nested(f.node):
            if isinstance(node, ast.Compare):
                n += 1
                key = f'compare:{f.qualname}:{norm(node)[:60]}'
                kind = classify_compare(node)
                res.inst(key, exp.loc(node), kind or 'value against constant')
                if kind is None:
                    res.find(key, exp.loc(node), f'{f.qualname} tests `{norm(node)[:80]}`: what is exported depends on a stored value being equal to a '
                                                 f'constant; stored lexicons for which the test fails lose or change that part on export')
            elif isinstance(node, ast.Call) and isinstance(node.func, ast.Attribute) and node.func.attr in ('startswith', 'endswith') \
                    and not _mentions_version(node):
                n += 1
                key = f'compare:{f.qualname}:{norm(node)[:60]}'
                res.inst(key, exp.loc(node), 'value against constant')
                res.find(key, exp.loc(node), f'{f.qualname} tests `{norm(node)[:80]}`: what is exported depends on the spelling of a stored value')
    if n < 8:
        raise AnalysisError(f'only {n} comparisons found in wn/_export.py')


# ---------------------------------------------------------------------------
# R9: ordered parts are exported in their stored order

ORDERED_SOURCES = {
    # (exporter function, what) -> the rank-ordered query the items must be drawn from, one per owner row
    ('_export_synsets', 'members'): 'get_synset_members',
    ('_export_senses', 'senses'): 'get_entry_senses',
}


def r9_declared_order(ctx, res):
    """the order of a synset's members and of an entry's senses is part of the lexicon (WN-LMF: `members` attribute, document
    order of <Sense>): the exporter draws them, per owner row, from the queries that ORDER BY the stored rank
    (get_synset_members: synset_rank; get_entry_senses: entry_rank - the ORDER BY itself is C01-R5) and not from a bulk
    query without an order.  Decided on the effect summaries of the exporter."""
    import re as _re
    from ..speccheck import view, as_loop
    v = view(ctx, '_export', '_export_synsets')
    key = 'declared-order:Synset.members'
    stores = [r for r in v.rows if r[0] == 'store' and _re.match(r"#\d+\['members'\] = ", r[1])]
    res.inst(key, v.loc(), f'{len(stores)} store(s) of members')
    if len(stores) != 1:
        raise AnalysisError('anchor vanished: the store of Synset.members in _export_synsets')
    val = stores[0][1].split(' = ', 1)[1]
    lp = as_loop(v, val)
    outer = [c for c in stores[0][3] if c.startswith('for find_synsets(')]
    ok = lp is not None and len(lp[1]) == 1 and not lp[2] and bool(outer) \
        and _re.fullmatch(r'for get_synset_members\(\$1\[4\], lexids\)', lp[1][0]) is not None \
        and _re.fullmatch(r'(\$\d+|_\d+)\[0\]', lp[0].replace('$1[', '$9[') if False else lp[0]) is not None
    if not ok:
        res.find(key, v.loc(stores[0][4]), f'Synset.members is exported as `{val[:90]}`: not the ids of get_synset_members(<rowid of this synset>, lexids) '
                                          f'in query order - the declared member order (synset_rank) is not what a re-import sees')
    v2 = view(ctx, '_export', '_export_senses')
    key = 'declared-order:LexicalEntry.senses'
    apps = [r for r in v2.rows if r[0] == 'call' and _re.fullmatch(r'#1\.append\(#\d+\)', r[1])]
    res.inst(key, v2.loc(), f'{len(apps)} append(s) to the sense list')
    rets = [r for r in v2.rows if r[0] == 'return']
    ok = len(apps) == 1 and tuple(apps[0][3]) == ('for get_entry_senses(entry_rowid, lexids)',) and not apps[0][2] \
        and len(rets) == 1 and rets[0][1] == '#1'
    if not ok:
        res.find(key, v2.loc(), f'the senses of an entry are no longer exported in the order of get_entry_senses(entry_rowid, lexids) (entry_rank): '
                                f'{[(r[1][:50], list(r[3])) for r in apps][:2]}')


def r10_export_written_wellformed(ctx, res):
    """export() writes through lmf.dump: a stored value that the writer prints without quoteattr()/ElementTree (a line break,
    tab or quote in a lexicon-level attribute) is altered by XML attribute-value normalisation when the export is read back
    (writer analysis of C02-R5)."""
    from .c02 import r5_escaping
    r5_escaping(ctx, res)


def r11_exported_queries_scoped(ctx, res):
    """what export() writes for lexicon L are rows of L: every table occurrence in the query functions the exporter calls is
    bound by the lexicon filter on the row's OWN table (C04-R1, restricted to the functions reachable from export()) - a
    filter on a joined table (the frame's linked sense instead of the frame) lets rows of an installed extension into the
    export of the base."""
    from ..runtime import Result
    from .c04 import r1_sql_scoping
    tmp = Result('tmp')
    r1_sql_scoping(ctx, tmp)
    reach = ctx.cg.reachable([ctx.repo.func('_export', 'export')])
    names = {f.key for f in reach.values() if f.module.short == '_queries'}
    n = 0
    for i in tmp.instances:
        if any(i.key.startswith(k + ':') for k in names):
            n += 1
            res.inst(f'export-scope:{i.key}', i.loc, i.desc)
    for f in tmp.findings:
        if any(f.key.startswith(k + ':') for k in names):
            res.find(f'export-scope:{f.key}', f.loc, f.message)
    if n < 15:
        raise AnalysisError(f'only {n} table occurrences found in the query functions the exporter calls')


def r12_frames_referable(ctx, res):
    """sense-frame links in WN-LMF 1.1+: a <Sense> refers to lexicon-level frames by their id (subcat), so every frame written
    under `version >= 1.1` needs an identity - a non-empty id, or its own `senses` list.  syntactic_behaviours.id is nullable
    (frames of 1.0 sources have none): an exporter that writes such a frame with an empty id and no senses drops its links."""
    f = ctx.repo.func('_export', '_export_syntactic_behaviours_1_1')
    col = ctx.schema.col('syntactic_behaviours', 'id')
    nullable = col is None or not (col.notnull or col.pk)
    n = 0
    for d, var, keys in _displays(f):
        if 'subcategorizationFrame' not in keys:
            continue
        n += 1
        key = 'frames-1.1:idless-unreferable'
        idv = None
        for k, v in zip(d.keys, d.values):
            if k.value == 'id':
                idv = v
        why = None
        if 'senses' in keys:
            why = None
        elif idv is None:
            why = 'writes no id at all'
        elif isinstance(idv, ast.Name) or (isinstance(idv, ast.BoolOp) and isinstance(idv.op, ast.Or)
                                           and isinstance(idv.values[-1], ast.Constant) and not idv.values[-1].value) \
                or (isinstance(idv, ast.IfExp) and any(isinstance(x, ast.Constant) and not x.value for x in (idv.body, idv.orelse))):
            why = f'writes `{norm(idv)}` as the id' if nullable else None
        res.inst(key, f.module.loc(d), f'id value `{norm(idv) if idv is not None else None}`; senses key: {"senses" in keys}; '
                                       f'syntactic_behaviours.id nullable: {nullable}')
        if why:
            res.find(key, f.module.loc(d),
                     f'_export_syntactic_behaviours_1_1 {why} for a frame stored without one (syntactic_behaviours.id is nullable: '
                     f'WN-LMF 1.0 sources) and no `senses`: in a 1.1+ export nothing links such a frame to its senses, the re-imported '
                     f'lexicon has the frame but Sense.frames() is empty')
    if n < 1:
        raise AnalysisError('_export_syntactic_behaviours_1_1 builds no SyntacticBehaviour record')


# ---------------------------------------------------------------------------
# R13: a stored value the exporter itself treats as possibly absent is never ordered or joined unguarded

def _truth_guarded(fn_node, name):
    """uses of `name` that state "may be None / empty": `name or X`, `X if name else Y`, `if name`, `name is (not) None`"""
    for n in walk_no_nested(fn_node):
        if isinstance(n, ast.BoolOp) and isinstance(n.op, ast.Or) and isinstance(n.values[0], ast.Name) and n.values[0].id == name:
            return True
        if isinstance(n, (ast.IfExp, ast.If, ast.While)) and isinstance(n.test, ast.Name) and n.test.id == name:
            return True
        if isinstance(n, ast.Compare) and isinstance(n.left, ast.Name) and n.left.id == name and len(n.ops) == 1 \
                and isinstance(n.ops[0], (ast.Is, ast.IsNot)) and isinstance(n.comparators[0], ast.Constant) and n.comparators[0].value is None:
            return True
        if isinstance(n, ast.comprehension) and any(isinstance(c, ast.Name) and c.id == name for c in n.ifs):
            return True
    return False


def _tuple_targets(fn_node):
    """(target tuple, iterable) of every for statement / comprehension clause with a tuple target"""
    for n in walk_no_nested(fn_node):
        if isinstance(n, (ast.For, ast.comprehension)) and isinstance(n.target, (ast.Tuple, ast.List)):
            yield n.target, n.iter, n


def r13_absent_values_guarded(ctx, res):
    """(belief analysis) when one consumer of a query result position in the exporter guards it against None / '' (`id or ''`),
    the value may be absent; every other consumer that orders (sorted, min, max) or joins (' '.join) it - directly or after it
    went through a local table handed down to a helper - must filter it: sorted() over None raises TypeError."""
    exp_funcs = [f for f in ctx.repo.all_funcs() if f.module.short == '_export']
    # 1. beliefs: (query function, position) guarded somewhere
    src_of = {}      # (func key, name) -> (query, position)
    maybe_absent = {}
    for f in exp_funcs:
        calls = {id(c): cal for c, cal in ctx.cg.callees(f)}
        for tgt, it, node in _tuple_targets(f.node):
            c = it
            while isinstance(c, ast.Call) and isinstance(c.func, ast.Name) and c.func.id in ('list', 'sorted', 'tuple', 'iter') and c.args:
                c = c.args[0]
            cal = calls.get(id(c)) if isinstance(c, ast.Call) else None
            if not cal or not all(x.module.short == '_queries' for x in cal):
                continue
            for i, t in enumerate(tgt.elts):
                if isinstance(t, ast.Name) and t.id != '_':
                    for q in cal:
                        src_of[(f.key, t.id)] = (q.name, i)
                        if _truth_guarded(f.node, t.id):
                            maybe_absent.setdefault((q.name, i), f.qualname)
    # 2. names holding a possibly absent value; tables (local / parameter) whose tuples hold one at index k
    absent_names = {k: v for k, v in src_of.items() if v in maybe_absent}
    tables = {}      # (func key, var) -> {index: source}
    changed = True
    rounds = 0
    while changed and rounds < 6:
        changed = False
        rounds += 1
        for f in exp_funcs:
            for n in walk_no_nested(f.node):
                # C.setdefault(k, []).append((a, b)) / C[k].append((a, b)) / C.append((a, b))
                if isinstance(n, ast.Call) and isinstance(n.func, ast.Attribute) and n.func.attr in ('append', 'add') and n.args \
                        and isinstance(n.args[0], ast.Tuple):
                    base = n.func.value
                    while isinstance(base, (ast.Subscript, ast.Call, ast.Attribute)):
                        base = base.value if isinstance(base, (ast.Subscript, ast.Attribute)) else base.func
                    if not isinstance(base, ast.Name):
                        continue
                    for i, e in enumerate(n.args[0].elts):
                        if isinstance(e, ast.Name) and (f.key, e.id) in absent_names:
                            d = tables.setdefault((f.key, base.id), {})
                            if i not in d:
                                d[i] = absent_names[(f.key, e.id)]
                                changed = True
            # a table handed to another exporter function
            for call, cal in ctx.cg.callees(f):
                for c in cal:
                    if c.module.short != '_export':
                        continue
                    ps = c.params
                    bound = list(zip(ps, call.args)) + [(k.arg, k.value) for k in call.keywords if k.arg]
                    for pn, a in bound:
                        if isinstance(a, ast.Name) and (f.key, a.id) in tables:
                            d = tables.setdefault((c.key, pn), {})
                            for i, srcq in tables[(f.key, a.id)].items():
                                if i not in d:
                                    d[i] = srcq
                                    changed = True
            # rows read back from a table
            for tgt, it, node in _tuple_targets(f.node):
                b = it
                while isinstance(b, (ast.Subscript, ast.Call, ast.Attribute)):
                    b = b.value if isinstance(b, (ast.Subscript, ast.Attribute)) else b.func
                if isinstance(b, ast.Name) and (f.key, b.id) in tables:
                    for i, t in enumerate(tgt.elts):
                        if isinstance(t, ast.Name) and t.id != '_' and i in tables[(f.key, b.id)] and (f.key, t.id) not in absent_names:
                            absent_names[(f.key, t.id)] = tables[(f.key, b.id)][i]
                            changed = True
    res.note(f'positions guarded somewhere: {sorted(maybe_absent)}; tables carrying them: '
             f'{sorted((k[0].split(".")[-1], k[1], sorted(v)) for k, v in tables.items())}')
    # 3. ordering / joining sinks
    n = 0
    for f in exp_funcs:
        for c in walk_no_nested(f.node):
            if not isinstance(c, ast.Call) or not c.args:
                continue
            is_order = isinstance(c.func, ast.Name) and c.func.id in ('sorted', 'min', 'max') and not any(k.arg == 'key' for k in c.keywords)
            is_join = isinstance(c.func, ast.Attribute) and c.func.attr == 'join' and isinstance(c.func.value, ast.Constant)
            if not (is_order or is_join):
                continue
            a = c.args[0]
            elts = []
            if isinstance(a, (ast.GeneratorExp, ast.ListComp, ast.SetComp)):
                filt = set()

                def conj(x):
                    if isinstance(x, ast.BoolOp) and isinstance(x.op, ast.And):
                        for y in x.values:
                            conj(y)
                    elif isinstance(x, ast.Name):
                        filt.add(x.id)
                    elif isinstance(x, ast.Compare) and isinstance(x.left, ast.Name) and len(x.ops) == 1 \
                            and isinstance(x.ops[0], (ast.IsNot, ast.NotEq)) and isinstance(x.comparators[0], ast.Constant) \
                            and x.comparators[0].value is None:
                        filt.add(x.left.id)
                for g in a.generators:
                    for x in g.ifs:
                        conj(x)
                elts = [(e, filt) for e in ([a.elt] if not isinstance(a.elt, ast.Tuple) else a.elt.elts)]
            elif isinstance(a, (ast.List, ast.Tuple)):
                elts = [(e, set()) for e in a.elts]
            for e, filt in elts:
                if not isinstance(e, ast.Name):
                    # the value goes through a function / expression first (`_frame_id(sbid, frame)`): examined, not a bare use
                    inner = [x for x in ast.walk(e) if isinstance(x, ast.Name) and (f.key, x.id) in absent_names]
                    if inner:
                        n += 1
                        q, i = absent_names[(f.key, inner[0].id)]
                        res.inst(f'absent-ordered:{f.qualname}:{inner[0].id}<-{q}[{i}]', f.module.loc(c), f'`{norm(c)[:70]}`; passed through `{norm(e)[:40]}`')
                    continue
                if isinstance(e, ast.Name) and (f.key, e.id) in absent_names:
                    n += 1
                    q, i = absent_names[(f.key, e.id)]
                    key = f'absent-ordered:{f.qualname}:{e.id}<-{q}[{i}]'
                    res.inst(key, f.module.loc(c), f'`{norm(c)[:70]}`; filtered: {e.id in filt}')
                    if e.id not in filt:
                        res.find(key, f.module.loc(c),
                                 f'{f.qualname}: `{norm(c)[:80]}` orders / joins `{e.id}`, which is position {i} of {q}() - a value '
                                 f'{maybe_absent[(q, i)]} guards with `or` because it can be None - without filtering it: TypeError for a '
                                 f'lexicon that has such rows (frames of WN-LMF 1.0 sources have no id)')
    if n < 1:
        raise AnalysisError('no ordering of a possibly absent exported value found (expected: subcat built from frame ids)')


# ---------------------------------------------------------------------------
# R14: "absent" is encoded as '' by the exporter, so the writer must test truth, not presence

def exporter_empty_fallback_keys(ctx):
    """keys the exporter always supplies, with '' (or None) standing for "the stored value is absent": `'id': fid or ''`"""
    keys = {}
    for f in ctx.repo.all_funcs():
        if f.module.short != '_export':
            continue
        for n in walk_no_nested(f.node):
            if isinstance(n, ast.Dict):
                for k, v in zip(n.keys, n.values):
                    if not (isinstance(k, ast.Constant) and isinstance(k.value, str)):
                        continue
                    if (isinstance(v, ast.BoolOp) and isinstance(v.op, ast.Or) and isinstance(v.values[-1], ast.Constant) and not v.values[-1].value) \
                            or (isinstance(v, ast.Constant) and v.value in ('', None)):
                        keys.setdefault(k.value, f.module.loc(n))
            if isinstance(n, ast.Assign) and len(n.targets) == 1 and isinstance(n.targets[0], ast.Subscript) \
                    and isinstance(n.targets[0].slice, ast.Constant) and isinstance(n.targets[0].slice.value, str):
                v = n.value
                if isinstance(v, ast.BoolOp) and isinstance(v.op, ast.Or) and isinstance(v.values[-1], ast.Constant) and not v.values[-1].value:
                    keys.setdefault(n.targets[0].slice.value, f.module.loc(n))
    return keys


def _writer_functions(ctx):
    dump = ctx.repo.func('lmf', 'dump')
    seen, todo = {dump.key: dump}, [dump]
    while todo:
        g = todo.pop()
        for call, cal in ctx.cg.callees(g):
            for c in cal:
                if c.module.short == 'lmf' and c.key not in seen:
                    seen[c.key] = c
                    todo.append(c)
    return list(seen.values())


def r14_writer_tests_truth_not_presence(ctx, res):
    """two sites that must agree: the exporter hands every optional attribute to the writer, with '' when the database has no
    value (`'id': fid or ''`, `'logo': lexicon.logo or ''`); the writer therefore decides by TRUTH (`form.get('id')`) whether to
    write the attribute.  A presence test (`'id' in form`, `form.get('id') is not None`) writes `id=""` for every exported
    element without one - the re-imported forms then share the id '' (and FORM_QUERY `f.id = ?` attaches their tags and
    pronunciations to the first of them)."""
    keys = exporter_empty_fallback_keys(ctx)
    if len(keys) < 5:
        raise AnalysisError(f'only {len(keys)} keys with an empty fallback found in the exporter')
    res.note(f'keys the exporter fills with an empty fallback: {sorted(keys)}')
    writers = _writer_functions(ctx)
    if len(writers) < 15:
        raise AnalysisError(f'only {len(writers)} writer functions reachable from lmf.dump')
    for f in writers:
        key0 = f'writer-truth:{f.qualname}'
        res.inst(key0, f.module.loc(f.node), 'presence tests on exporter-supplied keys')
        for n in walk_no_nested(f.node):
            k = None
            if isinstance(n, ast.Compare) and len(n.ops) == 1 and isinstance(n.ops[0], (ast.In, ast.NotIn)) \
                    and isinstance(n.left, ast.Constant) and isinstance(n.left.value, str):
                k = n.left.value
            elif isinstance(n, ast.Compare) and len(n.ops) == 1 and isinstance(n.ops[0], (ast.Is, ast.IsNot)) \
                    and isinstance(n.comparators[0], ast.Constant) and n.comparators[0].value is None:
                x = n.left
                if isinstance(x, ast.Call) and isinstance(x.func, ast.Attribute) and x.func.attr == 'get' and x.args \
                        and isinstance(x.args[0], ast.Constant) and len(x.args) == 1:
                    k = x.args[0].value
                elif isinstance(x, ast.Subscript) and isinstance(x.slice, ast.Constant):
                    k = x.slice.value
            if k in keys:
                key = f'{key0}:{k}'
                res.inst(key, f.module.loc(n), norm(n))
                res.find(key, f.module.loc(n),
                         f'{f.qualname} decides with `{norm(n)}` whether {k!r} is there, but the exporter always supplies {k!r} - as \'\' '
                         f'when the database has none ({keys[k]}): an exported element without {k} is written with {k}=""')


def r15_writer_metadata_complete(ctx, res):
    """export goes through lmf.dump: every metadata key the model and the reader know (dc:*, status, note, confidenceScore) is
    written by _meta_dict - the tables analysis of C02-R4 (a key the writer forgets is lost by every export)."""
    from .c02 import r4_metadata_tables
    r4_metadata_tables(ctx, res)

def r16_exported_rows_as_prescribed(ctx, res):
    """the exporter rebuilds a lexicon from the rows the query layer hands it: those rows have the prescribed columns and come
    from the prescribed joins (C01-R7) - an inner join added to get_lexicon_dependencies drops the <Requires> of every provider
    that is not installed."""
    from .c01 import r7_readers
    r7_readers(ctx, res)

def r17_writer_attributes_reach_the_element(ctx, res):
    """export goes through the writer: every attribute the builders compute reaches the element it is meant for (C02-R11: no
    store into an attrib dict after ET.Element copied it)."""
    from .c02 import r11_attributes_set_before_construction
    r11_attributes_set_before_construction(ctx, res)

def r18_preserved_text_survives_export(ctx, res):
    """a definition / example stored with runs of blanks or line breaks (it was loaded under xml:space="preserve") is exported
    through the same builders: written without the attribute, it comes back normalised from the exported file (C02-R12)."""
    from .c02 import r12_preserved_text_is_written_as_preserved
    r12_preserved_text_is_written_as_preserved(ctx, res)


RULES = [
    ('C03-R1', r1_coverage, 75),
    ('C03-R2', r2_guard_consistency, 3),
    ('C03-R3', r3_metadata_provenance, 9),
    ('C03-R4', r4_scoping, 12),
    ('C03-R5', r5_precheck_first, 6),
    ('C03-R6', r6_proposed_ili_marker, 3),
    ('C03-R7', r7_no_shared_records, 3),
    ('C03-R8', r8_value_independent, 8),
    ('C03-R9', r9_declared_order, 2),
    ('C03-R10', r10_export_written_wellformed, 7),
    ('C03-R11', r11_exported_queries_scoped, 15),
    ('C03-R12', r12_frames_referable, 1),
    ('C03-R13', r13_absent_values_guarded, 1),
    ('C03-R14', r14_writer_tests_truth_not_presence, 15),
    ('C03-R15', r15_writer_metadata_complete, 3),
    ('C03-R16', r16_exported_rows_as_prescribed, 40),
    ('C03-R17', r17_writer_attributes_reach_the_element, 3),
    ('C03-R18', r18_preserved_text_survives_export, 5),
]
