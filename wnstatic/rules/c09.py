"""C09 — word-form search follows the documented exact / normalized / lemmatized procedure (structural clauses)."""
from __future__ import annotations
import ast
import re
from ..pat import Frag
from ..src import norm, walk_no_nested, AnalysisError
from .. import sql as S

META = {
    'title': 'Word-form search follows the documented exact/normalized/lemmatized procedure',
    'technique': 'sibling cross-check of the SQL form predicate in the three find_* queries; effect summary of _find_helper (query rounds, their iterables and guards); import-graph identity of the normaliser',
    'explanation': (
        'Result sets of string matching are SQL semantics and are not decided. Decided: R1 sibling agreement - find_entries, '
        'find_senses and find_synsets implement the same form predicate: `(form IN wordforms [OR normalized_form IN wordforms]) '
        '[AND rank = 0]`, the disjunction parenthesised so the lemma restriction covers both arms, the normalized arm present iff '
        '`normalized`, the rank restriction present iff not `search_all_forms`, over a wordforms CTE of the query forms, and the '
        'part-of-speech condition present iff pos is given; R2 the function that fills forms.normalized_form at add time is the '
        'default normalizer of Wordnet (same object through the import graph), its definition is lower + NFKD + drop combining '
        'marks, and the column is NULL exactly when equal to the form; R3 in _find_helper the second round is control-dependent on '
        'empty first-round results and a normalizer, both rounds range over the same (pos, forms) mapping - the lemmatizer result '
        'or {pos: {form}} when it is empty - and pass pos per item; R4 de-duplication is order preserving and set-order free '
        '(C16 analysis of _find_helper). R5 every <Form> becomes a row (binding analysis of C01-R2).'),
    'decides': ['three form predicates agree', 'normaliser identity', 'conditional back-off', 'order-preserving dedupe'],
    'not_decided': ['which rows match (SQL / Unicode semantics)', 'interaction cases enumerated in the property (value level)'],
    'assumptions': [],
}

FUNCS = ('find_entries', 'find_senses', 'find_synsets')


def _form_predicates(stmt):
    """normalised predicates of the (sub)query that reads `forms` and mentions wordforms."""
    for g in sorted(stmt.query_groups):
        lo, hi = stmt.group_range(g)
        toks = stmt.toks[lo:hi]
        if 'wordforms' in toks and any(o.table == 'forms' and o.scope == g for o in stmt.occs) and g != 0:
            preds = stmt.where_predicates(g)
            out = []
            for p in preds:
                p = re.sub(r'\b[A-Za-z_]+ \. ', '', p)      # strip alias qualifiers
                p = ' '.join(p.split())
                out.append(p)
            return out
    return None


def r1_sibling_form_predicate(ctx, res):
    table = {}
    for fname in FUNCS:
        f = ctx.repo.func('_queries', fname)
        sites = ctx.sites_of(f.key)
        n = 0
        for s in sites:
            for v in s.variants:
                if v.stmt is None or v.facts.get('forms') is not True:
                    continue
                n += 1
                normalized = v.facts.get('normalized') is True
                allforms = v.facts.get('search_all_forms') is True
                preds = _form_predicates(v.stmt)
                key = f'form-predicate:{fname}:normalized={normalized}:all_forms={allforms}'
                res.inst(key, s.loc, f'{preds}')
                if preds is None:
                    res.find(key, s.loc, f'{fname}: no sub-query over forms/wordforms found in the form-search variant')
                    continue
                core = [p for p in preds if 'lexicon_rowid' not in p]
                want = ['( form IN wordforms OR normalized_form IN wordforms )' if normalized else '( form IN wordforms )']
                if not allforms:
                    want.append('rank = 0')
                if core != want:
                    res.find(key, s.loc,
                             f'{fname} searches forms with {core}; expected {want}: the stored form (or, with a normalizer, the '
                             f'normalized column) must equal the query, the lemma restriction `rank = 0` applies iff search_all_forms '
                             f'is off and must cover both arms of the disjunction')
                table.setdefault((normalized, allforms), {})[fname] = tuple(core)
                if 'wordforms' not in v.stmt.ctes or v.stmt.ctes['wordforms']['values_of'] != 'forms':
                    res.find(key + ':cte', s.loc, f'{fname}: the wordforms CTE is not VALUES over the query forms')
        if n == 0:
            raise AnalysisError(f'no form-search variant extracted for {fname}')
    for combo, per in table.items():
        key = f'siblings-agree:normalized={combo[0]}:all_forms={combo[1]}'
        res.inst(key, 'wn/_queries.py', f'{per}')
        if len(set(per.values())) != 1 or set(per) != set(FUNCS):
            res.find(key, 'wn/_queries.py', f'the three find_* queries disagree on the form predicate: {per}')
    # pos condition present iff pos
    import re as _re_pos

    def _has_pos(v, table):
        # `<alias>.pos = ?` with the alias of `table` at the top level of the statement (whatever the alias is called)
        for o in v.stmt.occs:
            if o.scope == 0 and o.kind == 'table' and o.table == table \
                    and _re_pos.search(r'(?<![\w.])' + _re_pos.escape(o.alias) + r'\.pos = \?', ' '.join(v.sql.split())):
                return True
        return False
    for fname, col, table in (('find_entries', 'e.pos = ?', 'entries'), ('find_senses', 'e.pos = ?', 'entries'),
                              ('find_synsets', 'ss.pos = ?', 'synsets')):
        f = ctx.repo.func('_queries', fname)
        anyhas = any(_has_pos(v, table) for s in ctx.sites_of(f.key) for v in s.variants if v.stmt is not None)
        res.inst(f'pos-condition:{fname}:exists', f.module.loc(f.node), f'some variant filters on {col}')
        if not anyhas:
            res.find(f'pos-condition:{fname}:exists', f.module.loc(f.node),
                     f'{fname} takes a pos argument but no statement variant contains `{col}`: the part-of-speech filter is not honoured')
        for s in ctx.sites_of(f.key):
            for v in s.variants:
                if v.stmt is None:
                    continue
                has = _has_pos(v, table)
                want = v.facts.get('pos') is True
                key = f'pos-condition:{fname}:{want}'
                res.inst(key, s.loc, f'pos condition present={has}')
                if has != want:
                    res.find(key, s.loc, f'{fname}: part-of-speech condition `{col}` present={has} but pos given={want}')


def r2_normaliser(ctx, res):
    core = ctx.repo.mod('_core')
    add = ctx.repo.mod('_add')
    wi = ctx.repo.func('_core', 'Wordnet.__init__')
    from ..sqlx import _default_of
    d = _default_of(wi, 'normalizer')
    key = 'default-normalizer'
    res.inst(key, core.loc(wi.node), f'default {norm(d) if d is not None else None}')
    dn = core.imports.get(d.id) if isinstance(d, ast.Name) else None
    an = add.imports.get('normalize_form')
    if dn is None or an is None or dn != an or dn != ('obj', 'wn._util', 'normalize_form'):
        res.find(key, core.loc(wi.node), f'the default normalizer of Wordnet ({dn}) is not the function that fills forms.normalized_form at add '
                                         f'time ({an}): the normalized column and the normalized query no longer meet')
    from ..speccheck import view, expect
    expect(res, 'normalize_form-definition', view(ctx, '_util', 'normalize_form'),
           [('return', "''.join((_1 for _1 in normalize('NFKD', s.lower()) if not combining(_1)))")],
           'normalize_form is lower-casing + NFKD decomposition + dropping combining marks')
    from .c01 import computed_bindings
    b = computed_bindings(ctx)
    key = 'normalized-column'
    alts = sorted(x[-1] for x in b.get(('forms', 'normalized_form'), []))
    res.inst(key, 'wn/_add.py', f'{alts}')
    for a in alts:
        m = re.fullmatch(r'\(normalize_form\((.+)\) if normalize_form\((.+)\) != (.+) else const:None\)', a)
        if not m or len({m.group(1), m.group(2), m.group(3)}) != 1:
            res.find(key, 'wn/_add.py', f'forms.normalized_form is written as `{a}`; expected normalize_form(form) when different from the form, '
                                        f'else NULL')
    if len(alts) != 2:
        res.find(key + ':sites', 'wn/_add.py', f'expected the lemma and the further forms to write normalized_form, found {len(alts)} bindings')


_LEM = 'w.lemmatizer(form, pos) if w.lemmatizer else {}'
_ITEMS = f'for (({_LEM}) if ({_LEM}) else {{pos: {{form}}}}).items()'
_ENT = r'^#(\d+)\.append\(cls\(\*\$2, _wordnet=w\)\)$'


def r3_backoff(ctx, res):
    """_find_helper on its effect summary: which query rounds are made, over what, under which conditions"""
    from ..speccheck import view
    v = view(ctx, '_core', '_find_helper')
    loc = v.loc()

    def chk(key, ok, msg):
        res.inst(key, loc, 'summary')
        if not ok:
            res.find(key, loc, msg)
    kw = [e for e in v.E if e.kind == 'new' and 'lexicon_rowids' in e.text]
    kws = kw[0].text if kw else ''
    chk('kwargs', len(kw) == 1 and kws.endswith("<{'lexicon_rowids': w._lexicon_ids, 'search_all_forms': w._search_all_forms}>"),
        f'_find_helper builds its query arguments as {kws}; expected the lexicon scope and search_all_forms of the Wordnet')
    K = kws.split('<')[0] if kws else '#?'
    chk('ili-forwarded', bool(v.find('store', f"{K}['ili'] = ili", ('ili is not None',))), 'the ili argument is no longer forwarded to the query')
    chk('normalized-flag', bool(v.find('store', f"{K}['normalized'] = bool(w._normalizer)", ('form is not None',))),
        "_find_helper no longer searches the normalized column exactly when a normalizer is set (normalized = bool(normalizer))")
    easy = v.find('call', text_re=r'^#\d+\.append\(cls\(\*\$1, _wordnet=w\)\)$', guards=('form is None',), ctx=(f'for query_func(pos=pos, **{K})',))
    chk('no-form-easy-case', len(easy) == 1 and bool(v.find('return', easy[0][1].split('.')[0], ('form is None',))),
        '_find_helper no longer returns all entities of the part of speech (in scope) when no form is given')
    import re as _re
    rounds = [r for r in v.rows if r[0] == 'call' and _re.match(_ENT, r[1]) and len(r[3]) == 2]
    first = [r for r in rounds if r[3] == (_ITEMS, f'for query_func(forms=$1[1], pos=$1[0], **{K})')]
    chk('lemmatize-or-empty', all(r[3][0] == _ITEMS for r in rounds) and bool(rounds),
        f'_find_helper no longer takes the candidate (pos, forms) items from the lemmatizer, falling back to {{pos: {{form}}}} exactly when it '
        f'proposes nothing: rounds iterate {sorted({r[3][0] for r in rounds})}')
    chk('fallback-to-query', all(r[3][0] == _ITEMS for r in rounds) and bool(rounds),
        '_find_helper no longer falls back to the query form itself exactly when the lemmatizer proposes nothing')
    chk('first-round-call', len(first) == 1 and first[0][2] == frozenset({'form is not None'}),
        f'first round no longer calls query_func(forms=<forms of the item>, pos=<pos of the item>, **kwargs) for every item: '
        f'{[(r[3][1], sorted(r[2])) for r in rounds]}')
    R1 = first[0][1].split('.')[0] if first else '#?'
    second = [r for r in rounds if r not in first]
    norm_forms = ('[w._normalizer(_1) for _1 in $1[1]]',)
    ok2 = False
    if len(second) == 1:
        q = second[0][3][1]
        m = _re.match(r'^for query_func\(forms=(.+), pos=\$1\[0\], \*\*' + _re.escape(K) + r'\)$', q)
        if m:
            fexpr = m.group(1)
            if fexpr in norm_forms:
                ok2 = True
            else:
                # a list built just before: #n with appends of w._normalizer($2) over $1[1]
                m2 = _re.match(r'^(#\d+)( if w\._normalizer is not None else \$1\[1\])?$', fexpr)
                if m2:
                    ap = v.find('call', f'{m2.group(1)}.append(w._normalizer($2))', ctx=(_ITEMS, 'for $1[1]'))
                    ok2 = bool(ap)
    chk('second-round-call', ok2, f'second round no longer searches the normalized query forms with the same pos: '
                                  f'{[r[3][1] for r in second]}')
    chk('both-rounds-same-items', len(second) == 1 and second[0][3][0] == _ITEMS,
        'the two search rounds no longer range over the same (pos, forms) items of the lemmatizer result')
    want = {'form is not None', f'not {R1}', 'w._normalizer'}
    chk('backoff-conditional', len(second) == 1 and set(second[0][2]) == want,
        f'the second search round (normalized query) must run exactly when the first found nothing and a normalizer is set; it runs when '
        f'{[sorted(r[2]) for r in second]}')
    chk('second-round-inside-if', len(second) == 1, 'expected exactly one normalized round')


def r4_dedupe(ctx, res):
    from ..speccheck import view
    import re as _re
    v = view(ctx, '_core', '_find_helper')
    f = v.f
    key = 'dedupe-order-preserving'
    res.inst(key, v.loc(), 'order-preserving de-duplication of the collected entities')
    rets = [r for r in v.rows if r[0] == 'return' and 'form is not None' in r[2]]
    ok = bool(rets)
    for r in rets:
        if _re.match(r'^unique_list\(#\d+\)$', r[1]):
            continue
        m = _re.match(r'^(#\d+)$', r[1])
        good = False
        if m:
            out = m.group(1)
            ap = [x for x in v.rows if x[0] == 'call' and x[1] == f'{out}.append($1)']
            if len(ap) == 1 and len(ap[0][3]) == 1:
                g = [y for y in ap[0][2] if y.startswith('$1 not in #')]
                if len(g) == 1:
                    seen = g[0].split(' not in ')[1]
                    good = bool(v.find('call', f'{seen}.add($1)', (g[0],), ap[0][3])) \
                        and any(e.kind == 'new' and e.text.startswith(seen + '<set()') for e in v.E)
        ok = ok and good
    if not ok:
        res.find(key, v.loc(), f'_find_helper no longer de-duplicates its results in first-occurrence order (returns '
                               f'{[r[1] for r in rets]})')
    from .c13 import ont_subset
    from ..runtime import Result
    tmp = Result('tmp')
    ont_subset(ctx, tmp, '_core', 'ont')
    for fd in tmp.findings:
        if '_find_helper' in fd.key:
            res.find(fd.key, fd.loc, fd.message)
    res.inst('ont:_find_helper', f.module.loc(f.node), 'no set-ordered value reaches the result')


def r5_forms_stored_as_declared(ctx, res):
    """search by word form finds what the documents declare only if every <Form> becomes a row: the binding analysis of the
    importer (C01-R2) - one row per form of every entry, local or external, with its own written form and rank."""
    from .c01 import r2_bindings
    r2_bindings(ctx, res)

RULES = [
    ('C09-R1', r1_sibling_form_predicate, 20),
    ('C09-R2', r2_normaliser, 3),
    ('C09-R3', r3_backoff, 10),
    ('C09-R4', r4_dedupe, 2),
    ('C09-R5', r5_forms_stored_as_declared, 100),
]
