"""C09 — word-form search follows the documented exact / normalized / lemmatized procedure (structural clauses)."""
from __future__ import annotations
import ast
import re
from ..pat import Frag
from ..src import norm, walk_no_nested, AnalysisError
from .. import sql as S

META = {
    'title': 'Word-form search follows the documented exact/normalized/lemmatized procedure',
    'technique': 'sibling cross-check of the SQL form predicate in the three find_* queries; control-dependence shape of _find_helper; import-graph identity of the normaliser',
    'explanation': (
        'Result sets of string matching are SQL semantics and are not decided. Decided: R1 sibling agreement - find_entries, '
        'find_senses and find_synsets implement the same form predicate: `(form IN wordforms [OR normalized_form IN wordforms]) '
        '[AND rank = 0]`, the disjunction parenthesised so the lemma restriction covers both arms, the normalized arm present iff '
        '`normalized`, the rank restriction present iff not `search_all_forms`, over a wordforms CTE of the query forms, and the '
        'part-of-speech condition present iff pos is given; R2 the function that fills forms.normalized_form at add time is the '
        'default normalizer of Wordnet (same object through the import graph), its definition is lower + NFKD + drop combining '
        'marks, and the column is NULL exactly when equal to the form; R3 in _find_helper the second round is control-dependent on '
        'empty first-round results and a normalizer, both rounds range over the same (pos, forms) mapping - the lemmatizer result '
        'or {pos: {form}} when it is empty - and pass pos per item; R4 de-duplication is order preserving and set-order free '
        '(C16 analysis of _find_helper).'),
    'decides': ['three form predicates agree', 'normaliser identity', 'conditional back-off', 'order-preserving dedupe'],
    'not_decided': ['which rows match (SQL / Unicode semantics)', 'interaction cases enumerated in the property (value level)'],
    'assumptions': [],
}

FUNCS = ('find_entries', 'find_senses', 'find_synsets')


def _form_predicates(stmt):
    """normalised predicates of the (sub)query that reads `forms` and mentions wordforms."""
    for g in sorted(stmt.query_groups):
        lo, hi = stmt.group_range(g)
        toks = stmt.toks[lo:hi]
        if 'wordforms' in toks and any(o.table == 'forms' and o.scope == g for o in stmt.occs) and g != 0:
            preds = stmt.where_predicates(g)
            out = []
            for p in preds:
                p = re.sub(r'\b[A-Za-z_]+ \. ', '', p)      # strip alias qualifiers
                p = ' '.join(p.split())
                out.append(p)
            return out
    return None


def r1_sibling_form_predicate(ctx, res):
    table = {}
    for fname in FUNCS:
        f = ctx.repo.func('_queries', fname)
        sites = ctx.sites_of(f.key)
        n = 0
        for s in sites:
            for v in s.variants:
                if v.stmt is None or v.facts.get('forms') is not True:
                    continue
                n += 1
                normalized = v.facts.get('normalized') is True
                allforms = v.facts.get('search_all_forms') is True
                preds = _form_predicates(v.stmt)
                key = f'form-predicate:{fname}:normalized={normalized}:all_forms={allforms}'
                res.inst(key, s.loc, f'{preds}')
                if preds is None:
                    res.find(key, s.loc, f'{fname}: no sub-query over forms/wordforms found in the form-search variant')
                    continue
                core = [p for p in preds if 'lexicon_rowid' not in p]
                want = ['( form IN wordforms OR normalized_form IN wordforms )' if normalized else '( form IN wordforms )']
                if not allforms:
                    want.append('rank = 0')
                if core != want:
                    res.find(key, s.loc,
                             f'{fname} searches forms with {core}; expected {want}: the stored form (or, with a normalizer, the '
                             f'normalized column) must equal the query, the lemma restriction `rank = 0` applies iff search_all_forms '
                             f'is off and must cover both arms of the disjunction')
                table.setdefault((normalized, allforms), {})[fname] = tuple(core)
                if 'wordforms' not in v.stmt.ctes or v.stmt.ctes['wordforms']['values_of'] != 'forms':
                    res.find(key + ':cte', s.loc, f'{fname}: the wordforms CTE is not VALUES over the query forms')
        if n == 0:
            raise AnalysisError(f'no form-search variant extracted for {fname}')
    for combo, per in table.items():
        key = f'siblings-agree:normalized={combo[0]}:all_forms={combo[1]}'
        res.inst(key, 'wn/_queries.py', f'{per}')
        if len(set(per.values())) != 1 or set(per) != set(FUNCS):
            res.find(key, 'wn/_queries.py', f'the three find_* queries disagree on the form predicate: {per}')
    # pos condition present iff pos
    for fname, col in (('find_entries', 'e.pos = ?'), ('find_senses', 'e.pos = ?'), ('find_synsets', 'ss.pos = ?')):
        f = ctx.repo.func('_queries', fname)
        anyhas = any(col in ' '.join(v.sql.split()) for s in ctx.sites_of(f.key) for v in s.variants if v.stmt is not None)
        res.inst(f'pos-condition:{fname}:exists', f.module.loc(f.node), f'some variant filters on {col}')
        if not anyhas:
            res.find(f'pos-condition:{fname}:exists', f.module.loc(f.node),
                     f'{fname} takes a pos argument but no statement variant contains `{col}`: the part-of-speech filter is not honoured')
        for s in ctx.sites_of(f.key):
            for v in s.variants:
                if v.stmt is None:
                    continue
                has = col in ' '.join(v.sql.split())
                want = v.facts.get('pos') is True
                key = f'pos-condition:{fname}:{want}'
                res.inst(key, s.loc, f'pos condition present={has}')
                if has != want:
                    res.find(key, s.loc, f'{fname}: part-of-speech condition `{col}` present={has} but pos given={want}')


def r2_normaliser(ctx, res):
    core = ctx.repo.mod('_core')
    add = ctx.repo.mod('_add')
    wi = ctx.repo.func('_core', 'Wordnet.__init__')
    from ..sqlx import _default_of
    d = _default_of(wi, 'normalizer')
    key = 'default-normalizer'
    res.inst(key, core.loc(wi.node), f'default {norm(d) if d is not None else None}')
    dn = core.imports.get(d.id) if isinstance(d, ast.Name) else None
    an = add.imports.get('normalize_form')
    if dn is None or an is None or dn != an or dn != ('obj', 'wn._util', 'normalize_form'):
        res.find(key, core.loc(wi.node), f'the default normalizer of Wordnet ({dn}) is not the function that fills forms.normalized_form at add '
                                         f'time ({an}): the normalized column and the normalized query no longer meet')
    nf = ctx.repo.func('_util', 'normalize_form')
    key = 'normalize_form-definition'
    rets = [norm(r.value) for r in walk_no_nested(nf.node) if isinstance(r, ast.Return)]
    res.inst(key, nf.module.loc(nf.node), f'{rets}')
    if rets != ["''.join((c for c in normalize('NFKD', s.lower()) if not combining(c)))"]:
        res.find(key, nf.module.loc(nf.node), f'normalize_form is no longer lower-casing + NFKD + dropping combining marks: {rets}')
    from .c01 import computed_bindings
    b = computed_bindings(ctx)
    key = 'normalized-column'
    alts = sorted(x[-1] for x in b.get(('forms', 'normalized_form'), []))
    res.inst(key, 'wn/_add.py', f'{alts}')
    for a in alts:
        m = re.fullmatch(r'\(normalize_form\((.+)\) if normalize_form\((.+)\) != (.+) else const:None\)', a)
        if not m or len({m.group(1), m.group(2), m.group(3)}) != 1:
            res.find(key, 'wn/_add.py', f'forms.normalized_form is written as `{a}`; expected normalize_form(form) when different from the form, '
                                        f'else NULL')
    if len(alts) != 2:
        res.find(key + ':sites', 'wn/_add.py', f'expected the lemma and the further forms to write normalized_form, found {len(alts)} bindings')


def r3_backoff(ctx, res):
    f = ctx.repo.func('_core', '_find_helper')
    src = Frag(f.node)
    loc = f.module.loc(f.node)

    def chk(key, ok, msg):
        res.inst(key, loc, 'anchor')
        if not ok:
            res.find(key, loc, msg)
    chk('lemmatize-or-empty', 'forms = lemmatize(form, pos) if lemmatize else {}' in src,
        '_find_helper no longer takes the candidate forms from the lemmatizer (or nothing without one)')
    ifs = [n for n in walk_no_nested(f.node) if isinstance(n, ast.If)]
    chk('fallback-to-query', any(norm(i.test) == 'not forms' and [norm(s) for s in i.body] == ['forms = {pos: {form}}'] for i in ifs),
        '_find_helper no longer falls back to the query form itself exactly when the lemmatizer proposes nothing')
    chk('normalized-flag', "kwargs['normalized'] = bool(normalize)" in src,
        "_find_helper no longer searches the normalized column exactly when a normalizer is set (kwargs['normalized'] = bool(normalize))")
    second = [i for i in ifs if norm(i.test) == 'not results and normalize']
    chk('backoff-conditional', len(second) == 1,
        'the second search round (normalized query) is no longer control-dependent on `not results and normalize`')
    comps = [n for n in walk_no_nested(f.node) if isinstance(n, ast.ListComp) and len(n.generators) == 2]
    rounds = [c for c in comps if norm(c.generators[0].iter) == 'forms.items()']
    chk('both-rounds-same-items', len(rounds) == 2 and all(norm(c.generators[0].target) == '(_pos, _forms)' for c in rounds),
        'the two search rounds no longer range over the same (pos, forms) items of the lemmatizer result')
    calls = [norm(c.generators[1].iter) for c in rounds]
    chk('first-round-call', any(c == 'query_func(forms=_forms, pos=_pos, **kwargs)' for c in calls),
        f'first round no longer calls query_func(forms=_forms, pos=_pos, **kwargs): {calls}')
    chk('second-round-call', any(c == 'query_func(forms=[normalize(f) for f in _forms], pos=_pos, **kwargs)' for c in calls),
        f'second round no longer searches the normalized query forms with the same pos: {calls}')
    if second:
        inside = any(any(x is r for x in ast.walk(second[0])) for r in rounds)
        chk('second-round-inside-if', inside, 'the normalized round is not inside the `not results and normalize` branch')
    chk('no-form-easy-case', any(norm(i.test) == 'form is None' and i.body and isinstance(i.body[-1], ast.Return) for i in ifs)
        and 'query_func(pos=pos, **kwargs)' in src,
        '_find_helper no longer returns all entities of the part of speech when no form is given')
    kw = None
    for n in walk_no_nested(f.node):
        if isinstance(n, ast.AnnAssign) and norm(n.target) == 'kwargs' and isinstance(n.value, ast.Dict):
            kw = {k.value: norm(v) for k, v in zip(n.value.keys, n.value.values)}
    chk('kwargs', kw == {'lexicon_rowids': 'w._lexicon_ids', 'search_all_forms': 'w._search_all_forms'},
        f'_find_helper builds its query arguments as {kw}')


def r4_dedupe(ctx, res):
    f = ctx.repo.func('_core', '_find_helper')
    src = Frag(f.node)
    key = 'dedupe-order-preserving'
    res.inst(key, f.module.loc(f.node), 'seen set + list append')
    loops = [n for n in walk_no_nested(f.node) if isinstance(n, ast.For) and norm(n.iter) == 'results']
    ok = len(loops) == 1 and 'if result not in seen' in norm(loops[0]) and 'unique_results.append(result)' in norm(loops[0]) \
        and 'seen.add(result)' in norm(loops[0]) and 'return unique_results' in src
    if not ok:
        res.find(key, f.module.loc(f.node), '_find_helper no longer de-duplicates its results in first-occurrence order')
    from .c13 import ont_subset
    from ..runtime import Result
    tmp = Result('tmp')
    ont_subset(ctx, tmp, '_core', 'ont')
    for fd in tmp.findings:
        if '_find_helper' in fd.key:
            res.find(fd.key, fd.loc, fd.message)
    res.inst('ont:_find_helper', f.module.loc(f.node), 'no set-ordered value reaches the result')


RULES = [
    ('C09-R1', r1_sibling_form_predicate, 20),
    ('C09-R2', r2_normaliser, 3),
    ('C09-R3', r3_backoff, 10),
    ('C09-R4', r4_dedupe, 2),
]
