"""C01 — the query API reports exactly the content of every added lexicon."""
from __future__ import annotations
import ast
import re
from ..src import norm, walk_no_nested, AnalysisError
from ..rowshape import insert_bindings, rows_of
from ..descr import Describer
from ..model import SubscriptChecker
from ..pyutil import get_arg, binding_sites, parents
from ..scoping import kwargs_keys
from .. import sql as S

META = {
    'title': 'Query API reports exactly the content of every added lexicon',
    'technique': 'embedded-SQL extraction + compile (EXPLAIN), symbolic bind-parameter alignment, column<->model-key binding table',
    'explanation': (
        'Round-trip equality over all documents is not statically decidable; the check decides the structural agreement '
        'of importer, schema, model and readers - the dropped column / swapped bind parameter / wrong rank / wrong owner '
        'failure class. R1 every statement variant compiles against the current schema and its symbolic parameter '
        'sequence equals its placeholder sequence group by group (also in code no test executes). R2 every value slot '
        'of every positional INSERT is fed by the model key the frozen binding table prescribes for that column '
        '(descriptors are variable-name free: Class.key, ?=default, lid(..), enum(start)@iterable). R3 each id->rowid '
        'sub-select pairs an id with the owner of that same id. R4 no optional model key is subscripted unguarded in '
        'the importer. R5 ranks written and ranks used to find forms again come from the same enumeration, and queries '
        'whose order is part of the API order by the rank column. R6 optional booleans use one default everywhere. '
        'R7 every consumer of a query row unpacks as many fields as the SELECT list has, in the prescribed order. '
        'R8 declared column types have converters/adapters and PARSE_DECLTYPES is on. R10 every row collection given to '
        'executemany inside a loop is created inside that loop iteration (no re-insertion of earlier batches). R9 no record shares a mutable object that is later updated in place. R10 every row collection given to executemany inside a loop is created in that iteration. R11 the reader accumulates element text over all character-data callbacks (shared with C02-R2). R12 no id look-up of the importer uses `IS <placeholder>`. R14 a reader uses SELECT DISTINCT only when it selects the rowid of the table it lists (tags, definitions, examples, counts are multisets). R15 the 1.1+ subcat links are collected from the local senses of every entry, external entries included.'),
    'decides': ['statement/parameter arity and order', 'column <-> model key binding', 'owner pairing', 'optional keys',
                'rank agreement', 'default agreement', 'reader arity/order', 'type converters', 'no shared records', 'exactly-once insertion per batch'],
    'not_decided': ['equality of stored and reported values', '_batch slicing arithmetic', 'Unicode handling (delegated to sqlite3)'],
    'assumptions': ['the binding table (wnstatic/rules/c01_bindings.py) was written from schema.sql and the LMF model and confirmed by reading'],
}


# ---------------------------------------------------------------------------
# R1

def _feasible(ctx, func, variant):
    """is the combination of truthy parameters asserted by the variant's path produced by some call site?"""
    need = {p for p in func.params if variant.facts.get(p) is True}
    if len(need) < 2:
        return True
    callers = ctx.cg.callers_of(func)
    if not callers:
        return True
    for caller, call in callers:
        passed = set()
        params = func.params
        skip = 1 if func.cls is not None and params and params[0] in ('self', 'cls') else 0
        for i, a in enumerate(call.args):
            if isinstance(a, ast.Starred):
                passed |= set(params)
                break
            if i + skip < len(params):
                passed.add(params[i + skip])
        for kw in call.keywords:
            if kw.arg is not None:
                passed.add(kw.arg)
            elif isinstance(kw.value, ast.Name):
                ks = kwargs_keys(caller, kw.value.id)
                passed |= set(ks) if ks else set(params)
            else:
                passed |= set(params)
        if need <= passed:
            return True
    return False


def r1_compile_arity(ctx, res):
    schema = ctx.schema
    nvar = 0
    skipped = 0
    for site in ctx.sites:
        func = site.func
        if site.attr == 'executescript':
            continue
        for u in site.unresolved:
            key = f'resolve:{site.key}'
            res.inst(key, site.loc, 'statement text resolvable')
            res.find(key, site.loc, f'cannot recover the SQL text sent by {func.qualname}: {u!r}')
        for v in site.variants:
            nvar += 1
            st = v.stmt
            key = f'stmt:{func.key}:{" ".join(v.sql.split())[:70]}'
            feasible = _feasible(ctx, func, v)
            res.inst(key, site.loc, f'{st.verb} variant, params {v.params[0]}')
            named = [p.name for p in st.placeholders if p.kind == 'named']
            try:
                if named:
                    schema.explain(S.render(v.sql), names=named)
                else:
                    schema.explain(S.render(v.sql), S.render(v.sql).count('?'))
            except Exception as exc:  # noqa: BLE001
                res.find(key, site.loc, f'statement does not compile against wn/schema.sql: {exc}', sql=' '.join(v.sql.split())[:300])
                continue
            if not feasible:
                skipped += 1
                continue
            kind, params = v.params
            if site.attr == 'execute':
                if kind == 'pos':
                    want = [('one', None) if p.kind == 'one' else ('many', p.name) for p in st.placeholders if p.kind != 'named']
                    got = [(k, None if k == 'one' else t) for k, t in params]
                    if named:
                        res.find(key, site.loc, f'named placeholders {named} but positional parameters')
                    elif want != got:
                        res.find(key, site.loc,
                                 f'bind parameters do not line up with the placeholders of the statement: statement has '
                                 f'{_fmt(want)}, call passes {_fmt([(k, t) for k, t in params])}',
                                 sql=' '.join(v.sql.split())[:300])
                elif kind == 'named':
                    missing = set(named) - set(params)
                    if missing:
                        res.find(key, site.loc, f'named placeholders {sorted(missing)} are not provided (keys {sorted(params)})')
                elif kind == 'opaque':
                    rows = rows_of(func, v.exec.params_node, False)
                    if named and all(r.opaque or (r.named and '*' in r.named) for r in rows):
                        _check_mapping_type(ctx, res, key, site, func, v.exec.params_node, named)
                    else:
                        _check_rows(res, key, site, st, rows, named)
                else:
                    res.find(key, site.loc, f'cannot resolve the bind parameters: {params}')
            else:   # executemany
                rows = rows_of(func, v.exec.params_node, True)
                _check_rows(res, key, site, st, rows, named)
    res.note(f'{nvar} statement variants compiled; {skipped} skipped for arity because no call site produces their '
             f'argument combination')
    if nvar < 150:
        raise AnalysisError(f'only {nvar} statement variants extracted')


_DESCRIBERS = {}


def _check_mapping_type(ctx, res, key, site, func, pnode, named):
    """a mapping handed to a statement with :named placeholders: every name must be a required key of its model type
    (unknown types cannot be decided and are accepted)."""
    d = _DESCRIBERS.get((id(ctx.repo), func.key))
    if d is None:
        d = _DESCRIBERS[(id(ctx.repo), func.key)] = Describer(ctx, func)
    t = d.typer.typeof(pnode, d.env_at(pnode))
    if t is None:
        return
    for nm in sorted(set(named)):
        st = ctx.model.keyinfo(t, nm)
        if st in ('opt', 'absent'):
            res.find(key, site.loc, f'named placeholder :{nm} is bound from `{norm(pnode)}` of type {t!r}, where key {nm!r} is '
                                    f'{"optional" if st == "opt" else "not defined"}')


def _fmt(seq):
    return '[' + ', '.join('?' if k == 'one' and not t else (f'?={t}' if k == 'one' else f'*{t}') for k, t in seq) + ']'


def _check_rows(res, key, site, st, rows, named):
    nq = sum(1 for p in st.placeholders if p.kind == 'one')
    if any(p.kind == 'many' for p in st.placeholders):
        res.find(key, site.loc, 'variable-length placeholder group in a row statement')
    for r in rows:
        if r.opaque:
            res.find(key, site.loc, f'cannot resolve the shape of the rows bound to this statement: {r.opaque}')
        elif r.elts is not None:
            if named:
                res.find(key, site.loc, f'named placeholders {named} but positional rows')
            elif any(isinstance(x, ast.Starred) for x in r.elts):
                res.find(key, site.loc, 'row built with a * splat: arity not decidable')
            elif len(r.elts) != nq:
                res.find(key, site.loc, f'rows have {len(r.elts)} values but the statement has {nq} placeholders',
                         row=', '.join(norm(x) for x in r.elts)[:200])
        elif r.named is not None:
            if not named and nq:
                res.find(key, site.loc, 'positional placeholders but mapping rows')
            keys = set(r.named) - {'*', '*defaults'}
            if '*' not in r.named:
                missing = set(named) - keys
                if missing:
                    res.find(key, site.loc, f'named placeholders {sorted(missing)} not present in the row mapping {sorted(keys)}')


# ---------------------------------------------------------------------------
# R2 / R3

def computed_bindings(ctx, with_sites=False):
    table = {}
    sites = {}
    describers = {}
    for b in insert_bindings(ctx):
        d = describers.setdefault(b.func.key, Describer(ctx, b.func))
        for sl in b.slots:
            if sl.column is None:
                continue
            if sl.kind == 'null':
                desc = ('null',)
            elif sl.kind == 'expr':
                desc = ('sql:' + sl.text.replace(' ', ''),)
            else:
                desc = tuple(d.describe(e, e, 0, b.row) if e is not None else 'missing' for e in sl.exprs)
                if sl.kind == 'subselect':
                    desc = (f'{sl.sub_table}',) + desc
            verb = 'INSERT' + (f' OR {b.variant.stmt.or_clause}' if b.variant.stmt.or_clause else '')
            if b.variant.stmt.on_conflict():
                verb += ' ON CONFLICT'
            full = (verb,) + desc
            table.setdefault((b.table, sl.column), set()).add(full)
            sites.setdefault((b.table, sl.column, full), []).append(b)
        # the conditions under which a row is produced at all (which elements of the document get a row)
        g = (verb_of(b),) + row_guards(d, b)
        table.setdefault((b.table, ROW_GUARD), set()).add(g)
        sites.setdefault((b.table, ROW_GUARD, g), []).append(b)
    return (table, sites) if with_sites else table


ROW_GUARD = '<row produced when>'


def verb_of(b):
    verb = 'INSERT' + (f' OR {b.variant.stmt.or_clause}' if b.variant.stmt.or_clause else '')
    if b.variant.stmt.on_conflict():
        verb += ' ON CONFLICT'
    return verb


def _unfiltered_source(desc):
    """iterating `list[<anything> over X]` (a comprehension / collecting helper without a filter) visits one item per item of
    X: as a statement about which rows exist it is `X`"""
    while desc.startswith(('list[', 'gen[')) and desc.endswith(']'):
        inner = desc[desc.index('[') + 1:-1]
        # split at the last top-level ' over '
        depth, pos = 0, -1
        for i, ch in enumerate(inner):
            if ch in '[(':
                depth += 1
            elif ch in '])':
                depth -= 1
            elif depth == 0 and inner.startswith(' over ', i):
                pos = i
        if pos < 0:
            break
        tail = inner[pos + 6:]
        d2, has_if, multi = 0, False, False
        for i, ch in enumerate(tail):
            if ch in '[(':
                d2 += 1
            elif ch in '])':
                d2 -= 1
            elif d2 == 0 and tail.startswith(' if ', i):
                has_if = True
            elif d2 == 0 and tail.startswith(' , ', i):
                multi = True
        if has_if or multi:
            break
        desc = tail
    return desc


_NEG_OPS = {ast.Eq: '!=', ast.NotEq: '==', ast.Is: 'is not', ast.IsNot: 'is', ast.In: 'not in', ast.NotIn: 'in'}


def row_guards(d, b):
    """descriptors of the tests that dominate the creation of a row: enclosing ifs, preceding early exits in the
    enclosing loops, comprehension filters - plus the iterables the row ranges over."""
    from ..loops import _dominating_facts
    node = b.row.node
    out = []
    if node is None:
        return ()
    anchor = node
    if b.row.elts:
        anchor = getattr(b.row.elts[0], '_parent', node) or node
    from ..effects import neg_ast
    for test, pol in _dominating_facts(anchor, b.func.node):
        if not pol and isinstance(test, ast.Compare) and len(test.ops) == 1 and type(test.ops[0]) in _NEG_OPS:
            # the falsity of `a != b` is `a == b`: described on the original operands
            out.append(f'{d.describe(test.left, test, 1, b.row)} {_NEG_OPS[type(test.ops[0])]} {d.describe(test.comparators[0], test, 1, b.row)}')
            continue
        if not pol:
            nt = neg_ast(test)
            if not (isinstance(nt, ast.UnaryOp) and isinstance(nt.op, ast.Not)):
                # negation normal form: the falsity of `not a or b == c` is `a and b != c`; the rebuilt test stands where the
                # original stood (parent links and position are what the descriptor analysis resolves names with)
                for par in ast.walk(nt):
                    for ch in ast.iter_child_nodes(par):
                        ch._parent = par
                    if not hasattr(par, 'lineno') and hasattr(test, 'lineno'):
                        par.lineno, par.col_offset = test.lineno, test.col_offset
                        par.end_lineno, par.end_col_offset = getattr(test, 'end_lineno', test.lineno), getattr(test, 'end_col_offset', 0)
                nt._parent = getattr(test, '_parent', None)
                test, pol = nt, True
        c = d._cond(test, test, 0, b.row)
        c = c if pol else f'not ({c})'
        while c.startswith('not (not (') and c.endswith('))'):
            c = c[len('not (not ('):-2]
        out.append(c)
    its = []
    for tgt, it in b.row.gens:
        o = 'over ' + _unfiltered_source(d.describe(it, it, 1, b.row))
        # iterables that say nothing about the document (batches of a local list, the table/statement pairs of a helper loop)
        # are implementation detail
        if not re.search(r'[A-Z][a-z]+[A-Za-z|]*\.|param:|each\(|expr:', o):
            continue
        if o not in its:
            its.append(o)
    return tuple(sorted(set(out))) + tuple(its)


def r2_bindings(ctx, res):
    from .c01_bindings import BINDINGS
    table, sites = computed_bindings(ctx, with_sites=True)
    n = 0
    for b in insert_bindings(ctx):
        for pr in b.problems:
            res.find(f'shape:{b.func.key}:{b.table}', b.site.loc, f'INSERT INTO {b.table} in {b.func.qualname}: {pr}')
        if b.row.opaque:
            res.find(f'shape:{b.func.key}:{b.table}:opaque', b.site.loc,
                     f'cannot resolve the rows inserted into {b.table} by {b.func.qualname}: {b.row.opaque}')
    for (t, c), alts in sorted(table.items()):
        want = {tuple(a) for a in BINDINGS.get((t, c), [])}
        for a in sorted(alts):
            n += 1
            key = f'bind:{t}.{c}<-{" ; ".join(a)}'[:300]
            loc = sites[(t, c, a)][0].site.loc
            res.inst(key, loc, f'{t}.{c}')
            if a not in want:
                res.find(key, loc,
                         f'{t}.{c} is fed by {list(a)} in {sites[(t, c, a)][0].func.qualname}; the binding table prescribes '
                         f'{[list(w) for w in sorted(want)] or "nothing (column/table not in the table)"}: a column fed from the '
                         f'wrong model key, a swapped value or a constant in place of data is stored silently')
        for wdesc in sorted(want - alts):
            key = f'bind-missing:{t}.{c}<-{" ; ".join(wdesc)}'[:300]
            res.inst(key, 'wn/_add.py', f'{t}.{c}')
            res.find(key, 'wn/_add.py', f'no INSERT feeds {t}.{c} from {list(wdesc)} any more (prescribed by the binding table): '
                                        f'that part of the document is no longer stored')
    for (t, c) in sorted(set(BINDINGS) - set(table)):
        if c == ROW_GUARD:
            continue
        key = f'bind-missing:{t}.{c}'
        res.inst(key, 'wn/_add.py', f'{t}.{c}')
        res.find(key, 'wn/_add.py', f'column {t}.{c} is no longer written by any INSERT of the importer')
    # every column of every content table is covered by the table
    for t, cols in ctx.schema.tables.items():
        for col in cols:
            k = f'column-covered:{t}.{col.name}'
            res.inst(k, 'wn/schema.sql', 'column has a prescribed source')
            if (t, col.name) not in BINDINGS:
                res.find(k, 'wn/schema.sql', f'column {t}.{col.name} exists in the schema but the binding table has no source for it')
    if n < 100:
        raise AnalysisError(f'only {n} slot bindings computed')


def r3_owner_pairing(ctx, res):
    describers = {}
    n = 0
    for b in insert_bindings(ctx):
        d = describers.setdefault(b.func.key, Describer(ctx, b.func))
        for sl in b.slots:
            if sl.kind != 'subselect' or sl.locality == 'lookup' or len(sl.exprs) < 2:
                continue
            descs = [d.describe(e, e, 0, b.row) if e is not None else 'missing' for e in sl.exprs]
            # find the (id, lexicon) pair: the lexicon expression is the one compared with lexicon_rowid
            pairs = _id_lex_pairs(sl, descs)
            for idd, lexd in pairs:
                n += 1
                key = f'owner:{b.table}.{sl.column}:{idd}'
                res.inst(key, b.site.loc, f'({idd}, {lexd})')
                if lexd.startswith('lid('):
                    inner = lexd[4:-1]
                    if _strip_default(inner) != _strip_default(idd):
                        res.find(key, b.site.loc,
                                 f'{b.table}.{sl.column}: the row of `{idd}` is looked up in the lexicon that owns `{inner}`: '
                                 f'in a lexicon extension the id resolves to the wrong lexicon (or to nothing)')
                elif lexd == 'lexid':
                    if sl.locality not in ('owner-local',):
                        res.find(key, b.site.loc, f'{b.table}.{sl.column}: `{idd}` may denote an external element but is looked '
                                                  f'up only in the inserting lexicon')
                    elif not _is_own_row(b, sl, idd):
                        res.find(key, b.site.loc, f'{b.table}.{sl.column}: `{idd}` is looked up in the inserting lexicon although it '
                                                  f'can name an element of the extended lexicon')
                else:
                    res.find(key, b.site.loc, f'{b.table}.{sl.column}: unexpected owner expression `{lexd}` for `{idd}`')
    if n < 15:
        raise AnalysisError(f'only {n} id->rowid sub-selects found')


def _id_lex_pairs(sl, descs):
    toks = S._TOK.findall(sl.text)
    qi = -1
    lex_idx = None
    id_idx = None
    for i, tk in enumerate(toks):
        if tk == '?':
            qi += 1
            back = toks[max(0, i - 4):i]
            if 'lexicon_rowid' in back:
                lex_idx = qi
            elif 'id' in back and id_idx is None:
                id_idx = qi
    if lex_idx is None or id_idx is None or max(lex_idx, id_idx) >= len(descs):
        return []
    return [(descs[id_idx], descs[lex_idx])]


def _strip_default(d):
    import re
    return re.sub(r"\?=[^.)\]]*", '?', d)


def _is_own_row(b, sl, idd):
    """with a plain `lexid` owner the id must be one the inserting lexicon itself defines."""
    if sl.sub_table == 'syntactic_behaviours':
        return True
    from ..rowshape import is_local_var
    for e in sl.exprs:
        base = e
        while isinstance(base, (ast.Subscript, ast.Attribute)):
            base = base.value
        if isinstance(base, ast.Name) and base.id != 'lexid':
            return is_local_var(b.func, base.id, b.row)
    return False


# ---------------------------------------------------------------------------
# R4

def r4_optional_keys(ctx, res):
    mod = ctx.repo.mod('_add')
    model = ctx.model
    n = 0
    for f in mod.funcs.values():
        def on(node, t, st, guarded, f=f):
            nonlocal n
            n += 1
            key = f'key:{f.key}:{norm(node)}'
            res.inst(key, f.module.loc(node), f'{st}{" guarded" if guarded else ""} on {t!r}')
            if st in ('opt', 'absent') and not guarded:
                what = 'optional in' if st == 'opt' else 'not a key of'
                res.find(key, f.module.loc(node),
                         f'`{norm(node)}` in {f.qualname}: key {node.slice.value!r} is {what} {t!r} and the access is not '
                         f'guarded: a valid document that omits the attribute makes add() fail with KeyError')
        SubscriptChecker(model, ctx, f, on).run()
    if n < 60:
        raise AnalysisError(f'only {n} model-typed subscripts resolved in wn/_add.py')


# ---------------------------------------------------------------------------
# R5

def r5_ranks(ctx, res):
    table = computed_bindings(ctx)

    def descs(t, c):
        return sorted(table.get((t, c), []))
    # forms.rank: 0 for the lemma, enumerate(forms, 1) for the others; tags/pronunciations find the form by the same rank
    forms_rank = {d[-1] for d in descs('forms', 'rank')}
    key = 'rank:forms'
    res.inst(key, 'wn/_add.py', f'forms.rank <- {sorted(forms_rank)}')
    if forms_rank != {'const:0', 'enum(1)@LexicalEntry.forms?=[]'}:
        res.find(key, 'wn/_add.py', f'forms.rank is written from {sorted(forms_rank)}; expected 0 for the lemma and '
                                    f'enumerate(forms, 1) for further forms')
    for t in ('tags', 'pronunciations'):
        key = f'rank:{t}-lookup'
        got = set()
        for d in descs(t, 'form_rowid'):
            got.add(d[-1])
        res.inst(key, 'wn/_add.py', f'{t}.form_rowid rank argument <- {sorted(got)}')
        want = {'const:0', '(const:-1 if external(Form) else enum(1)@LexicalEntry.forms?=[])'}
        if got != want:
            res.find(key, 'wn/_add.py', f'{t} rows find their form with rank {sorted(got)}, but forms are stored with rank '
                                        f'{sorted(forms_rank)} (expected lookup ranks {sorted(want)}): the child rows attach to the '
                                        f'wrong form or to none')
    key = 'rank:senses.entry_rank'
    er = {d[-1] for d in descs('senses', 'entry_rank')}
    res.inst(key, 'wn/_add.py', f'{sorted(er)}')
    if er != {'enum(0)@_local_senses(LexicalEntry.senses?=[])'}:
        res.find(key, 'wn/_add.py', f'senses.entry_rank is written from {sorted(er)}; expected the index of the sense among the '
                                    f"entry's local senses")
    key = 'rank:senses.synset_rank'
    sr = {d[-1] for d in descs('senses', 'synset_rank')}
    res.inst(key, 'wn/_add.py', f'{sorted(sr)}')
    want_sr = ('dict[each(Synset.members?=[]): enum(0)@Synset.members?=[] over _local_synsets(param:synsets) , '
               'enumerate(Synset.members?=[])].get(Sense.id, DEFAULT_MEMBER_RANK)')
    if sr != {want_sr}:
        res.find(key, 'wn/_add.py', f'senses.synset_rank is written from {sorted(sr)}; expected the position of the sense id in '
                                    f'Synset@members over the local synsets (default DEFAULT_MEMBER_RANK)')
    k2 = 'rank:ssrank-map'
    res.inst(k2, 'wn/_add.py', 'member id -> index in Synset.members')
    # ORDER BY of the readers
    wants = {
        ('_queries.find_entries', None): 'f.rank',
        ('_queries._get_senses', 'entry'): 's.entry_rank',
        ('_queries._get_senses', 'synset'): 's.synset_rank',
    }
    for site in ctx.sites:
        for v in site.variants:
            if v.stmt is None or v.stmt.verb != 'SELECT':
                continue
            for (fk, binding), col in wants.items():
                if site.func.key != fk:
                    continue
                if binding is not None and f's.{binding}_rowid = ?' not in ' '.join(v.sql.split()):
                    continue
                key = f'orderby:{fk}:{binding or ""}'
                ob = (v.stmt.order_by() or '').replace(' ', '')
                res.inst(key, site.loc, f'ORDER BY {ob}')
                items = ob.split(',') if ob else []
                if not items or items[-1].lower() not in (col, col + 'asc'):
                    res.find(key, site.loc, f'{site.func.qualname}: result order is part of the API (document order) but the statement '
                                            f'orders by `{ob or "nothing"}`; expected the last key {col}')
    # find_synsets with a form orders by entry and sense rank
    for site in ctx.sites_of('_queries.find_synsets'):
        for v in site.variants:
            if v.facts.get('forms') is True:
                key = 'orderby:find_synsets:forms'
                ob = (v.stmt.order_by() or '').replace(' ', '')
                res.inst(key, site.loc, f'ORDER BY {ob}')
                if ob != 's.entry_rowid,s.entry_rank':
                    res.find(key, site.loc, f'find_synsets(form) orders by `{ob or "nothing"}`; expected s.entry_rowid, s.entry_rank')


# ---------------------------------------------------------------------------
# R6

BOOL_DEFAULTS = {'lexicalized': 'True', 'phonemic': 'True'}


def r6_defaults(ctx, res):
    n = 0
    for m in ctx.repo.modules.values():
        for node in ast.walk(m.tree):
            if isinstance(node, ast.Call) and isinstance(node.func, ast.Attribute) and node.func.attr == 'get' and node.args \
                    and isinstance(node.args[0], ast.Constant) and node.args[0].value in BOOL_DEFAULTS:
                k = node.args[0].value
                if len(node.args) < 2:
                    # truthiness probe like `if elem.get('lexicalized'):` in the loader's normaliser is fine
                    continue
                n += 1
                f = m.enclosing_func(node)
                key = f'default:{m.short}.{f.qualname if f else "<module>"}:{k}:{norm(node.func.value)}'
                res.inst(key, m.loc(node), norm(node))
                if norm(node.args[1]) != BOOL_DEFAULTS[k]:
                    res.find(key, m.loc(node), f'`{norm(node)}`: every other reader of {k!r} defaults to {BOOL_DEFAULTS[k]} '
                                               f'(an absent attribute means {BOOL_DEFAULTS[k]})')
    # the readers' defaults on the query side: get_lexicalized returns False only for the placeholder rowid
    if n < 4:
        raise AnalysisError(f'only {n} reads of optional boolean keys found')


# ---------------------------------------------------------------------------
# R7

# canonical select lists (table.column) of the query functions whose rows are splatted into constructors / unpacked
SELECT_LISTS = {
    'find_senses': ['senses.id', 'entries.id', 'synsets.id', 'senses.lexicon_rowid', 'senses.rowid'],
    '_get_senses': ['senses.id', 'entries.id', 'synsets.id', 'senses.lexicon_rowid', 'senses.rowid'],
    'find_synsets': ['synsets.id', 'synsets.pos', 'ilis.id', 'synsets.lexicon_rowid', 'synsets.rowid'],
    'get_synsets_for_ilis': ['synsets.id', 'synsets.pos', 'ilis.id', 'synsets.lexicon_rowid', 'synsets.rowid'],
    'get_synset_relations': ['rel.type', 'rel.lexicon', 'rel.metadata', 'rel.source_rowid', 'synsets.id', 'synsets.pos',
                             'ilis.id', 'synsets.lexicon_rowid', 'synsets.rowid'],
    'get_sense_synset_relations': ['rel.type', 'rel.lexicon', 'rel.metadata', 'rel.source_rowid', 'synsets.id', 'synsets.pos',
                                   'ilis.id', 'synsets.lexicon_rowid', 'synsets.rowid'],
    'get_sense_relations': ['rel.type', 'rel.lexicon', 'rel.metadata', 'senses.id', 'entries.id', 'synsets.id',
                            'senses.lexicon_rowid', 'senses.rowid'],
    'find_entries': ['entries.lexicon_rowid', 'entries.rowid', 'entries.id', 'entries.pos', 'forms.form', 'forms.id',
                     'forms.script', 'forms.rowid'],
    'get_form_pronunciations': ['pronunciations.value', 'pronunciations.variety', 'pronunciations.notation',
                                'pronunciations.phonemic', 'pronunciations.audio'],
    'get_form_tags': ['tags.tag', 'tags.category'],
    'get_definitions': ['definitions.definition', 'definitions.language', 'senses.id', 'definitions.rowid'],
    'get_examples': ['$.example', '$.language', '$.rowid'],
    'get_sense_counts': ['counts.count', 'counts.rowid'],
    '_find_existing_ilis': ['ilis.id', 'ili_statuses.status', 'ilis.definition', 'ilis.rowid'],
    'find_proposed_ilis': ['null', '"proposed"', 'proposed_ilis.definition', 'proposed_ilis.rowid'],
    'find_lexicons': ['lexicons.rowid', 'lexicons.id', 'lexicons.label', 'lexicons.language', 'lexicons.email',
                      'lexicons.license', 'lexicons.version', 'lexicons.url', 'lexicons.citation', 'lexicons.logo'],
    '_get_lexicon': ['lexicons.rowid', 'lexicons.id', 'lexicons.label', 'lexicons.language', 'lexicons.email',
                     'lexicons.license', 'lexicons.version', 'lexicons.url', 'lexicons.citation', 'lexicons.logo'],
    'find_syntactic_behaviours': ['syntactic_behaviours.id', 'syntactic_behaviours.frame', 'senses.id'],
    'get_lexicon_dependencies': ['lexicon_dependencies.provider_id', 'lexicon_dependencies.provider_version',
                                 'lexicon_dependencies.provider_url', 'lexicon_dependencies.provider_rowid'],
}
# constructor positional parameters that receive a splatted row
CTOR_PARAMS = {
    'Sense': ['id', 'entry_id', 'synset_id', '_lexid', '_id'],
    'Synset': ['id', 'pos', 'ili', '_lexid', '_id'],
    'Word': ['id', 'pos', 'forms', '_lexid', '_id'],
    'ILI': ['id', 'status', 'definition', '_id'],
    'Pronunciation': ['value', 'variety', 'notation', 'phonemic', 'audio'],
    'Form': ['form', 'id', 'script', '_id'],
}


def _canonical_select(ctx, stmt):
    items = stmt.select_list() or []
    amap = {o.alias: o.table for o in stmt.occs if o.scope == 0 and o.kind == 'table'}
    single = [o.table for o in stmt.occs if o.scope == 0 and o.kind == 'table']
    out = []
    for it in items:
        toks = S._TOK.findall(it)
        if len(toks) == 3 and toks[1] == '.':
            out.append(f'{amap.get(toks[0], toks[0])}.{toks[2]}')
        elif len(toks) == 1 and len(single) == 1:
            t = toks[0]
            out.append(f'{single[0]}.{t}' if ctx.schema.has_col(single[0], t) else t)
        elif toks and toks[0] == '(' and len(toks) > 4 and toks[1].upper() == 'SELECT':
            # scalar sub-select: (SELECT t.c FROM t ...)
            sub = S.Stmt(it.strip()[1:-1] if it.strip().startswith('(') else it)
            inner = sub.select_list() or ['?']
            am2 = {o.alias: o.table for o in sub.occs if o.kind == 'table'}
            tk = S._TOK.findall(inner[0])
            if len(tk) == 3 and tk[1] == '.':
                out.append(f'{am2.get(tk[0], tk[0])}.{tk[2]}')
            else:
                out.append(inner[0])
        else:
            out.append(it.replace(' ', ''))
    return out


def r7_readers(ctx, res):
    q = ctx.repo.mod('_queries')
    n = 0
    # (a) select lists are the prescribed ones
    for fname, want in SELECT_LISTS.items():
        sites = [s for s in ctx.sites if s.func.module.short == '_queries' and s.func.name == fname]
        if fname not in q.funcs:
            # the statement may have moved into its caller (a private helper inlined): some function must still select exactly this row
            moved = []
            for s_ in ctx.sites:
                if s_.func.module.short != '_queries':
                    continue
                for v_ in s_.variants:
                    if v_.stmt is not None and v_.stmt.verb == 'SELECT':
                        got_ = _canonical_select(ctx, v_.stmt)
                        got_ = [g if not (want and want[0].startswith('$.')) else '$.' + g.split('.')[-1] for g in got_]
                        if got_ == want:
                            moved.append(s_)
            if not moved:
                raise AnalysisError(f'anchor vanished: wn._queries.{fname}')
            res.inst(f'select-list:{fname}', moved[0].loc, f'{fname} is gone; the same row is selected by {sorted({m.func.name for m in moved})}')
            continue
        for s in sites:
            for v in s.variants:
                if v.stmt is None or v.stmt.verb != 'SELECT':
                    continue
                got = _canonical_select(ctx, v.stmt)
                got = [g if not (want and want[0].startswith('$.')) else '$.' + g.split('.')[-1] for g in got]
                key = f'select-list:{fname}'
                n += 1
                res.inst(key, s.loc, f'{got}')
                if got != want:
                    res.find(key, s.loc, f'{fname} selects {got}; consumers unpack rows as {want}: a dropped, added or swapped '
                                         f'column shifts every field read from the row')
    # (b) consumers: tuple-unpacking arity and constructor splats
    for func in ctx.repo.all_funcs():
        if func.module.short not in ('_core', '_export', '_add', 'ic', 'morphy', 'taxonomy', 'similarity'):
            continue
        for node in walk_no_nested(func.node):
            tgt, it = None, None
            if isinstance(node, ast.For):
                tgt, it = node.target, node.iter
            elif isinstance(node, ast.comprehension):
                tgt, it = node.target, node.iter
            if tgt is None or not isinstance(tgt, (ast.Tuple, ast.List)):
                continue
            qname = _query_of(ctx, func, it)
            if qname is None:
                continue
            width = _row_width(ctx, qname)
            if width is None:
                continue
            n += 1
            key = f'unpack:{func.key}:{qname}:{norm(tgt)[:50]}'
            res.inst(key, func.module.loc(node), f'unpacks {norm(tgt)} from {qname} (width {width})')
            fixed = [e for e in tgt.elts if not isinstance(e, ast.Starred)]
            star = len(fixed) != len(tgt.elts)
            if (not star and len(fixed) != width) or (star and len(fixed) > width):
                res.find(key, func.module.loc(node), f'{func.qualname} unpacks {len(tgt.elts)} fields `{norm(tgt)}` from rows of '
                                                      f'{qname}, which have {width}')
        for node in walk_no_nested(func.node):
            if isinstance(node, ast.Call) and isinstance(node.func, ast.Name) and node.func.id in CTOR_PARAMS:
                stars = [a for a in node.args if isinstance(a, ast.Starred)]
                if len(stars) != 1 or node.args[0] is not stars[0]:
                    continue
                qname = _query_of_value(ctx, func, stars[0].value)
                if qname is None:
                    continue
                width = _row_width(ctx, qname)
                n += 1
                key = f'splat:{func.key}:{node.func.id}<-{qname}'
                res.inst(key, func.module.loc(node), f'{node.func.id}(*row of {qname})')
                params = CTOR_PARAMS[node.func.id]
                cls = ctx.repo.resolve_class(func.module, node.func.id)
                actual = None
                if cls is not None:
                    init = ctx.repo.lookup_method(cls, '__init__') or ctx.repo.lookup_method(cls, '__new__')
                    if cls.name == 'Form':
                        init = ctx.repo.lookup_method(cls, '__new__')
                    if init is not None:
                        actual = [p for p in init.params[1:]]
                if actual is not None and actual[:len(params)] != params:
                    res.find(key, func.module.loc(node), f'{node.func.id} constructor takes {actual[:len(params) + 1]}; rows of {qname} '
                                                          f'are laid out for {params}')
                if width is not None and width != len(params):
                    res.find(key, func.module.loc(node), f'{node.func.id}(*row) receives {width} fields from {qname} but the '
                                                          f'constructor takes {len(params)} positional row fields')
    if n < 40:
        raise AnalysisError(f'only {n} reader obligations found')


def _query_of(ctx, func, it):
    while isinstance(it, ast.Call) and isinstance(it.func, ast.Name) and it.func.id in ('list', 'iter', 'reversed') and it.args:
        it = it.args[0]
    return _query_of_value(ctx, func, it)


def _query_of_value(ctx, func, e, depth=0):
    if depth > 4:
        return None
    if isinstance(e, ast.Call):
        if isinstance(e.func, ast.Name) and e.func.id == 'next' and e.args:
            return _query_of_value(ctx, func, e.args[0], depth + 1)
        cal = ctx.cg.resolve_call(func, e)
        names = {c.name for c in cal if c.module.short == '_queries'}
        if len(names) == 1 and len(cal) == 1:
            return names.pop()
        return None
    if isinstance(e, ast.Name):
        out = set()
        for s in binding_sites(func.node, e.id):
            if s[0] == 'assign':
                out.add(_query_of_value(ctx, func, s[1], depth + 1))
            elif s[0] in ('for', 'comp') and isinstance(s[2], ast.Name):
                out.add(_query_of(ctx, func, s[1]))
            else:
                out.add(None)
        if len(out) == 1:
            return out.pop()
    return None


def _row_width(ctx, qname):
    """number of fields of a row yielded by the query function (select list, or the tuple it yields)."""
    f = ctx.repo.mod('_queries').funcs.get(qname)
    if f is None:
        return None
    # wrappers: get_entry_senses -> _get_senses
    for n in walk_no_nested(f.node):
        if isinstance(n, ast.YieldFrom) and isinstance(n.value, ast.Call):
            cal = ctx.cg.resolve_call(f, n.value)
            if len(cal) == 1 and cal[0].module.short == '_queries' and cal[0].name != qname and cal[0].name in SELECT_LISTS:
                return _row_width(ctx, cal[0].name)
    ys = [n for n in walk_no_nested(f.node) if isinstance(n, ast.Yield) and isinstance(n.value, ast.Tuple)]
    if ys:
        ws = {len(y.value.elts) for y in ys}
        return ws.pop() if len(ws) == 1 else None
    ws = set()
    for s in ctx.sites:
        if s.func.key == f.key:
            for v in s.variants:
                if v.stmt is not None and v.stmt.verb == 'SELECT':
                    ws.add(len(v.stmt.select_list() or []))
    return ws.pop() if len(ws) == 1 else None


# ---------------------------------------------------------------------------
# R8

def r8_converters(ctx, res):
    sc = ctx.schema
    db = ctx.repo.mod('_db')
    native = {'INTEGER', 'TEXT', 'REAL', 'BLOB', 'NUMERIC', ''}
    declared = {c.type.split('(')[0].strip() for cols in sc.tables.values() for c in cols}
    convs, adapts = set(), set()
    for n in ast.walk(db.tree):
        if isinstance(n, ast.Call) and norm(n.func) == 'sqlite3.register_converter' and n.args and isinstance(n.args[0], ast.Constant):
            convs.add(str(n.args[0].value).upper())
        if isinstance(n, ast.Call) and norm(n.func) == 'sqlite3.register_adapter' and n.args:
            adapts.add(norm(n.args[0]))
    for t in sorted(declared - native):
        key = f'converter:{t}'
        res.inst(key, 'wn/_db.py', f'declared type {t} has a registered converter')
        if t not in convs:
            res.find(key, 'wn/_db.py', f'schema declares column type {t} but wn/_db.py registers no converter for it: values come '
                                       f'back as raw bytes/str')
    key = 'adapter:dict'
    res.inst(key, 'wn/_db.py', 'dict adapter registered (metadata)')
    if 'dict' not in adapts:
        res.find(key, 'wn/_db.py', 'no sqlite3 adapter for dict: metadata cannot be stored')
    cf = ctx.repo.func('_db', 'connect')
    key = 'detect-types'
    res.inst(key, cf.module.loc(cf.node), 'sqlite3.connect(detect_types=PARSE_DECLTYPES)')
    ok = False
    for n in walk_no_nested(cf.node):
        if isinstance(n, ast.Call) and norm(n.func) == 'sqlite3.connect':
            for kw in n.keywords:
                if kw.arg == 'detect_types' and 'PARSE_DECLTYPES' in norm(kw.value):
                    ok = True
    if not ok:
        res.find(key, cf.module.loc(cf.node), 'connections are opened without detect_types=sqlite3.PARSE_DECLTYPES: META and BOOLEAN '
                                              'columns are not converted back')
    # converter bodies: json round trip / bool(int())
    for fname, needles in (('_adapt_dict', ['json.dumps']), ('_convert_dict', ['json.loads']), ('_convert_boolean', ['bool', 'int'])):
        f = ctx.repo.try_func('_db', fname)
        key = f'converter-body:{fname}'
        res.inst(key, 'wn/_db.py', f'{fname} uses {needles}')
        if f is None or not all(nd in norm(f.node) for nd in needles):
            res.find(key, 'wn/_db.py', f'{fname} no longer converts with {needles}')
    # metadata values go to META columns and only there
    table = computed_bindings(ctx)
    for (t, c), alts in sorted(table.items()):
        col = sc.col(t, c)
        if col is None:
            continue
        for a in alts:
            last = a[-1]
            is_meta_src = last.endswith('.meta') or last.endswith('.meta?') or '.meta if ' in last
            key = f'meta-column:{t}.{c}'
            if col.type == 'META' or is_meta_src:
                res.inst(key, 'wn/_add.py', f'{col.type} <- {last}')
                if col.type == 'META' and not is_meta_src and last not in ('null', 'const:None'):
                    res.find(key, 'wn/_add.py', f'META column {t}.{c} is fed from `{last}`, not from a metadata mapping')
                if col.type != 'META' and is_meta_src:
                    res.find(key, 'wn/_add.py', f'metadata `{last}` is stored in non-META column {t}.{c}')


def r9_no_shared_records(ctx, res):
    """the records that add() builds before inserting (frames per sense, batches, lookup maps) do not share mutable
    objects that are later updated in place, and no helper hands out a module-level object that a caller writes into."""
    from ..sharing import report
    report(ctx, res, {'_add'}, 'add')


def r10_exactly_once(ctx, res):
    """every row collection handed to executemany() inside a loop is created inside that same loop iteration: an accumulator
    that outlives the iteration hands the rows of all earlier batches to the next executemany again (duplicate rows in
    tables without a uniqueness constraint).  Decided on the effect summaries: the `new` effect of the collection must
    lie in every loop that encloses the executemany call."""
    import re as _re
    from ..speccheck import view, short
    from ..inline import Opaque
    add = ctx.repo.mod('_add')
    n = 0
    for f in add.funcs.values():
        if '.executemany(' not in norm(f.node):
            continue
        try:
            v = view(ctx, '_add', f.qualname)
        except AnalysisError:
            continue
        news = {}
        for k, t, g, c, e in v.rows:
            if k == 'new':
                m = _re.match(r'#(\d+)', t)
                if m:
                    news.setdefault(m.group(1), []).append(c)
        for k, t, g, c, e in v.rows:
            if k not in ('call', 'eval') or '.executemany(' not in t:
                continue
            m = _re.search(r'\.executemany\((.*)\)$', t)
            loops = tuple(x for x in c if x.startswith(('for ', 'while ')))
            cells = set(_re.findall(r'#(\d+)', t[t.index('.executemany('):]))
            key = f'once:{f.qualname}:{_re.sub(r"#\d+", "#", t)[:70]}'
            n += 1
            res.inst(key, v.loc(e), f'{len(cells)} collection(s), in loops {list(loops)}')
            for cell in sorted(cells):
                for nc in news.get(cell, [()]):
                    nl = tuple(x for x in nc if x.startswith(('for ', 'while ')))
                    cleared = any(k2 in ('call', 'eval') and t2 == f'#{cell}.clear()'
                                  and tuple(x for x in c2 if x.startswith(('for ', 'while ')))[:len(loops)] == loops
                                  for k2, t2, g2, c2, e2 in v.rows)
                    if nl[:len(loops)] != loops and not cleared:
                        res.find(key, v.loc(e), f'{f.qualname}: the rows given to executemany in {list(loops) or "the function body"} are collected in a '
                                                f'list created in {list(nl) or "the function body"}, outside that loop: every iteration inserts '
                                                f'the rows of all earlier iterations again')
    if n < 20:
        raise AnalysisError(f'only {n} executemany call effects found in wn/_add.py')


def r11_reader_text(ctx, res):
    """what add() stores is what the reader built: element text (definitions, examples, ...) is accumulated over all
    character-data callbacks, the handlers are installed, and whitespace is normalised only as WN-LMF prescribes - the
    reader half of "no character of any stored string is altered" (analysis shared with C02-R2)."""
    from .c02 import reader_text_checks
    reader_text_checks(ctx, res)


def r12_id_lookups_use_equality(ctx, res):
    """the id -> rowid look-ups of the importer compare ids with `=`: `col IS ?` is true for EVERY row whose column is NULL
    when the bound value is None (forms without an id: all of them, the lemma first), so a scalar sub-select silently picks
    another row and child rows (tags, pronunciations) are attached to the wrong parent; with `=` a NULL never matches and the
    alternative (rank) decides."""
    import re as _re
    n = 0
    for s in ctx.sites:
        if s.func.module.short != '_add':
            continue
        for v in s.variants:
            if v.stmt is None or not v.stmt.is_write:
                continue
            n += 1
            sql = ' '.join(v.sql.split())
            key = f'null-safe-lookup:{s.func.key}:{v.stmt.target}'
            hits = _re.findall(r'([\w.]+)\s+IS\s+(?:NOT\s+)?(\?|:\w+)', sql, flags=_re.I)
            res.inst(key, s.loc, f'{len(hits)} IS-placeholder comparisons')
            if hits:
                res.find(key, s.loc, f'{s.func.qualname}: `{hits[0][0]} IS {hits[0][1]}` in a statement writing {v.stmt.target}: with a NULL argument '
                                     f'this matches every row whose {hits[0][0]} is NULL instead of none')
    if n < 30:
        raise AnalysisError(f'only {n} writing statement variants found in wn/_add.py')


def r13_metadata_tables(ctx, res):
    """every metadata attribute of the document reaches the database: the reader's attribute table (_DC_ATTRS / _NS_ATTRS), the
    Metadata model and the keys the writer emits are the same set (analysis of C02-R4) - an attribute missing from the reader's
    table is silently never stored."""
    from .c02 import r4_metadata_tables
    r4_metadata_tables(ctx, res)


def r14_distinct_keeps_rows(ctx, res):
    """everything stored is reported: SELECT DISTINCT merges rows that agree in every selected column, so a reader may use it
    only when the select list carries the rowid of the table whose rows it lists (duplicates are then join artefacts, not data)
    - tags, pronunciations, definitions, examples and counts are multisets: the same <Tag> twice on a form is two rows.  The
    three relation queries de-duplicate declared relations on purpose (C11-R2) and are exempt."""
    from .c11 import REL_QUERIES
    n = 0
    seen = set()
    for site in ctx.sites:
        if site.func.module.short != '_queries':
            continue
        for v in site.variants:
            st = v.stmt
            if st is None or st.verb != 'SELECT':
                continue
            sel = tuple(x.replace(' ', '') for x in (st.select_list() or []))
            sig = (site.func.name, bool(st.distinct()), sel)
            if sig in seen:
                continue
            seen.add(sig)
            n += 1
            key = f'distinct:{site.func.name}'
            if not st.distinct():
                res.inst(key, site.loc, 'no DISTINCT')
                continue
            if site.func.name in REL_QUERIES:
                res.inst(key, site.loc, 'DISTINCT over declared relations (specified: C11-R2)')
                continue
            occ0 = [o for o in st.occs if o.scope == 0 and o.kind == 'table']
            main = occ0[0] if occ0 else None
            ok = main is not None and (f'{main.alias}.rowid' in sel or ('rowid' in sel and len(occ0) == 1))
            if not ok:
                # the distinct VALUES of a shared lookup table (lexfile names, relation types): every selected column is a unique
                # key of such a table, so equal rows are the same lookup row reached through several content rows
                lookups = ctx.schema.lookup_tables()
                by_alias = {o.alias: o.table for o in occ0}

                def unique_lookup_col(item):
                    if '.' not in item:
                        return False
                    a, c = item.split('.', 1)
                    t = by_alias.get(a)
                    return t in lookups and any(u == (c,) for u in ctx.schema.uniques.get(t, []))
                if sel and all(unique_lookup_col(x) for x in sel):
                    ok = True
            res.inst(key, site.loc, f'DISTINCT; lists rows of {main.table if main else None}; row key selected: {ok}')
            if not ok:
                res.find(key, site.loc,
                         f'{site.func.name} reads with SELECT DISTINCT {list(sel)[:4]} but does not select the rowid of '
                         f'{main.table if main else "its table"}: two stored rows that agree in these columns (the same tag / text '
                         f'declared twice, or once by a lexicon and once by its extension) are reported as one')
    if n < 25:
        raise AnalysisError(f'only {n} distinct SELECT shapes found in wn/_queries.py')


def r15_subcat_links_from_every_entry(ctx, res):
    """the sense-frame links of WN-LMF 1.1+ (`<Sense subcat="...">`) are collected from the local senses of EVERY entry of the
    lexicon - a sense an extension adds inside an <ExternalLexicalEntry> is local and may name frames too; only the 1.0-style
    entry-level <SyntacticBehaviour> children are restricted to local entries.  On the effect summary of _add._collect_frames."""
    from ..speccheck import view
    v = view(ctx, '_add', '_collect_frames')
    key = 'subcat-links:every-entry'
    links = [r for r in v.rows if r[0] == 'call' and r[1].endswith(".append($2['id'])") and len(r[3]) == 3 and 'subcat' in r[3][2]]
    res.inst(key, v.loc(), f'{[(list(r[3]), sorted(r[2])) for r in links]}')
    ok = len(links) == 1 and links[0][3][0] == "for lexicon.get('entries', [])" and links[0][3][1] == "for _local_senses($1.get('senses', []))" \
        and not links[0][2]
    if not ok:
        res.find(key, v.loc(), '_collect_frames no longer takes the subcat links from the local senses of every entry (external entries '
                               f'included): {[(list(r[3]), sorted(r[2])) for r in links]} - a sense an extension adds to an external entry '
                               'loses its frames')

RULES = [
    ('C01-R1', r1_compile_arity, 150),
    ('C01-R2', r2_bindings, 200),
    ('C01-R3', r3_owner_pairing, 15),
    ('C01-R4', r4_optional_keys, 60),
    ('C01-R5', r5_ranks, 8),
    ('C01-R6', r6_defaults, 4),
    ('C01-R7', r7_readers, 40),
    ('C01-R8', r8_converters, 8),
    ('C01-R9', r9_no_shared_records, 2),
    ('C01-R10', r10_exactly_once, 20),
    ('C01-R11', r11_reader_text, 3),
    ('C01-R12', r12_id_lookups_use_equality, 30),
    ('C01-R13', r13_metadata_tables, 3),
    ('C01-R14', r14_distinct_keeps_rows, 25),
    ('C01-R15', r15_subcat_links_from_every_entry, 1),
]
