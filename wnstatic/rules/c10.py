"""C10 — navigation between words, senses and synsets is referentially faithful (two structural clauses + guard)."""
from __future__ import annotations
import ast
from ..pat import Frag
from ..src import norm, walk_no_nested, AnalysisError
from ..pyutil import is_self_attr

META = {
    'title': 'Navigation between words, senses and synsets is referentially faithful',
    'technique': 'navigation-discipline rule shared with C04; class-fact extraction for the eq/hash contract over the repo MRO; effect summaries of the navigation / translate / image methods',
    'explanation': (
        'Which entity a navigation returns on a given database is not decided as such. Decided: R1 element methods navigate only '
        'through queries scoped by self._get_lexicon_ids(), never through the Wordnet-level id lookups (= C04-R3: with two '
        'versions of one lexicon installed the latter returns the other version\'s word); R2 eq/hash contract for the classes the '
        'property speaks about (Lexicon, ILI, Word, Sense, Synset, Form, Relation): the class resolves both __eq__ and __hash__ '
        'through its MRO (defining __eq__ alone makes it unhashable) and every field read by the effective __hash__ is compared '
        'by the effective __eq__ (equal objects hash alike); R3 Synset.translate returns [] before querying when the synset has no '
        'ILI id (proposed ILIs have none); R4 inverse navigation is rowid based: Word.senses / Synset.senses query by the '
        "entity's own rowid in its element scope. R7 navigation rows describe their entity: prescribed select lists (C01-R7) and field-wise constructions from the matching columns (C11-R7). R2 also: every __eq__ defined by a subclass of _DatabaseEntity delegates to the base comparison or requires equal rowids on each path that can answer True. R8 the base of an extension is resolved by id and version at add time (C05-R13). R9 translate() targets are all selected lexicons (C08-R4/R6)."),
    'decides': ['navigation discipline', 'eq/hash contract', 'translate guard', 'rowid-based inverse navigation'],
    'not_decided': ['"images of sense lists" (word.synsets(), synset.words()...) as value equalities', 'symmetry of translation'],
    'assumptions': [],
}

CLASSES = ('Lexicon', 'ILI', 'Word', 'Sense', 'Synset', 'Form', 'Relation')


def r1_navigation(ctx, res):
    from .c04 import r3_navigation
    r3_navigation(ctx, res)


def _fields(f, cls):
    """fields of `self` a method reads (str value of a str subclass counts as the pseudo field <str>)."""
    out = set()
    for n in ast.walk(f.node):
        if is_self_attr(n):
            out.add(n.attr)
        if isinstance(n, ast.Call) and norm(n.func) in ('str.__eq__', 'str.__hash__', 'int.__eq__', 'int.__hash__'):
            out.add('<' + norm(n.func).split('.')[0] + '>')
        if isinstance(n, ast.Call) and isinstance(n.func, ast.Attribute) and n.func.attr in ('__eq__', '__hash__') \
                and isinstance(n.func.value, ast.Call) and norm(n.func.value.func) == 'super':
            out.add('<super>')
    return out


def r2_eq_hash(ctx, res):
    core = ctx.repo.mod('_core')
    for cname in CLASSES:
        cls = core.classes.get(cname)
        if cls is None:
            raise AnalysisError(f'anchor vanished: class {cname}')
        mro = ctx.repo.mro(cls)
        eq = ctx.repo.lookup_method(cls, '__eq__')
        hs = ctx.repo.lookup_method(cls, '__hash__')
        key = f'eq-hash:{cname}'
        res.inst(key, core.loc(cls.node), f'__eq__ from {eq.cls.name if eq else None}, __hash__ from {hs.cls.name if hs else None}')
        # a class that defines __eq__ without __hash__ in its own body becomes unhashable
        for c in mro:
            if '__eq__' in c.methods and '__hash__' not in c.methods:
                # python sets __hash__ = None for that class; a subclass may redefine it
                below = mro[:mro.index(c)]
                if not any('__hash__' in b.methods for b in below) and c in mro:
                    res.find(key + ':unhashable', core.loc(c.node),
                             f'{c.name} defines __eq__ without __hash__: instances of {cname} are unhashable (cannot be set members / '
                             f'dict keys, relation_map() and de-duplication break)')
        if eq is None or hs is None:
            if cname in ('Form',):
                continue
            if eq is None and hs is None:
                res.find(key, core.loc(cls.node), f'{cname} compares and hashes by object identity: two objects for the same stored entity '
                                                  f'are unequal')
            continue
        ef, hf = _fields(eq, cls), _fields(hs, cls)
        # class constants such as _ENTITY_TYPE are compared through self as well
        extra = hf - ef
        res.inst(key + ':subset', core.loc(hs.node), f'hash fields {sorted(hf)} <= eq fields {sorted(ef)}')
        if extra:
            res.find(key + ':subset', core.loc(hs.node),
                     f'{cname}.__hash__ (from {hs.cls.name}) reads {sorted(extra)} which {cname}.__eq__ (from {eq.cls.name}) does not compare: '
                     f'two objects can be == and hash differently (set/dict membership and de-duplication become inconsistent)')
    # entity equality is by kind and rowid
    de = core.classes['_DatabaseEntity']
    key = 'entity-eq-by-type-and-rowid'
    res.inst(key, core.loc(de.node), 'compares _ENTITY_TYPE and _id')
    if _fields(de.methods['__eq__'], de) != {'_ENTITY_TYPE', '_id'} or _fields(de.methods['__hash__'], de) != {'_ENTITY_TYPE', '_id'}:
        res.find(key, core.loc(de.node), '_DatabaseEntity no longer compares and hashes by (entity type, rowid)')
    # no subclass of _DatabaseEntity weakens that: every __eq__ on the way up either delegates to the base comparison or itself
    # requires equal rowids on every path that can answer True ("different stored entities are unequal")
    from ..speccheck import view
    for cname in CLASSES:
        cls = core.classes[cname]
        mro = ctx.repo.mro(cls)
        if de not in mro:
            continue
        for c in mro:
            if c is de or '__eq__' not in c.methods:
                continue
            v = view(ctx, '_core', f'{c.name}.__eq__')
            key = f'entity-eq-requires-rowid:{c.name}'
            res.inst(key, core.loc(c.methods['__eq__'].node), f'{[r[1][:50] for r in v.rows if r[0] == "return"]}')
            for k, t, g, cx, e in v.rows:
                if k != 'return':
                    continue
                flat = t.replace(' ', '')
                if t in ('NotImplemented', 'False') or 'super().__eq__(other)' in flat or '_DatabaseEntity.__eq__(self,other)' in flat:
                    continue
                conj = [x.strip() for x in t.split(' and ')]
                if 'self._id == other._id' in conj or 'other._id == self._id' in conj or any('self._id == other._id' in x for x in g):
                    continue
                res.find(key, v.loc(e), f'{c.name}.__eq__ can answer `{t[:90]}`' + (f' when {sorted(g)}' if g else '') +
                         ' without comparing rowids: two different stored entities (two synsets of one lexicon sharing an ILI) are equal')
    # every concrete entity class has its own entity type
    types = {}
    for cname in ('Lexicon', 'Word', 'Sense', 'Synset'):
        for s in core.classes[cname].node.body:
            if isinstance(s, ast.Assign) and norm(s.targets[0]) == '_ENTITY_TYPE':
                types[cname] = norm(s.value)
    key = 'entity-types-distinct'
    res.inst(key, core.relpath, f'{types}')
    if len(types) != 4 or len(set(types.values())) != 4:
        res.find(key, core.relpath, f'entity classes do not have distinct _ENTITY_TYPE values: {types} (a Sense and a Synset with the same '
                                    f'rowid would be equal)')


def r3_translate_guard(ctx, res):
    from ..speccheck import view, expect
    expect(res, 'translate-guard', view(ctx, '_core', 'Synset.translate'), [
        ('return', '[]', ('not self._ili',), (), 'exact'),
        ('return', 'synsets(ili=self._ili, lang=lang, lexicon=lexicon)', ('self._ili',), (), 'exact'),
    ], 'Synset.translate returns [] for a synset without an ILI id before looking up synsets(ili=...): a synset with no / a proposed ILI '
       'would otherwise translate to every synset')
    expect(res, 'sense-translate-via-synset', view(ctx, '_core', 'Sense.translate'), [
        ('call', '#1.append($2)', (), ('for self.synset().translate(lang=lang, lexicon=lexicon)', 'for $1.senses()'), 'exact'),
        ('return', '#1'),
    ], 'Sense.translate is the image of Synset.translate: the senses of the translated synsets, in order')
    expect(res, 'word-translate-via-senses', view(ctx, '_core', 'Word.translate'), [
        ('store', '#1[$1] = [_1.word() for _1 in $1.translate(lang=lang, lexicon=lexicon)]', (), ('for self.senses()',), 'exact'),
        ('return', '#1'),
    ], 'Word.translate maps every sense of the word to the words of its translated senses')


def r4_inverse_navigation(ctx, res):
    from ..speccheck import view, expect
    for mname, q in (('Word.senses', 'get_entry_senses'), ('Synset.senses', 'get_synset_members')):
        expect(res, f'inverse:{mname}', view(ctx, '_core', mname), [
            ('call', '#1.append(Sense(*$1, _wordnet=self._wordnet))', (), (f'for {q}(self._id, self._get_lexicon_ids())',), 'exact'),
            ('return', '#1'),
        ], f'{mname} lists the senses attached to its own rowid within its element scope')
    gs = ctx.repo.func('_queries', '_get_senses')
    for site in ctx.sites_of(gs.key):
        for v in site.variants:
            preds = [p.replace(' ', '') for p in v.stmt.where_predicates(0)]
            key = f'inverse:_get_senses:{preds[0] if preds else ""}'
            res.inst(key, site.loc, f'{preds}')
            if not preds or preds[0] not in ('s.entry_rowid=?', 's.synset_rowid=?'):
                res.find(key, site.loc, f'_get_senses selects by {preds}; expected the rowid of the entry / synset')
    ws = ctx.repo.func('_queries', 'get_entry_senses')
    ms = ctx.repo.func('_queries', 'get_synset_members')
    key = 'inverse:wrappers'
    res.inst(key, ws.module.loc(ws.node), "entry -> 'entry', synset -> 'synset'")
    gparams = [a.arg for a in gs.node.args.posonlyargs + gs.node.args.args + gs.node.args.kwonlyargs]

    def _selects(fn, kind):
        # the call of _get_senses in the wrapper, arguments bound by parameter name
        for n in ast.walk(fn.node):
            if isinstance(n, ast.Call) and isinstance(n.func, ast.Name) and n.func.id == '_get_senses' \
                    and not any(isinstance(a, ast.Starred) for a in n.args) and all(k.arg for k in n.keywords):
                b = dict(zip(gparams, n.args))
                b.update({k.arg: k.value for k in n.keywords})
                st = b.get('sourcetype')
                return (isinstance(st, ast.Constant) and st.value == kind
                        and isinstance(b.get('rowid'), ast.Name) and b['rowid'].id == 'rowid'
                        and isinstance(b.get('lexicon_rowids'), ast.Name) and b['lexicon_rowids'].id == 'lexicon_rowids')
        return False
    if not _selects(ws, 'entry') or not _selects(ms, 'synset'):
        res.find(key, ws.module.loc(ws.node), 'get_entry_senses / get_synset_members no longer select by entry / synset rowid respectively')


def r5_scope_family(ctx, res):
    """inverse navigations agree only if an element and the elements reachable from it compute the same family scope:
    own lexicon + all extension bases + all extensions, in both directions (= C04-R4)."""
    from .c04 import r4_default_formula
    r4_default_formula(ctx, res)


IMAGES = [
    ('Word.synsets', 'self.senses()', 'synset'),
    ('Synset.words', 'self.senses()', 'word'),
    ('Synset.lemmas', 'self.words()', 'lemma'),
]


def r6_images(ctx, res):
    """word.synsets(), synset.words() and synset.lemmas() are the in-order images of the sense (word) lists: one element
    appended per element of the list - no filter, no de-duplication, no re-ordering."""
    from ..speccheck import view, expect
    for mname, src, meth in IMAGES:
        expect(res, f'image:{mname}', view(ctx, '_core', mname), [
            ('call', f'#1.append($1.{meth}())', (), (f'for {src}',), 'exact'),
            ('return', '#1'),
        ], f'{mname} is the image of {src} under .{meth}(), element by element and in order (a de-duplicated, filtered or re-ordered list '
           f'disagrees with the inverse navigation when one word has two senses in a synset)')


def r7_rows_describe_their_entity(ctx, res):
    """an entity reached by navigation carries its own lexicon and rowid: the select lists of the navigation queries are the
    prescribed ones (C01-R7: a sense row holds the SENSE's lexicon_rowid, not its synset's) and field-wise constructions take
    each identifying field from the matching column (C11-R7).  With the wrong owner the default-mode scope of the object -
    and every further navigation step from it - is that of another lexicon."""
    from .c01 import r7_readers
    from .c11 import entity_fields_from_row
    r7_readers(ctx, res)
    entity_fields_from_row(ctx, res, prefix='navigation-entity-fields')


def r8_extension_rows_hang_on_the_named_base(ctx, res):
    """navigation from an extension's sense to the entry / synset of its base is by the rows stored at add time: the base is the
    lexicon <Extends> names by id AND version (C05-R13) - resolved by id alone the external ids are mapped to another installed
    version, and sense.word().senses() no longer contains the sense."""
    from .c05 import r13_lexicon_lookups_by_id_and_version
    r13_lexicon_lookups_by_id_and_version(ctx, res)

def r9_targets_are_all_selected_lexicons(ctx, res):
    """translate() builds its target Wordnet from lang / lexicon: "exactly the target lexicons" needs every lexicon the request
    selects to be in it - two installed versions of one id are two lexicons (selection analysis of C08-R4 / C08-R6)."""
    from .c08 import r4_error_vs_empty, r6_selection_survives_missing_dependencies
    r4_error_vs_empty(ctx, res)
    r6_selection_survives_missing_dependencies(ctx, res)

RULES = [
    ('C10-R1', r1_navigation, 30),
    ('C10-R2', r2_eq_hash, 12),
    ('C10-R3', r3_translate_guard, 3),
    ('C10-R4', r4_inverse_navigation, 5),
    ('C10-R5', r5_scope_family, 3),
    ('C10-R6', r6_images, 3),
    ('C10-R7', r7_rows_describe_their_entity, 40),
    ('C10-R8', r8_extension_rows_hang_on_the_named_base, 2),
    ('C10-R9', r9_targets_are_all_selected_lexicons, 10),
]
