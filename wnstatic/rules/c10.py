"""C10 — navigation between words, senses and synsets is referentially faithful (two structural clauses + guard)."""
from __future__ import annotations
import ast
from ..pat import Frag
from ..src import norm, walk_no_nested, AnalysisError
from ..pyutil import is_self_attr

META = {
    'title': 'Navigation between words, senses and synsets is referentially faithful',
    'technique': 'navigation-discipline rule shared with C04; class-fact extraction for the eq/hash contract over the repo MRO',
    'explanation': (
        'Which entity a navigation returns on a given database is not decided as such. Decided: R1 element methods navigate only '
        'through queries scoped by self._get_lexicon_ids(), never through the Wordnet-level id lookups (= C04-R3: with two '
        'versions of one lexicon installed the latter returns the other version\'s word); R2 eq/hash contract for the classes the '
        'property speaks about (Lexicon, ILI, Word, Sense, Synset, Form, Relation): the class resolves both __eq__ and __hash__ '
        'through its MRO (defining __eq__ alone makes it unhashable) and every field read by the effective __hash__ is compared '
        'by the effective __eq__ (equal objects hash alike); R3 Synset.translate returns [] before querying when the synset has no '
        'ILI id (proposed ILIs have none); R4 inverse navigation is rowid based: Word.senses / Synset.senses query by the '
        "entity's own rowid in its element scope."),
    'decides': ['navigation discipline', 'eq/hash contract', 'translate guard', 'rowid-based inverse navigation'],
    'not_decided': ['"images of sense lists" (word.synsets(), synset.words()...) as value equalities', 'symmetry of translation'],
    'assumptions': [],
}

CLASSES = ('Lexicon', 'ILI', 'Word', 'Sense', 'Synset', 'Form', 'Relation')


def r1_navigation(ctx, res):
    from .c04 import r3_navigation
    r3_navigation(ctx, res)


def _fields(f, cls):
    """fields of `self` a method reads (str value of a str subclass counts as the pseudo field <str>)."""
    out = set()
    for n in ast.walk(f.node):
        if is_self_attr(n):
            out.add(n.attr)
        if isinstance(n, ast.Call) and norm(n.func) in ('str.__eq__', 'str.__hash__', 'int.__eq__', 'int.__hash__'):
            out.add('<' + norm(n.func).split('.')[0] + '>')
        if isinstance(n, ast.Call) and isinstance(n.func, ast.Attribute) and n.func.attr in ('__eq__', '__hash__') \
                and isinstance(n.func.value, ast.Call) and norm(n.func.value.func) == 'super':
            out.add('<super>')
    return out


def r2_eq_hash(ctx, res):
    core = ctx.repo.mod('_core')
    for cname in CLASSES:
        cls = core.classes.get(cname)
        if cls is None:
            raise AnalysisError(f'anchor vanished: class {cname}')
        mro = ctx.repo.mro(cls)
        eq = ctx.repo.lookup_method(cls, '__eq__')
        hs = ctx.repo.lookup_method(cls, '__hash__')
        key = f'eq-hash:{cname}'
        res.inst(key, core.loc(cls.node), f'__eq__ from {eq.cls.name if eq else None}, __hash__ from {hs.cls.name if hs else None}')
        # a class that defines __eq__ without __hash__ in its own body becomes unhashable
        for c in mro:
            if '__eq__' in c.methods and '__hash__' not in c.methods:
                # python sets __hash__ = None for that class; a subclass may redefine it
                below = mro[:mro.index(c)]
                if not any('__hash__' in b.methods for b in below) and c in mro:
                    res.find(key + ':unhashable', core.loc(c.node),
                             f'{c.name} defines __eq__ without __hash__: instances of {cname} are unhashable (cannot be set members / '
                             f'dict keys, relation_map() and de-duplication break)')
        if eq is None or hs is None:
            if cname in ('Form',):
                continue
            if eq is None and hs is None:
                res.find(key, core.loc(cls.node), f'{cname} compares and hashes by object identity: two objects for the same stored entity '
                                                  f'are unequal')
            continue
        ef, hf = _fields(eq, cls), _fields(hs, cls)
        # class constants such as _ENTITY_TYPE are compared through self as well
        extra = hf - ef
        res.inst(key + ':subset', core.loc(hs.node), f'hash fields {sorted(hf)} <= eq fields {sorted(ef)}')
        if extra:
            res.find(key + ':subset', core.loc(hs.node),
                     f'{cname}.__hash__ (from {hs.cls.name}) reads {sorted(extra)} which {cname}.__eq__ (from {eq.cls.name}) does not compare: '
                     f'two objects can be == and hash differently (set/dict membership and de-duplication become inconsistent)')
    # entity equality is by kind and rowid
    de = core.classes['_DatabaseEntity']
    key = 'entity-eq-by-type-and-rowid'
    res.inst(key, core.loc(de.node), 'compares _ENTITY_TYPE and _id')
    if _fields(de.methods['__eq__'], de) != {'_ENTITY_TYPE', '_id'} or _fields(de.methods['__hash__'], de) != {'_ENTITY_TYPE', '_id'}:
        res.find(key, core.loc(de.node), '_DatabaseEntity no longer compares and hashes by (entity type, rowid)')
    # every concrete entity class has its own entity type
    types = {}
    for cname in ('Lexicon', 'Word', 'Sense', 'Synset'):
        for s in core.classes[cname].node.body:
            if isinstance(s, ast.Assign) and norm(s.targets[0]) == '_ENTITY_TYPE':
                types[cname] = norm(s.value)
    key = 'entity-types-distinct'
    res.inst(key, core.relpath, f'{types}')
    if len(types) != 4 or len(set(types.values())) != 4:
        res.find(key, core.relpath, f'entity classes do not have distinct _ENTITY_TYPE values: {types} (a Sense and a Synset with the same '
                                    f'rowid would be equal)')


def r3_translate_guard(ctx, res):
    f = ctx.repo.func('_core', 'Synset.translate')
    key = 'translate-guard'
    body = [s for s in f.node.body if not (isinstance(s, ast.Expr) and isinstance(s.value, ast.Constant))]
    src = [norm(s) for s in body]
    res.inst(key, f.module.loc(f.node), f'{src[:3]}')
    ok = len(body) >= 3 and src[0] == 'ili = self._ili' and isinstance(body[1], ast.If) and norm(body[1].test) == 'not ili' \
        and norm(body[1].body[-1]) == 'return []' and src[2] == 'return synsets(ili=ili, lang=lang, lexicon=lexicon)'
    if not ok:
        res.find(key, f.module.loc(f.node), 'Synset.translate no longer returns [] for a synset without an ILI id before looking up '
                                            'synsets(ili=...): a synset with no / a proposed ILI would translate to every synset')
    st = ctx.repo.func('_core', 'Sense.translate')
    key = 'sense-translate-via-synset'
    s2 = Frag(st.node)
    res.inst(key, st.module.loc(st.node), 'via self.synset().translate(...) and t_synset.senses()')
    if 'synset = self.synset()' not in s2 or 'synset.translate(lang=lang, lexicon=lexicon)' not in s2 or 't_synset.senses()' not in s2:
        res.find(key, st.module.loc(st.node), 'Sense.translate is no longer the image of Synset.translate')
    wt = ctx.repo.func('_core', 'Word.translate')
    key = 'word-translate-via-senses'
    s3 = Frag(wt.node)
    res.inst(key, wt.module.loc(wt.node), 'via sense.translate(...) and t_sense.word()')
    if 'sense.translate(lang=lang, lexicon=lexicon)' not in s3 or 't_sense.word()' not in s3:
        res.find(key, wt.module.loc(wt.node), 'Word.translate is no longer the image of Sense.translate')


def r4_inverse_navigation(ctx, res):
    for mname, q in (('Word.senses', 'get_entry_senses'), ('Synset.senses', 'get_synset_members')):
        f = ctx.repo.func('_core', mname)
        key = f'inverse:{mname}'
        s = Frag(f.node)
        res.inst(key, f.module.loc(f.node), f'{q}(self._id, self._get_lexicon_ids())')
        if f'{q}(self._id, lexids)' not in s or 'lexids = self._get_lexicon_ids()' not in s \
                or 'Sense(*sense_data, _wordnet=self._wordnet)' not in s:
            res.find(key, f.module.loc(f.node), f'{mname} no longer lists the senses attached to its own rowid within its element scope')
    gs = ctx.repo.func('_queries', '_get_senses')
    for site in ctx.sites_of(gs.key):
        for v in site.variants:
            preds = [p.replace(' ', '') for p in v.stmt.where_predicates(0)]
            key = f'inverse:_get_senses:{preds[0] if preds else ""}'
            res.inst(key, site.loc, f'{preds}')
            if not preds or preds[0] not in ('s.entry_rowid=?', 's.synset_rowid=?'):
                res.find(key, site.loc, f'_get_senses selects by {preds}; expected the rowid of the entry / synset')
    ws = ctx.repo.func('_queries', 'get_entry_senses')
    ms = ctx.repo.func('_queries', 'get_synset_members')
    key = 'inverse:wrappers'
    res.inst(key, ws.module.loc(ws.node), "entry -> 'entry', synset -> 'synset'")
    if "_get_senses(rowid, 'entry', lexicon_rowids)" not in norm(ws.node) or "_get_senses(rowid, 'synset', lexicon_rowids)" not in norm(ms.node):
        res.find(key, ws.module.loc(ws.node), 'get_entry_senses / get_synset_members no longer select by entry / synset rowid respectively')


def r5_scope_family(ctx, res):
    """inverse navigations agree only if an element and the elements reachable from it compute the same family scope:
    own lexicon + all extension bases + all extensions, in both directions (= C04-R4)."""
    from .c04 import r4_default_formula
    r4_default_formula(ctx, res)


IMAGES = [
    ('Word.synsets', 'self.senses()', 'synset'),
    ('Synset.words', 'self.senses()', 'word'),
    ('Synset.lemmas', 'self.words()', 'lemma'),
]


def r6_images(ctx, res):
    """word.synsets(), synset.words() and synset.lemmas() are the in-order images of the sense (word) lists: a plain list
    comprehension over the list - no filter, no de-duplication, no re-ordering."""
    for mname, src, meth in IMAGES:
        f = ctx.repo.func('_core', mname)
        key = f'image:{mname}'
        rets = [n for n in walk_no_nested(f.node) if isinstance(n, ast.Return) and n.value is not None]
        res.inst(key, f.module.loc(f.node), norm(rets[0].value) if rets else 'no return')
        ok = False
        if len(rets) == 1 and isinstance(rets[0].value, ast.ListComp):
            lc = rets[0].value
            if len(lc.generators) == 1 and not lc.generators[0].ifs and norm(lc.generators[0].iter) == src \
                    and isinstance(lc.generators[0].target, ast.Name) and isinstance(lc.elt, ast.Call) and not lc.elt.args \
                    and isinstance(lc.elt.func, ast.Attribute) and lc.elt.func.attr == meth \
                    and isinstance(lc.elt.func.value, ast.Name) and lc.elt.func.value.id == lc.generators[0].target.id:
                ok = True
        if not ok:
            res.find(key, f.module.loc(f.node),
                     f'{mname} is no longer `[x.{meth}() for x in {src}]` (found `{norm(rets[0].value)[:80] if rets else None}`): the result '
                     f'must be the image of that list in order, element by element (a de-duplicated, filtered or re-ordered list '
                     f'disagrees with the inverse navigation when one word has two senses in a synset)')


RULES = [
    ('C10-R1', r1_navigation, 30),
    ('C10-R2', r2_eq_hash, 12),
    ('C10-R3', r3_translate_guard, 3),
    ('C10-R4', r4_inverse_navigation, 5),
    ('C10-R5', r5_scope_family, 3),
    ('C10-R6', r6_images, 3),
]
