"""reported-item predicates of the validation checks (tools/gen_c18_checks.py); reviewed against each docstring"""
PREDICATES = {
    '_non_unique_id': [
        ('return', "_multiples(chain([lex['id']], (_2['id'] for _1 in lex.get('entries', []) for _2 in _1.get('forms', []) if _2.get('id')), (_3['id'] for _3 in lex.get('frames', []) if _3.get('id')), ids['entry'].elements(), ids['sense'].elements(), ids['synset'].elements()))", (), ()),
    ],
    '_has_no_senses': [
        ('new', '#1<{}>', (), ()),
        ('return', '#1', (), ()),
        ('store', "#1[$1['id']] = {}", ("not $1.get('senses', [])",), ("for lex.get('entries', [])",)),
    ],
    '_redundant_sense': [
        ('new', '#1<{}>', (), ()),
        ('return', '#1', (), ()),
        ('store', "#1[$2['id']] = {'entry': $1['id'], 'synset': $2['synset']}", ("$2['synset'] in _multiples((_1['synset'] for _1 in $1.get('senses', [])))",), ("for lex.get('entries', [])", "for $1.get('senses', [])")),
    ],
    '_redundant_entry': [
        ('new', '#1<{}>', (), ()),
        ('return', '#1', (), ()),
        ('store', "#1[$1[0]] = {'synset': $1[1]}", (), ("for _multiples(((_1['lemma']['writtenForm'], _2['synset']) for _1 in lex.get('entries', []) for _2 in _1.get('senses', [])))",)),
    ],
    '_missing_synset': [
        ('new', '#1<{}>', (), ()),
        ('return', '#1', (), ()),
        ('store', "#1[$2['id']] = {'synset': $2['synset']}", ("$2['synset'] not in ids['synset']",), ("for lex.get('entries', [])", "for $1.get('senses', [])")),
    ],
    '_empty_synset': [
        ('call', "#1.add($2['synset'])", (), ("for lex.get('entries', [])", "for $1.get('senses', [])")),
        ('new', '#1<set()>', (), ()),
        ('new', '#2<{}>', (), ()),
        ('return', '#2', (), ()),
        ('store', "#2[$1['id']] = {}", ("$1['id'] not in #1",), ("for lex.get('synsets', [])",)),
    ],
    '_repeated_ili': [
        ('new', '#1<{}>', (), ()),
        ('return', '#1', (), ()),
        ('store', "#1[$1['id']] = {'ili': $1['ili']}", ("$1['ili'] in _multiples((_1['ili'] for _1 in lex.get('synsets', []) if _1['ili'] and _1['ili'] != 'in'))",), ("for lex.get('synsets', [])",)),
    ],
    '_missing_ili_definition': [
        ('new', '#1<{}>', (), ()),
        ('return', '#1', (), ()),
        ('store', "#1[$1['id']] = {}", ("$1['ili'] == 'in'", "not $1.get('ili_definition')"), ("for lex.get('synsets', [])",)),
    ],
    '_spurious_ili_definition': [
        ('new', '#1<{}>', (), ()),
        ('return', '#1', (), ()),
        ('store', "#1[$1['id']] = {'ili_definitin': $1['ili_definition']}", ("$1.get('ili_definition')", "$1['ili']", "$1['ili'] != 'in'"), ("for lex.get('synsets', [])",)),
    ],
    '_blank_synset_definition': [
        ('new', '#1<{}>', (), ()),
        ('return', '#1', (), ()),
        ('store', "#1[$1['id']] = {}", ("any((not _1['text'].strip() for _1 in $1.get('definitions', [])))",), ("for lex.get('synsets', [])",)),
    ],
    '_blank_synset_example': [
        ('new', '#1<{}>', (), ()),
        ('return', '#1', (), ()),
        ('store', "#1[$1['id']] = {}", ("any((not _1['text'].strip() for _1 in $1.get('examples', [])))",), ("for lex.get('synsets', [])",)),
    ],
    '_repeated_synset_definition': [
        ('new', '#1<{}>', (), ()),
        ('return', '#1', (), ()),
        ('store', "#1[$1['id']] = {}", ("any((_1['text'] in _multiples((_3['text'] for _2 in lex.get('synsets', []) for _3 in _2.get('definitions', []))) for _1 in $1.get('definitions', [])))",), ("for lex.get('synsets', [])",)),
    ],
    '_missing_relation_target': [
        ('new', '#1<{}>', (), ()),
        ('return', '#1', (), ()),
        ('store', "#1[$1[0]['id']] = {'type': $1[1]['relType'], 'target': $1[1]['target']}", ("$1[1]['target'] not in ids['sense']", "$1[1]['target'] not in ids['synset']"), ('for _sense_relations(lex)',)),
        ('store', "#1[$1[0]['id']] = {'type': $1[1]['relType'], 'target': $1[1]['target']}", ("$1[1]['target'] not in ids['synset']",), ('for _synset_relations(lex)',)),
    ],
    '_invalid_relation_type': [
        ('new', '#1<{}>', (), ()),
        ('return', '#1', (), ()),
        ('store', "#1[$1[0]['id']] = {'type': $1[1]['relType'], 'target': $1[1]['target']}", ("$1[1]['relType'] not in SYNSET_RELATIONS",), ('for _synset_relations(lex)',)),
        ('store', "#1[$1[0]['id']] = {'type': $1[1]['relType'], 'target': $1[1]['target']}", ("$1[1]['target'] in ids['sense'] and $1[1]['relType'] not in SENSE_RELATIONS or ($1[1]['target'] in ids['synset'] and $1[1]['relType'] not in SENSE_SYNSET_RELATIONS)",), ('for _sense_relations(lex)',)),
    ],
    '_redundant_relation': [
        ('call', "#1.append(($1[0]['id'], $1[1]['relType'], $1[1]['target'], ($1[1].get('meta') or {}).get('type')))", (), ('for _sense_relations(lex)',)),
        ('call', "#1.append(($1[0]['id'], $1[1]['relType'], $1[1]['target'], ($1[1].get('meta') or {}).get('type')))", (), ('for _synset_relations(lex)',)),
        ('new', '#1<[]>', (), ()),
        ('new', '#2<{}>', (), ()),
        ('new', "#3<{'type': $1[1], 'target': $1[2]}>", (), ('for _multiples(#1)',)),
        ('return', '#2', (), ()),
        ('store', '#2[$1[0]] = #3', (), ('for _multiples(#1)',)),
        ('store', "#3['dc:type'] = $1[3]", ('$1[3]',), ('for _multiples(#1)',)),
    ],
    '_missing_reverse_relation': [
        ('call', "#1.add(($1[0]['id'], $1[1]['relType'], $1[1]['target']))", (), ('for _synset_relations(lex)',)),
        ('call', "#1.add(($1[0]['id'], $1[1]['relType'], $1[1]['target']))", ("$1[1]['target'] in ids['sense']",), ('for _sense_relations(lex)',)),
        ('new', '#1<set()>', (), ()),
        ('new', '#2<{}>', (), ()),
        ('return', '#2', (), ()),
        ('store', "#2[$1[2]] = {'type': REVERSE_RELATIONS[$1[1]], 'target': $1[0]}", ('$1[1] in REVERSE_RELATIONS', '($1[2], REVERSE_RELATIONS[$1[1]], $1[0]) not in #1'), ('for sorted(#1)',)),
    ],
    '_hypernym_wrong_pos': [
        ('new', '#1<{}>', (), ()),
        ('new', '#2<{}>', (), ()),
        ('return', '#2', (), ()),
        ('store', "#1[$1['id']] = $1.get('partOfSpeech')", (), ("for lex.get('synsets', [])",)),
        ('store', "#2[$1[0]['id']] = {'type': $1[1]['relType'], 'target': $1[1]['target']}", ("$1[0].get('partOfSpeech') != #1[$1[1]['target']]", "$1[1]['relType'] == 'hypernym'", "$1[1]['target'] in #1"), ('for _synset_relations(lex)',)),
    ],
    '_self_loop': [
        ('new', '#1<{}>', (), ()),
        ('return', '#1', (), ()),
        ('store', "#1[$1[0]['id']] = {'type': $1[1]['relType'], 'target': $1[1]['target']}", ("$1[0]['id'] == $1[1]['target']",), ('for chain(_sense_relations(lex), _synset_relations(lex))',)),
    ],
    '_multiples': [
        ('new', '#1<{}>', (), ()),
        ('return', '#1', (), ()),
        ('store', "#1[$1[0]] = {'count': $1[1]}", ('$1[1] > 1',), ('for Counter(iterable).items()',)),
    ],
    '_sense_relations': [
        ('yield', '($2, $3)', (), ("for lex.get('entries', [])", "for $1.get('senses', [])", "for $2.get('relations', [])")),
    ],
    '_synset_relations': [
        ('yield', '($1, $2)', (), ("for lex.get('synsets', [])", "for $1.get('relations', [])")),
    ],
    '_get_dc_type': [
        ('return', "(r.get('meta') or {}).get('type')", (), ()),
    ],
}
