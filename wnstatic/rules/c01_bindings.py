"""Binding table for C01-R2: table.column <- source descriptor(s), one alternative per INSERT site that may feed it.

Written from wn/schema.sql, the WN-LMF model (wn/lmf.py) and DESIGN.md appendix A; generated once with
tools/gen_bindings.py on the repaired tree and reviewed line by line. The check never regenerates it.
Descriptor language: Class.key (required key, subscript), Class.key? (.get), ?=default, lid(X) = lexidmap.get(X, lexid),
enum(start)@iterable, const:value, first element = INSERT verb, for sub-selects the second element is the
looked-up table."""
BINDINGS = {
    ('adjpositions', '<row produced when>'): [
        ('INSERT', 'Sense.adjposition?', 'over param:entries', 'over _local_senses(LexicalEntry.senses?=[])'),
    ],
    ('adjpositions', 'adjposition'): [
        ('INSERT', 'Sense.adjposition'),
    ],
    ('adjpositions', 'sense_rowid'): [
        ('INSERT', 'senses', 'Sense.id', 'lid(Sense.id)'),
    ],
    ('counts', '<row produced when>'): [
        ('INSERT', 'over param:entries', 'over LexicalEntry.senses?=[]', 'over Sense.counts?=[]'),
    ],
    ('counts', 'count'): [
        ('INSERT', 'Count.value'),
    ],
    ('counts', 'lexicon_rowid'): [
        ('INSERT', 'lexid'),
    ],
    ('counts', 'metadata'): [
        ('INSERT', 'Count.meta'),
    ],
    ('counts', 'rowid'): [
        ('INSERT', 'null'),
    ],
    ('counts', 'sense_rowid'): [
        ('INSERT', 'senses', 'Sense.id', 'lid(Sense.id)'),
    ],
    ('definitions', '<row produced when>'): [
        ('INSERT', 'over _batch(param:synsets)', 'over param:synsets', 'over Synset.definitions?=[]'),
    ],
    ('definitions', 'definition'): [
        ('INSERT', 'Definition.text'),
    ],
    ('definitions', 'language'): [
        ('INSERT', 'Definition.language?'),
    ],
    ('definitions', 'lexicon_rowid'): [
        ('INSERT', 'lexid'),
    ],
    ('definitions', 'metadata'): [
        ('INSERT', 'Definition.meta'),
    ],
    ('definitions', 'rowid'): [
        ('INSERT', 'null'),
    ],
    ('definitions', 'sense_rowid'): [
        ('INSERT', 'senses', 'Definition.sourceSense?', "lid(Definition.sourceSense?='')"),
    ],
    ('definitions', 'synset_rowid'): [
        ('INSERT', 'synsets', 'Synset.id', 'lid(Synset.id)'),
    ],
    ('entries', '<row produced when>'): [
        ('INSERT', 'over _batch(_local_entries(param:entries))', 'over _local_entries(param:entries)'),
    ],
    ('entries', 'id'): [
        ('INSERT', 'LexicalEntry.id'),
    ],
    ('entries', 'lexicon_rowid'): [
        ('INSERT', 'lexid'),
    ],
    ('entries', 'metadata'): [
        ('INSERT', 'LexicalEntry.meta'),
    ],
    ('entries', 'pos'): [
        ('INSERT', 'LexicalEntry.lemma.partOfSpeech'),
    ],
    ('entries', 'rowid'): [
        ('INSERT', 'null'),
    ],
    ('forms', '<row produced when>'): [
        ('INSERT', 'not (external(Form))', 'over _batch(param:entries)', 'over param:entries', 'over enumerate(LexicalEntry.forms?=[], const:1)'),
        ('INSERT', 'not (external(LexicalEntry))', 'over _batch(param:entries)', 'over param:entries'),
    ],
    ('forms', 'entry_rowid'): [
        ('INSERT', 'entries', 'LexicalEntry.id', 'lid(LexicalEntry.id)'),
    ],
    ('forms', 'form'): [
        ('INSERT', 'Form.writtenForm'),
        ('INSERT', 'LexicalEntry.lemma.writtenForm'),
    ],
    ('forms', 'id'): [
        ('INSERT', 'Form.id?'),
        ('INSERT', 'const:None'),
    ],
    ('forms', 'lexicon_rowid'): [
        ('INSERT', 'lexid'),
    ],
    ('forms', 'normalized_form'): [
        ('INSERT', '(normalize_form(Form.writtenForm) if normalize_form(Form.writtenForm) != Form.writtenForm else const:None)'),
        ('INSERT', '(normalize_form(LexicalEntry.lemma.writtenForm) if normalize_form(LexicalEntry.lemma.writtenForm) != LexicalEntry.lemma.writtenForm else const:None)'),
    ],
    ('forms', 'rank'): [
        ('INSERT', 'const:0'),
        ('INSERT', 'enum(1)@LexicalEntry.forms?=[]'),
    ],
    ('forms', 'rowid'): [
        ('INSERT', 'null'),
    ],
    ('forms', 'script'): [
        ('INSERT', 'Form.script?'),
        ('INSERT', 'LexicalEntry.lemma.script?'),
    ],
    ('ili_statuses', '<row produced when>'): [
        ('INSERT',),
        ('INSERT OR IGNORE', "over sorted(set[each(list(expr:_ili.load(source))).status?='active' over list(expr:_ili.load(source))])"),
    ],
    ('ili_statuses', 'rowid'): [
        ('INSERT', 'null'),
        ('INSERT OR IGNORE', 'null'),
    ],
    ('ili_statuses', 'status'): [
        ('INSERT', "const:'presupposed'"),
        ('INSERT', "const:'proposed'"),
        ('INSERT OR IGNORE', "each(list(expr:_ili.load(source))).status?='active'"),
    ],
    ('ilis', '<row produced when>'): [
        ('INSERT ON CONFLICT', 'over _batch(list(expr:_ili.load(source)))', 'over list(expr:_ili.load(source))'),
        ('INSERT OR IGNORE', "Synset.ili and Synset.ili != const:'in'", 'over _batch(_local_synsets(param:synsets))', 'over _local_synsets(param:synsets)'),
    ],
    ('ilis', 'definition'): [
        ('INSERT ON CONFLICT', 'each(list(expr:_ili.load(source))).definition?'),
        ('INSERT OR IGNORE', '(Synset.ili_definition?.text if Synset.ili_definition? else const:None)'),
    ],
    ('ilis', 'id'): [
        ('INSERT ON CONFLICT', 'each(list(expr:_ili.load(source))).ili'),
        ('INSERT OR IGNORE', 'Synset.ili'),
    ],
    ('ilis', 'metadata'): [
        ('INSERT ON CONFLICT', 'null'),
        ('INSERT OR IGNORE', '(Synset.ili_definition?.meta if Synset.ili_definition? else const:None)'),
    ],
    ('ilis', 'rowid'): [
        ('INSERT ON CONFLICT', 'null'),
        ('INSERT OR IGNORE', 'null'),
    ],
    ('ilis', 'status_rowid'): [
        ('INSERT ON CONFLICT', 'ili_statuses', "each(list(expr:_ili.load(source))).status?='active'"),
        ('INSERT OR IGNORE', 'ili_statuses', "const:'presupposed'"),
    ],
    ('lexfiles', '<row produced when>'): [
        ('INSERT OR IGNORE', "over sorted(set[Synset.lexfile?='' over _local_synsets(Lexicon|LexiconExtension.synsets?=[]) if Synset.lexfile?])"),
    ],
    ('lexfiles', 'name'): [
        ('INSERT OR IGNORE', "Synset.lexfile?=''"),
    ],
    ('lexfiles', 'rowid'): [
        ('INSERT OR IGNORE', 'null'),
    ],
    ('lexicon_dependencies', '<row produced when>'): [
        ('INSERT', 'isinstance(lexid, var:int)', 'over Lexicon|LexiconExtension.requires?=[]'),
    ],
    ('lexicon_dependencies', 'dependent_rowid'): [
        ('INSERT', 'lexid'),
    ],
    ('lexicon_dependencies', 'provider_id'): [
        ('INSERT', 'Dependency.id'),
    ],
    ('lexicon_dependencies', 'provider_rowid'): [
        ('INSERT', 'lexicons', 'Dependency.id', 'Dependency.version'),
    ],
    ('lexicon_dependencies', 'provider_url'): [
        ('INSERT', 'Dependency.url?=None'),
    ],
    ('lexicon_dependencies', 'provider_version'): [
        ('INSERT', 'Dependency.version'),
    ],
    ('lexicon_extensions', '<row produced when>'): [
        ('INSERT', 'Lexicon|LexiconExtension.extends?', 'isinstance(lexid, var:int)'),
    ],
    ('lexicon_extensions', 'base_id'): [
        ('INSERT', 'LexiconExtension.extends.id'),
    ],
    ('lexicon_extensions', 'base_rowid'): [
        ('INSERT', 'lexicons', 'LexiconExtension.extends.id', 'LexiconExtension.extends.version'),
    ],
    ('lexicon_extensions', 'base_url'): [
        ('INSERT', 'LexiconExtension.extends.url?=None'),
    ],
    ('lexicon_extensions', 'base_version'): [
        ('INSERT', 'LexiconExtension.extends.version'),
    ],
    ('lexicon_extensions', 'extension_rowid'): [
        ('INSERT', 'lexid'),
    ],
    ('lexicons', '<row produced when>'): [
        ('INSERT',),
    ],
    ('lexicons', 'citation'): [
        ('INSERT', 'Lexicon|LexiconExtension.citation?'),
    ],
    ('lexicons', 'email'): [
        ('INSERT', 'Lexicon|LexiconExtension.email'),
    ],
    ('lexicons', 'id'): [
        ('INSERT', 'Lexicon|LexiconExtension.id'),
    ],
    ('lexicons', 'label'): [
        ('INSERT', 'Lexicon|LexiconExtension.label'),
    ],
    ('lexicons', 'language'): [
        ('INSERT', 'Lexicon|LexiconExtension.language'),
    ],
    ('lexicons', 'license'): [
        ('INSERT', 'Lexicon|LexiconExtension.license'),
    ],
    ('lexicons', 'logo'): [
        ('INSERT', 'Lexicon|LexiconExtension.logo?'),
    ],
    ('lexicons', 'metadata'): [
        ('INSERT', 'Lexicon|LexiconExtension.meta?'),
    ],
    ('lexicons', 'modified'): [
        ('INSERT', 'const:False'),
    ],
    ('lexicons', 'rowid'): [
        ('INSERT', 'null'),
    ],
    ('lexicons', 'url'): [
        ('INSERT', 'Lexicon|LexiconExtension.url?'),
    ],
    ('lexicons', 'version'): [
        ('INSERT', 'Lexicon|LexiconExtension.version'),
    ],
    ('pronunciations', '<row produced when>'): [
        ('INSERT', 'LexicalEntry.lemma?', 'over _batch(param:entries)', 'over param:entries', 'over LexicalEntry.lemma.pronunciations?=[]'),
        ('INSERT', 'over _batch(param:entries)', 'over param:entries', 'over enumerate(LexicalEntry.forms?=[], const:1)', 'over Form.pronunciations?=[]'),
    ],
    ('pronunciations', 'audio'): [
        ('INSERT', 'Pronunciation.audio?'),
    ],
    ('pronunciations', 'form_rowid'): [
        ('INSERT', 'forms', 'LexicalEntry.id', 'lid(LexicalEntry.id)', 'Form.id?', '(const:-1 if external(Form) else enum(1)@LexicalEntry.forms?=[])'),
        ('INSERT', 'forms', 'LexicalEntry.id', 'lid(LexicalEntry.id)', 'const:None', 'const:0'),
    ],
    ('pronunciations', 'notation'): [
        ('INSERT', 'Pronunciation.notation?'),
    ],
    ('pronunciations', 'phonemic'): [
        ('INSERT', 'Pronunciation.phonemic?=True'),
    ],
    ('pronunciations', 'value'): [
        ('INSERT', 'Pronunciation.text'),
    ],
    ('pronunciations', 'variety'): [
        ('INSERT', 'Pronunciation.variety?'),
    ],
    ('proposed_ilis', '<row produced when>'): [
        ('INSERT', "Synset.ili == const:'in'", 'over _batch(_local_synsets(param:synsets))', 'over _local_synsets(param:synsets)'),
    ],
    ('proposed_ilis', 'definition'): [
        ('INSERT', '(Synset.ili_definition?.text if Synset.ili_definition? else const:None)'),
    ],
    ('proposed_ilis', 'metadata'): [
        ('INSERT', '(Synset.ili_definition?.meta if Synset.ili_definition? else const:None)'),
    ],
    ('proposed_ilis', 'rowid'): [
        ('INSERT', 'null'),
    ],
    ('proposed_ilis', 'synset_rowid'): [
        ('INSERT', 'synsets', 'Synset.id', 'lexid'),
    ],
    ('relation_types', '<row produced when>'): [
        ('INSERT OR IGNORE', 'over sorted(set[Relation.relType over Lexicon|LexiconExtension.synsets?=[] , Synset.relations?=[]])'),
    ],
    ('relation_types', 'rowid'): [
        ('INSERT OR IGNORE', 'null'),
    ],
    ('relation_types', 'type'): [
        ('INSERT OR IGNORE', 'Relation.relType'),
    ],
    ('sense_examples', '<row produced when>'): [
        ('INSERT', 'over _batch(param:objs)', 'over param:objs', 'over Sense|Synset.examples?=[]'),
    ],
    ('sense_examples', 'example'): [
        ('INSERT', 'Example.text'),
    ],
    ('sense_examples', 'language'): [
        ('INSERT', 'Example.language?'),
    ],
    ('sense_examples', 'lexicon_rowid'): [
        ('INSERT', 'lexid'),
    ],
    ('sense_examples', 'metadata'): [
        ('INSERT', 'Example.meta'),
    ],
    ('sense_examples', 'rowid'): [
        ('INSERT', 'null'),
    ],
    ('sense_examples', 'sense_rowid'): [
        ('INSERT', 'senses', 'Sense|Synset.id', 'lid(Sense|Synset.id)'),
    ],
    ('sense_relations', '<row produced when>'): [
        ('INSERT',),
    ],
    ('sense_relations', 'lexicon_rowid'): [
        ('INSERT', 'lexid'),
    ],
    ('sense_relations', 'metadata'): [
        ('INSERT', 'Relation.meta'),
    ],
    ('sense_relations', 'rowid'): [
        ('INSERT', 'null'),
    ],
    ('sense_relations', 'source_rowid'): [
        ('INSERT', 'senses', 'Sense.id', 'lid(Sense.id)'),
    ],
    ('sense_relations', 'target_rowid'): [
        ('INSERT', 'senses', 'Relation.target', 'lid(Relation.target)'),
    ],
    ('sense_relations', 'type_rowid'): [
        ('INSERT', 'relation_types', 'Relation.relType'),
    ],
    ('sense_synset_relations', '<row produced when>'): [
        ('INSERT',),
    ],
    ('sense_synset_relations', 'lexicon_rowid'): [
        ('INSERT', 'lexid'),
    ],
    ('sense_synset_relations', 'metadata'): [
        ('INSERT', 'Relation.meta'),
    ],
    ('sense_synset_relations', 'rowid'): [
        ('INSERT', 'null'),
    ],
    ('sense_synset_relations', 'source_rowid'): [
        ('INSERT', 'senses', 'Sense.id', 'lid(Sense.id)'),
    ],
    ('sense_synset_relations', 'target_rowid'): [
        ('INSERT', 'synsets', 'Relation.target', 'lid(Relation.target)'),
    ],
    ('sense_synset_relations', 'type_rowid'): [
        ('INSERT', 'relation_types', 'Relation.relType'),
    ],
    ('senses', '<row produced when>'): [
        ('INSERT', 'over _batch(param:entries)', 'over param:entries', 'over enumerate(_local_senses(LexicalEntry.senses?=[]))'),
    ],
    ('senses', 'entry_rank'): [
        ('INSERT', 'enum(0)@_local_senses(LexicalEntry.senses?=[])'),
    ],
    ('senses', 'entry_rowid'): [
        ('INSERT', 'entries', 'LexicalEntry.id', 'lid(LexicalEntry.id)'),
    ],
    ('senses', 'id'): [
        ('INSERT', 'Sense.id'),
    ],
    ('senses', 'lexicalized'): [
        ('INSERT', 'Sense.lexicalized?=True'),
    ],
    ('senses', 'lexicon_rowid'): [
        ('INSERT', 'lexid'),
    ],
    ('senses', 'metadata'): [
        ('INSERT', 'Sense.meta'),
    ],
    ('senses', 'rowid'): [
        ('INSERT', 'null'),
    ],
    ('senses', 'synset_rank'): [
        ('INSERT', 'dict[each(Synset.members?=[]): enum(0)@Synset.members?=[] over _local_synsets(param:synsets) , enumerate(Synset.members?=[])].get(Sense.id, DEFAULT_MEMBER_RANK)'),
    ],
    ('senses', 'synset_rowid'): [
        ('INSERT', 'synsets', 'Sense.synset', 'lid(Sense.synset)'),
    ],
    ('synset_examples', '<row produced when>'): [
        ('INSERT', 'over _batch(param:objs)', 'over param:objs', 'over Sense|Synset.examples?=[]'),
    ],
    ('synset_examples', 'example'): [
        ('INSERT', 'Example.text'),
    ],
    ('synset_examples', 'language'): [
        ('INSERT', 'Example.language?'),
    ],
    ('synset_examples', 'lexicon_rowid'): [
        ('INSERT', 'lexid'),
    ],
    ('synset_examples', 'metadata'): [
        ('INSERT', 'Example.meta'),
    ],
    ('synset_examples', 'rowid'): [
        ('INSERT', 'null'),
    ],
    ('synset_examples', 'synset_rowid'): [
        ('INSERT', 'synsets', 'Sense|Synset.id', 'lid(Sense|Synset.id)'),
    ],
    ('synset_relations', '<row produced when>'): [
        ('INSERT', 'over _batch(param:synsets)', 'over param:synsets', 'over Synset.relations?=[]'),
    ],
    ('synset_relations', 'lexicon_rowid'): [
        ('INSERT', 'lexid'),
    ],
    ('synset_relations', 'metadata'): [
        ('INSERT', 'Relation.meta'),
    ],
    ('synset_relations', 'rowid'): [
        ('INSERT', 'null'),
    ],
    ('synset_relations', 'source_rowid'): [
        ('INSERT', 'synsets', 'Synset.id', 'lid(Synset.id)'),
    ],
    ('synset_relations', 'target_rowid'): [
        ('INSERT', 'synsets', 'Relation.target', 'lid(Relation.target)'),
    ],
    ('synset_relations', 'type_rowid'): [
        ('INSERT', 'relation_types', 'Relation.relType'),
    ],
    ('synsets', '<row produced when>'): [
        ('INSERT', 'over _batch(_local_synsets(param:synsets))', 'over _local_synsets(param:synsets)'),
    ],
    ('synsets', 'id'): [
        ('INSERT', 'Synset.id'),
    ],
    ('synsets', 'ili_rowid'): [
        ('INSERT', 'ilis', "(Synset.ili if Synset.ili and Synset.ili != const:'in' else const:None)"),
    ],
    ('synsets', 'lexfile_rowid'): [
        ('INSERT', 'lexfiles', 'Synset.lexfile?'),
    ],
    ('synsets', 'lexicalized'): [
        ('INSERT', 'Synset.lexicalized?=True'),
    ],
    ('synsets', 'lexicon_rowid'): [
        ('INSERT', 'lexid'),
    ],
    ('synsets', 'metadata'): [
        ('INSERT', 'Synset.meta'),
    ],
    ('synsets', 'pos'): [
        ('INSERT', 'Synset.partOfSpeech?'),
    ],
    ('synsets', 'rowid'): [
        ('INSERT', 'null'),
    ],
    ('syntactic_behaviour_senses', '<row produced when>'): [
        ('INSERT', 'over dict[SyntacticBehaviour.subcategorizationFrame: SyntacticBehaviour.senses?=[] over param:synbhrs]', 'over SyntacticBehaviour.senses?=[]'),
    ],
    ('syntactic_behaviour_senses', 'sense_rowid'): [
        ('INSERT', 'senses', 'each(SyntacticBehaviour.senses?=[])', 'lid(each(SyntacticBehaviour.senses?=[]))'),
    ],
    ('syntactic_behaviour_senses', 'syntactic_behaviour_rowid'): [
        ('INSERT', 'syntactic_behaviours', 'lexid', 'SyntacticBehaviour.subcategorizationFrame'),
    ],
    ('syntactic_behaviours', '<row produced when>'): [
        ('INSERT', 'over param:synbhrs'),
    ],
    ('syntactic_behaviours', 'frame'): [
        ('INSERT', 'SyntacticBehaviour.subcategorizationFrame'),
    ],
    ('syntactic_behaviours', 'id'): [
        ('INSERT', '(SyntacticBehaviour.id? or const:None)'),
    ],
    ('syntactic_behaviours', 'lexicon_rowid'): [
        ('INSERT', 'lexid'),
    ],
    ('syntactic_behaviours', 'rowid'): [
        ('INSERT', 'null'),
    ],
    ('tags', '<row produced when>'): [
        ('INSERT', 'LexicalEntry.lemma?', 'over _batch(param:entries)', 'over param:entries', 'over LexicalEntry.lemma.tags?=[]'),
        ('INSERT', 'over _batch(param:entries)', 'over param:entries', 'over enumerate(LexicalEntry.forms?=[], const:1)', 'over Form.tags?=[]'),
    ],
    ('tags', 'category'): [
        ('INSERT', 'Tag.category'),
    ],
    ('tags', 'form_rowid'): [
        ('INSERT', 'forms', 'LexicalEntry.id', 'lid(LexicalEntry.id)', 'Form.id?', '(const:-1 if external(Form) else enum(1)@LexicalEntry.forms?=[])'),
        ('INSERT', 'forms', 'LexicalEntry.id', 'lid(LexicalEntry.id)', 'const:None', 'const:0'),
    ],
    ('tags', 'tag'): [
        ('INSERT', 'Tag.text'),
    ],
}
