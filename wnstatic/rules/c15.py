"""C15 — information-content weights are conserved, counted once and monotone."""
from __future__ import annotations
import ast
from ..pat import Frag
from ..src import norm, walk_no_nested, AnalysisError
from ..loops import classify_while, _dominating_facts, _not_in
from ..pyutil import parents

META = {
    'title': 'Information-content weights are conserved, counted once and monotone',
    'technique': 'termination/visit idiom of the accumulation loop (global visited per start synset); dominance of POS folding',
    'explanation': (
        'Conservation and monotonicity over all graphs and corpora are runtime sums and are not decided. The check decides the '
        'clause the documentation states - each word synset adds its weight to itself and to each hypernym ancestor once, however '
        'many paths converge: R1 the accumulation `freq[pos][ss.id] += weight` lies in a worklist loop of idiom (G) whose visited '
        'set is created once per (word, synset) start and guards the accumulation itself (a per-path set (P) terminates but '
        'counts once per path); R2 every freq[pos] subscript in compute() is dominated by the s->a folding and the '
        'IC_PARTS_OF_SPEECH membership test; R3 the part-of-speech total is incremented once per (word, synset), outside the '
        'ancestor walk; R4 the weight is count/len(synsets) when distributing, else count, and unknown words are skipped; '
        'R5 _initialize gives every synset the smoothing value, folds satellites into adjectives and sets the totals; '
        'R6 probability = weight / total of the part of speech and IC = -log(probability).'),
    'decides': ['once-per-node accumulation', 'POS folding before indexing', 'total incremented once', 'weight formula shape',
                'initialisation', 'probability formula shape'],
    'not_decided': ['conservation / monotonicity as numeric facts', 'load() from WordNet::Similarity files (value level)'],
    'assumptions': [],
}


def _compute(ctx):
    return ctx.repo.func('ic', 'compute')


def _accumulations(f):
    out = []
    for n in walk_no_nested(f.node):
        if isinstance(n, ast.AugAssign) and isinstance(n.op, ast.Add) and isinstance(n.target, ast.Subscript) \
                and isinstance(n.target.value, ast.Subscript) and norm(n.target.value.value) == 'freq':
            out.append(n)
    return out


def r1_once_per_node(ctx, res):
    f = _compute(ctx)
    accs = [a for a in _accumulations(f) if norm(a.target.slice) != 'None']
    key = 'accumulation-present'
    res.inst(key, f.module.loc(f.node), f'{[norm(a) for a in accs]}')
    if len(accs) != 1:
        res.find(key, f.module.loc(f.node), f'compute() is expected to add the weight to a synset in exactly one place, found {len(accs)}')
        return
    acc = accs[0]
    loop = None
    for p in parents(acc):
        if isinstance(p, ast.While):
            loop = p
            break
        if p is f.node:
            break
    key = 'accumulation-idiom'
    if loop is None:
        res.inst(key, f.module.loc(acc), 'not inside a worklist loop')
        # acceptable alternative: accumulate over a de-duplicated set of ancestors
        par_for = [p for p in parents(acc) if isinstance(p, ast.For)]
        it = norm(par_for[0].iter) if par_for else ''
        if not (par_for and ('set(' in it or 'closure(' in it or 'unique_list(' in it)):
            res.find(key, f.module.loc(acc), 'the ancestor walk of compute() is no longer a guarded worklist loop nor an iteration over a '
                                             'de-duplicated set of ancestors: shared ancestors may be counted once per path')
        return
    info = classify_while(f, loop)
    res.inst(key, f.module.loc(loop), f'idiom {info.idiom}: {info.why}')
    if info.idiom != 'G':
        res.find(key, f.module.loc(loop),
                 f'the ancestor walk of compute() uses idiom {info.idiom} ({info.why}): the weight must be added under a test of the '
                 f'popped synset against one visited set per word synset; with a per-path set, or with a filter applied only when '
                 f'hypernyms are queued, a hypernym reached over several paths can be popped - and counted - more than once '
                 f'(diamond / redundant edge: probability of an inner node > its hypernym), contradicting "added to each ancestor once"')
        return
    v = info.visited
    # the accumulation itself is on the guarded path
    facts = [x for x in (_not_in(t, pol) for t, pol in _dominating_facts(acc, loop)) if x]
    key = 'accumulation-guarded'
    res.inst(key, f.module.loc(acc), f'dominated by {facts}')
    if not any(vs == v for _, vs in facts):
        res.find(key, f.module.loc(acc), f'`{norm(acc)}` is not dominated by the `not in {v}` test: the weight is added before the '
                                         f'visited check')
    # visited set created per start synset
    key = 'visited-per-start'
    creat = [n for n in walk_no_nested(f.node) if isinstance(n, (ast.Assign, ast.AnnAssign))
             and any(isinstance(t, ast.Name) and t.id == v for t in (n.targets if isinstance(n, ast.Assign) else [n.target]))]
    res.inst(key, f.module.loc(loop), f'{v} created at {[c.lineno for c in creat]}')
    inner_for = next((p for p in parents(loop) if isinstance(p, ast.For)), None)
    ok = False
    for c in creat:
        cf = next((p for p in parents(c) if isinstance(p, (ast.For, ast.While))), None)
        if cf is inner_for and inner_for is not None:
            ok = True
    if not ok:
        res.find(key, f.module.loc(loop), f'the visited set `{v}` is not created once per (word, synset) start (inside the loop over the '
                                          f"word's synsets): weights of later synsets are not added to ancestors already seen")
    # the walk follows hypernyms of the popped synset
    key = 'walk-follows-hypernyms'
    src = norm(loop)
    res.inst(key, f.module.loc(loop), 'agenda extended with the (cached) hypernyms of the popped synset')
    if '.hypernyms()' not in src:
        res.find(key, f.module.loc(loop), 'the ancestor walk no longer follows hypernyms()')


def r2_pos_folding(ctx, res):
    f = _compute(ctx)
    loops = [n for n in walk_no_nested(f.node) if isinstance(n, ast.For) and norm(n.iter) == 'synsets']
    if not loops:
        raise AnalysisError('anchor vanished: loop over the synsets of a word in ic.compute')
    lp = loops[0]
    first_use = None
    fold = None
    member = None
    for i, st in enumerate(lp.body):
        if first_use is None and any(isinstance(x, ast.Subscript) and norm(x.value) == 'freq' for x in ast.walk(st)):
            first_use = i
        if isinstance(st, ast.If) and norm(st.test) in ('pos == ADJ_SAT', 'ADJ_SAT == pos') \
                and any(norm(s) == 'pos = ADJ' for s in st.body):
            fold = i
        if isinstance(st, ast.If) and norm(st.test) == 'pos not in IC_PARTS_OF_SPEECH' and st.body \
                and isinstance(st.body[-1], ast.Continue):
            member = i
    key = 'pos-folding-dominates'
    res.inst(key, f.module.loc(lp), f'fold at {fold}, membership at {member}, first freq[...] use at {first_use}')
    if first_use is None:
        res.find(key, f.module.loc(lp), 'compute() no longer indexes freq[...] in the per-synset loop')
    elif fold is None or fold > first_use:
        res.find(key, f.module.loc(lp), 'freq[pos] is indexed before satellite adjectives are folded into adjectives (`if pos == ADJ_SAT: '
                                        "pos = ADJ`): 's' synsets raise KeyError or are not counted as adjectives")
    elif member is None or member > first_use:
        res.find(key, f.module.loc(lp), 'freq[pos] is indexed before the `pos not in IC_PARTS_OF_SPEECH` test: other parts of speech '
                                        'raise KeyError')
    # all freq subscripts in compute use `pos` (the folded variable)
    for x in walk_no_nested(f.node):
        if isinstance(x, ast.Subscript) and norm(x.value) == 'freq':
            k2 = f'freq-index:{norm(x.slice)}'
            res.inst(k2, f.module.loc(x), 'freq indexed by the folded part of speech')
            if norm(x.slice) != 'pos':
                res.find(k2, f.module.loc(x), f'freq is indexed by `{norm(x.slice)}` instead of the folded `pos`')


def r3_total_once(ctx, res):
    f = _compute(ctx)
    tots = [a for a in _accumulations(f) if norm(a.target.slice) == 'None']
    key = 'total-incremented-once'
    res.inst(key, f.module.loc(f.node), f'{[norm(t) for t in tots]}')
    if len(tots) != 1:
        res.find(key, f.module.loc(f.node), f'the part-of-speech total is incremented in {len(tots)} places (expected one, per word synset)')
        return
    t = tots[0]
    if any(isinstance(p, ast.While) for p in parents(t)):
        res.find(key, f.module.loc(t), 'the part-of-speech total is incremented inside the ancestor walk (once per ancestor instead of once '
                                       'per word synset): probabilities no longer sum as documented')
    if norm(t.value) != 'weight':
        res.find(key, f.module.loc(t), f'the total is incremented by `{norm(t.value)}`, not by the weight')
    accs = [a for a in _accumulations(f) if norm(a.target.slice) != 'None']
    for a in accs:
        if norm(a.value) != 'weight':
            res.find('accumulation-value', f.module.loc(a), f'synset weight is incremented by `{norm(a.value)}`')


def r4_weight(ctx, res):
    f = _compute(ctx)
    key = 'weight-formula'
    w = [n for n in walk_no_nested(f.node) if isinstance(n, ast.Assign) and norm(n.targets[0]) == 'weight']
    res.inst(key, f.module.loc(f.node), f'{[norm(x.value) for x in w]}')
    ok = False
    for a in w:
        for n in ast.walk(a.value):
            if isinstance(n, ast.IfExp) and norm(n.test) == 'distribute_weight' and norm(n.body) == 'count / num' and norm(n.orelse) == 'count':
                ok = True
    if not ok:
        res.find(key, f.module.loc(f.node), 'weight is no longer `count / num if distribute_weight else count`')
    src = Frag(f.node)
    key = 'unknown-words-skipped'
    res.inst(key, f.module.loc(f.node), 'num = len(synsets); if num == 0: continue')
    if 'num = len(synsets)' not in src or not any(isinstance(n, ast.If) and norm(n.test) in ('num == 0', 'not num', 'not synsets')
                                                  and isinstance(n.body[-1], ast.Continue) for n in walk_no_nested(f.node)):
        res.find(key, f.module.loc(f.node), 'words without synsets are no longer skipped before dividing by the number of synsets')
    key = 'corpus-counter'
    res.inst(key, f.module.loc(f.node), 'counts = Counter(corpus)')
    if 'Counter(corpus)' not in src:
        res.find(key, f.module.loc(f.node), 'the corpus is no longer counted as a multiset (Counter)')


def r5_initialize(ctx, res):
    f = ctx.repo.func('ic', '_initialize')
    src = Frag(f.node)
    key = 'initialize'
    res.inst(key, f.module.loc(f.node), 'smoothing per synset, ADJ_SAT folded, totals')
    need = ['synset.id: smoothing for synset in wordnet.synsets(pos=pos)', 'wordnet.synsets(pos=ADJ_SAT)', 'freq[ADJ][synset.id] = smoothing',
            'freq[pos][None] = smoothing']
    for nd in need:
        if nd not in src:
            res.find(key + ':' + nd[:30], f.module.loc(f.node), f'_initialize no longer contains `{nd}`')
    cf = _compute(ctx)
    key = 'compute-initializes'
    res.inst(key, cf.module.loc(cf.node), 'freq = _initialize(wordnet, smoothing)')
    if '_initialize(wordnet, smoothing)' not in norm(cf.node):
        res.find(key, cf.module.loc(cf.node), 'compute() no longer starts from _initialize(wordnet, smoothing)')


def r6_probability(ctx, res):
    sp = ctx.repo.func('ic', 'synset_probability')
    key = 'probability-formula'
    rets = [n for n in walk_no_nested(sp.node) if isinstance(n, ast.Return)]
    res.inst(key, sp.module.loc(sp.node), norm(rets[0].value) if rets else '')
    ok = len(rets) == 1 and isinstance(rets[0].value, ast.BinOp) and isinstance(rets[0].value.op, ast.Div) \
        and norm(rets[0].value.left).endswith('[synset.id]') and norm(rets[0].value.right).endswith('[None]')
    if not ok:
        res.find(key, sp.module.loc(sp.node), 'synset_probability is no longer weight(synset) / total(part of speech)')
    ic = ctx.repo.func('ic', 'information_content')
    key = 'ic-formula'
    rets = [n for n in walk_no_nested(ic.node) if isinstance(n, ast.Return)]
    res.inst(key, ic.module.loc(ic.node), norm(rets[0].value) if rets else '')
    if not (len(rets) == 1 and norm(rets[0].value) == '-log(synset_probability(synset, freq))'):
        res.find(key, ic.module.loc(ic.node), 'information_content is no longer -log(synset_probability(synset, freq))')


def r7_cache_purity(ctx, res):
    """the hypernym cache shared by all words of the corpus holds, for a synset, all of its hypernyms - not a list filtered
    by the state of the walk that happened to fill it."""
    from .c16 import memo_purity
    n = memo_purity(ctx, res, only_module='ic')
    f = _compute(ctx)
    key = 'hypernym-cache-scope'
    creat = [x for x in walk_no_nested(f.node) if isinstance(x, (ast.Assign, ast.AnnAssign))
             and norm(x.targets[0] if isinstance(x, ast.Assign) else x.target) == 'hypernym_cache']
    res.inst(key, f.module.loc(f.node), f'{n} memo sites; cache created at {[c.lineno for c in creat]}')
    if n < 1:
        # without a cache the walk must call hypernyms() directly
        if '.hypernyms()' not in norm(f.node):
            res.find(key, f.module.loc(f.node), 'compute() neither caches nor queries hypernyms')


RULES = [
    ('C15-R1', r1_once_per_node, 3),
    ('C15-R2', r2_pos_folding, 3),
    ('C15-R3', r3_total_once, 1),
    ('C15-R4', r4_weight, 3),
    ('C15-R5', r5_initialize, 2),
    ('C15-R6', r6_probability, 2),
    ('C15-R7', r7_cache_purity, 1),
]
