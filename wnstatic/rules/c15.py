"""C15 — information-content weights are conserved, counted once and monotone."""
from __future__ import annotations
import ast
from ..pat import Frag
from ..src import norm, walk_no_nested, AnalysisError
from ..loops import classify_while
from ..effects import module_summary, canon
from ..inline import Opaque

META = {
    'title': 'Information-content weights are conserved, counted once and monotone',
    'technique': 'effect summary of ic.compute (name-free normal form: locals inlined, loop variables positional, cells by creation): guards and loop context of every write to the weight table',
    'explanation': (
        'Conservation and monotonicity over all graphs and corpora are runtime sums and are not decided. The check decides the '
        'clause the documentation states - each word synset adds its weight to itself and to each hypernym ancestor once, however '
        'many paths converge: R1 the accumulation `freq[pos][ss.id] += weight` lies in a worklist loop of idiom (G) whose visited '
        'set is created once per (word, synset) start and guards the accumulation itself (a per-path set (P) terminates but '
        'counts once per path); R2 every freq[pos] subscript in compute() is dominated by the s->a folding and the '
        'IC_PARTS_OF_SPEECH membership test; R3 the part-of-speech total is incremented once per (word, synset), outside the '
        'ancestor walk; R4 the weight is count/len(synsets) when distributing, else count, and unknown words are skipped; '
        'R5 _initialize gives every synset the smoothing value, folds satellites into adjectives and sets the totals; '
        'R6 probability = weight / total of the part of speech and IC = -log(probability). R8 the ancestor walk stays in the given wordnet (C04-R7). R9 a synset on the walk that has no entry in the table - a placeholder inferred through an expand lexicon - is passed over, not indexed. R1 also: a visited synset is counted, the only further condition being its entry in the table.'),
    'decides': ['once-per-node accumulation', 'POS folding before indexing', 'total incremented once', 'weight formula shape',
                'initialisation', 'probability formula shape'],
    'not_decided': ['conservation / monotonicity as numeric facts', 'load() from WordNet::Similarity files (value level)'],
    'assumptions': [],
}


def _compute(ctx):
    return ctx.repo.func('ic', 'compute')


def _root(e):
    while isinstance(e, (ast.Subscript, ast.Attribute)):
        e = e.value
    return e


class _View:
    """the writes of compute() to the weight table, read off its effect summary"""

    def __init__(self, ctx):
        self.f = _compute(ctx)
        try:
            _, self.E = module_summary(ctx, 'ic', 'compute')
        except Opaque as exc:
            raise AnalysisError(f'ic.compute cannot be summarised: {exc}')
        news = [e for e in self.E if e.kind == 'new' and '_initialize(' in e.text]
        self.freq = news[0].text if news else None
        self.writes = []
        for e in self.E:
            if e.kind in ('aug', 'store') and e.lhs is not None and isinstance(e.lhs, ast.Subscript) and isinstance(e.lhs.value, ast.Subscript):
                r = _root(e.lhs)
                if isinstance(r, ast.Name) and r.id == self.freq:
                    self.writes.append(e)
        self.accs = [w for w in self.writes if canon(w.lhs.slice) != 'None']
        self.totals = [w for w in self.writes if canon(w.lhs.slice) == 'None']

    def loc(self, e=None):
        return self.f.module.loc(e.node if e is not None else self.f.node)


def _view(ctx):
    return ctx.repo.cache('c15-view', lambda: _View(ctx))


def r1_once_per_node(ctx, res):
    v = _view(ctx)
    key = 'accumulation-present'
    res.inst(key, v.loc(), f'{[a.text[:60] for a in v.accs]}')
    if v.freq is None or not v.accs:
        res.find(key, v.loc(), 'compute() no longer adds the weight to the synsets of the table returned by _initialize()')
        return
    for a in v.accs:
        key = 'accumulation-guarded'
        k = a.lhs.slice
        popped = canon(k.value) if isinstance(k, ast.Attribute) and k.attr == 'id' else None
        res.inst(key, v.loc(a), f'{a.text[:70]} when {sorted(a.guards)[:2]}')
        if a.kind != 'aug' or a.op != '+=':
            res.find(key, v.loc(a), f'the synset weight is written with `{a.text[:80]}` instead of being incremented')
            continue
        in_while = [c for c in a.ctx if c.startswith('while ')]
        dedup_for = [c for c in a.ctx if c.startswith('for ') and any(w in c for w in ('set(', 'closure(', 'unique_list('))]
        if not in_while and dedup_for:
            continue          # accumulation over a de-duplicated set of ancestors
        if popped is None or not in_while:
            res.find(key, v.loc(a), f'the ancestor walk of compute() is neither a worklist loop over popped synsets nor an iteration over a '
                                    f'de-duplicated set of ancestors (`{a.text[:80]}` in {a.ctx}): shared ancestors may be counted once per path')
            continue
        # guard `popped not in S` for a cell S
        vis = None
        for g in a.guards:
            if g.startswith(popped + ' not in #'):
                vis = g[len(popped) + len(' not in '):]
        if vis is None:
            res.find(key, v.loc(a), f'`{a.text[:80]}` is not guarded by a test of the popped synset against a visited set (guards: '
                                    f'{sorted(a.guards)}): a synset that is queued twice - two hypernym paths, a redundant edge, a cycle - is '
                                    f'counted twice, contradicting "added to each ancestor once"')
            continue
        adds = [e for e in v.E if e.kind == 'call' and e.op == 'add' and e.lhs is not None and canon(e.lhs) == vis and e.rhs is not None
                and canon(e.rhs) == popped and e.ctx == a.ctx and set(e.guards) <= set(a.guards)]
        key = 'visited-recorded'
        res.inst(key, v.loc(a), f'{vis}.add({popped}) under the same guard')
        if not adds:
            res.find(key, v.loc(a), f'the popped synset is not added to the visited set `{vis}` on the path that counts it')
        else:
            # every synset that is visited is counted: the only further condition on the increment is "it has an entry in the
            # table" (placeholders inferred through an expand lexicon have none)
            import re as _re
            from ..speccheck import short as _short
            extra = [g for g in set(a.guards) - set(adds[0].guards)
                     if not _re.fullmatch(_re.escape(_short(popped)) + r'\.id in #\d+\[.+\]', _short(g))]
            key2 = 'visited-means-counted'
            res.inst(key2, v.loc(a), f'conditions on the increment beyond the visit: {sorted(set(a.guards) - set(adds[0].guards))}')
            if extra:
                res.find(key2, v.loc(a), f'a visited synset is counted only under {sorted(extra)}: an ancestor for which that fails gets no '
                                         f'weight (and, if the walk skips it, neither do the ancestors above it)')
        key = 'visited-per-start'
        news = [e for e in v.E if e.kind in ('new', 'store') and e.text.startswith(vis)]
        res.inst(key, v.loc(a), f'{vis} created in {[n.ctx for n in news][:2]}')
        widx = a.ctx.index(in_while[0])
        want_ctx = a.ctx[:widx]
        if not news or any(n.ctx != want_ctx for n in news) or len([c for c in want_ctx if c.startswith('for ')]) < 2:
            res.find(key, v.loc(a), f'the visited set `{vis}` is not created once per (word, synset) start - it is created in '
                                    f'{[n.ctx for n in news]} while the walk runs in {want_ctx}: weights of later synsets are not added to '
                                    f'ancestors already seen, or one word\'s walk hides another\'s')
    # termination idiom of the loop itself (see C11-R1): must be the pop-time test (G)
    key = 'accumulation-idiom'
    loops = [n for n in walk_no_nested(v.f.node) if isinstance(n, ast.While)]
    for lp in loops:
        info = classify_while(v.f, lp)
        res.inst(key, v.f.module.loc(lp), f'idiom {info.idiom}: {info.why}')
        if info.idiom not in ('G', 'B'):
            res.find(key, v.f.module.loc(lp),
                     f'the ancestor walk of compute() uses idiom {info.idiom} ({info.why}): the weight must be added under a test of the '
                     f'popped synset against one visited set per word synset; with a per-path set, or with a filter applied only when '
                     f'hypernyms are queued, a hypernym reached over several paths can be popped - and counted - more than once '
                     f'(diamond / redundant edge: probability of an inner node > its hypernym), contradicting "added to each ancestor once"')
    key = 'walk-follows-hypernyms'
    res.inst(key, v.loc(), 'agenda extended with the (cached) hypernyms of the popped synset')
    if not any('.hypernyms()' in e.text for e in v.E if any(c.startswith('while ') for c in e.ctx)) and not \
            any('hypernym' in c for a in v.accs for c in a.ctx):
        res.find(key, v.loc(), 'the ancestor walk no longer follows hypernyms()')


def _is_fold(p):
    """`ADJ if X.pos == ADJ_SAT else X.pos`"""
    if isinstance(p, ast.IfExp) and isinstance(p.test, ast.Compare) and len(p.test.ops) == 1 and isinstance(p.test.ops[0], ast.Eq):
        l, r = norm(p.test.left), norm(p.test.comparators[0])
        other = l if r == 'ADJ_SAT' else r if l == 'ADJ_SAT' else None
        return other is not None and other.endswith('.pos') and norm(p.body) == 'ADJ' and norm(p.orelse) == other
    return False


def r2_pos_folding(ctx, res):
    v = _view(ctx)
    if not v.writes:
        raise AnalysisError('anchor vanished: writes to the weight table in ic.compute')
    for w in v.writes:
        p = w.lhs.value.slice
        key = f'pos-folded:{"total" if w in v.totals else "synset"}'
        res.inst(key, v.loc(w), canon(p))
        if not _is_fold(p):
            res.find(key, v.loc(w), f'the weight table is indexed by `{canon(p)}`: satellite adjectives must be folded into adjectives first '
                                    f"(`ADJ if pos == ADJ_SAT else pos`), else 's' synsets raise KeyError or are not counted as adjectives")
            continue
        key = f'pos-membership:{"total" if w in v.totals else "synset"}'
        res.inst(key, v.loc(w), f'{canon(p)} in IC_PARTS_OF_SPEECH')
        if f'{canon(p)} in IC_PARTS_OF_SPEECH' not in w.guards and f'({canon(p)}) in IC_PARTS_OF_SPEECH' not in w.guards:
            res.find(key, v.loc(w), f'`{w.text[:70]}` is not guarded by the `in IC_PARTS_OF_SPEECH` test of the folded part of speech: other '
                                    f'parts of speech raise KeyError')


def r3_total_once(ctx, res):
    v = _view(ctx)
    key = 'total-incremented-once'
    res.inst(key, v.loc(), f'{[t.text[:70] for t in v.totals]}')
    if len(v.totals) != 1:
        res.find(key, v.loc(), f'the part-of-speech total is incremented in {len(v.totals)} places (expected one, per word synset)')
        return
    t = v.totals[0]
    if any(c.startswith('while ') for c in t.ctx) or len([c for c in t.ctx if c.startswith('for ')]) != 2:
        res.find(key, v.loc(t), f'the part-of-speech total is incremented in {t.ctx} (expected: once per word synset, outside the ancestor '
                                f'walk): probabilities no longer sum as documented')
    if t.kind != 'aug' or t.op != '+=':
        res.find(key, v.loc(t), f'the total is written with `{t.text[:70]}` instead of being incremented')
    key = 'same-weight'
    res.inst(key, v.loc(t), t.rhs_text[:80])
    for a in v.accs:
        if a.rhs_text != t.rhs_text:
            res.find(key, v.loc(a), f'a synset receives `{a.rhs_text[:70]}` while the total receives `{t.rhs_text[:70]}`')


def r4_weight(ctx, res):
    v = _view(ctx)
    key = 'weight-formula'
    if not v.totals:
        raise AnalysisError('anchor vanished: increment of the part-of-speech total in ic.compute')
    t = v.totals[0]
    fors = [c[4:] for c in t.ctx if c.startswith('for ')]
    res.inst(key, v.loc(t), t.rhs_text[:90])
    ok = False
    w = t.rhs
    if len(fors) == 2 and isinstance(w, ast.IfExp) and norm(w.test) == 'distribute_weight':
        syn = fors[1]
        accept_b = {f'$1[1] / len({syn})', f'float($1[1] / len({syn}))'}
        accept_o = {'$1[1]', 'float($1[1])'}
        ok = canon(w.body) in accept_b and canon(w.orelse) in accept_o
    if not ok:
        res.find(key, v.loc(t), f'the weight of a word synset is `{t.rhs_text[:100]}`; documented: count / (number of synsets of the word) when '
                                f'distribute_weight, else count')
    key = 'corpus-counter'
    res.inst(key, v.loc(), fors[0] if fors else '')
    if not fors or fors[0] != 'Counter(corpus).items()':
        res.find(key, v.loc(), f'the outer loop runs over `{fors[0] if fors else None}`: the corpus is no longer counted as a multiset '
                               f'(Counter(corpus).items() gives (word, count))')
    key = 'word-synsets'
    res.inst(key, v.loc(), fors[1] if len(fors) > 1 else '')
    if len(fors) < 2 or fors[1] != 'wordnet.synsets($1[0])':
        res.find(key, v.loc(), f'the inner loop runs over `{fors[1] if len(fors) > 1 else None}` instead of the synsets of the word')
    key = 'unknown-words-skipped'
    if len(fors) > 1:
        syn = fors[1]
        res.inst(key, v.loc(), f'len({syn}) != 0')
        if not ({f'len({syn}) != 0', syn, f'len({syn}) > 0', f'0 != len({syn})'} & set(t.guards)):
            # the inner loop does not run for an empty list; the division happens when the weight is computed, so a guard is needed
            # only if the weight is evaluated outside the inner loop - it is inlined here, hence evaluated inside: accept
            pass


def r5_initialize(ctx, res):
    f, E = module_summary(ctx, 'ic', '_initialize')
    key = 'initialize'
    news = [e for e in E if e.kind == 'new']
    cell = news[0].text if news else '?'
    got = {(e.kind, e.text.replace(cell, 'F'), e.ctx) for e in E if e.kind in ('store', 'return')}
    res.inst(key, f.module.loc(f.node), f'{len(got)} effects')
    need = [
        (('store', 'F[$1] = {_1.id: smoothing for _1 in wordnet.synsets(pos=$1)}', ('for sorted(IC_PARTS_OF_SPEECH)',)),
         'every synset of every part of speech starts at the smoothing value'),
        (('store', 'F[ADJ][$1.id] = smoothing', ('for wordnet.synsets(pos=ADJ_SAT)',)),
         'satellite adjectives are entered under ADJ'),
        (('store', 'F[$1][None] = smoothing', ('for sorted(IC_PARTS_OF_SPEECH)',)),
         'the total of every part of speech starts at the smoothing value'),
        (('return', 'F', ()), 'the table is returned'),
    ]
    # the per-part-of-speech table may equally be filled by an explicit inner loop
    inner = [e for e in E if e.kind == 'new' and e.ctx in (('for sorted(IC_PARTS_OF_SPEECH)',), ('for IC_PARTS_OF_SPEECH',)) and e.text.endswith('<{}>')]
    if inner:
        ic = inner[0].text
        fill = {(e.kind, e.text.replace(ic, 'I'), e.ctx) for e in E if e.kind == 'store'}
        link = {(e.kind, e.text.replace(cell, 'F').replace(ic, 'I'), e.ctx) for e in E if e.kind == 'store'}
        for pos_loop in ('for sorted(IC_PARTS_OF_SPEECH)', 'for IC_PARTS_OF_SPEECH'):
            if ('store', 'I[$2.id] = smoothing', (pos_loop, 'for wordnet.synsets(pos=$1)')) in fill and ('store', 'F[$1] = I', (pos_loop,)) in link:
                got.add(('store', 'F[$1] = {_1.id: smoothing for _1 in wordnet.synsets(pos=$1)}', ('for sorted(IC_PARTS_OF_SPEECH)',)))
    for spec, why in need:
        alt = (spec[0], spec[1], tuple(c.replace('sorted(IC_PARTS_OF_SPEECH)', 'IC_PARTS_OF_SPEECH') for c in spec[2]))
        if spec not in got and alt not in got:
            res.find(key + ':' + spec[1][:30], f.module.loc(f.node), f'_initialize no longer does `{spec[1]}` in {spec[2]} ({why})')
    v = _view(ctx)
    key = 'compute-initializes'
    res.inst(key, v.loc(), v.freq or '')
    if v.freq is None or '<_initialize(wordnet, smoothing)>' not in v.freq:
        res.find(key, v.loc(), 'compute() no longer starts from _initialize(wordnet, smoothing)')


def r6_probability(ctx, res):
    sp, E = module_summary(ctx, 'ic', 'synset_probability')
    key = 'probability-formula'
    rets = [e for e in E if e.kind == 'return']
    res.inst(key, sp.module.loc(sp.node), rets[0].text if rets else '')
    if not (len(rets) == 1 and not rets[0].guards and rets[0].text == 'freq[synset.pos][synset.id] / freq[synset.pos][None]'):
        res.find(key, sp.module.loc(sp.node), f'synset_probability returns {[r.text for r in rets]}; documented: weight(synset) / total(part of speech)')
    ic, E = module_summary(ctx, 'ic', 'information_content')
    key = 'ic-formula'
    rets = [e for e in E if e.kind == 'return']
    res.inst(key, ic.module.loc(ic.node), rets[0].text if rets else '')
    if not (len(rets) == 1 and not rets[0].guards and rets[0].text in ('-log(synset_probability(synset, freq))',
                                                                        '-log(freq[synset.pos][synset.id] / freq[synset.pos][None])')):
        res.find(key, ic.module.loc(ic.node), f'information_content returns {[r.text for r in rets]}; documented: -log(synset_probability(synset, freq))')


def r7_cache_purity(ctx, res):
    """the hypernym cache shared by all words of the corpus holds, for a synset, all of its hypernyms - not a list filtered
    by the state of the walk that happened to fill it."""
    from .c16 import memo_purity
    n = memo_purity(ctx, res, only_module='ic')
    f = _compute(ctx)
    key = 'hypernym-cache-scope'
    res.inst(key, f.module.loc(f.node), f'{n} memo sites')
    if n < 1:
        # without a cache the walk must call hypernyms() directly
        if '.hypernyms()' not in norm(f.node):
            res.find(key, f.module.loc(f.node), 'compute() neither caches nor queries hypernyms')


def r8_ancestor_walk_stays_in_the_wordnet(ctx, res):
    """compute() adds a word's weight to its hypernym ancestors IN THE GIVEN WORDNET: the synsets the walk reaches carry that
    Wordnet (C04-R7); one built without it continues through every installed lexicon."""
    from .c04 import r7_wordnet_handed_on
    r7_wordnet_handed_on(ctx, res)

def r9_inferred_ancestors_passed_over(ctx, res):
    """compute() accepts a wordnet with expand lexicons (docs/api/wn.ic.rst): a hypernym that exists only in the expand lexicon is
    an *INFERRED* placeholder on the walk - not a synset of the wordnet, without an entry in the table _initialize built.  The
    increment of a synset's weight is therefore guarded by `<synset>.id in freq[pos]` (indexing the table with the placeholder id
    raises KeyError); the walk itself goes on through the placeholder."""
    import re
    from ..speccheck import view
    v = view(ctx, 'ic', 'compute')
    key = 'inferred-ancestors:passed-over'
    augs = [r for r in v.rows if r[0] == 'aug' and re.match(r'^(#\d+)\[.+\]\[(.+)\.id\] \+= ', r[1])]
    res.inst(key, v.loc(), f'{[(r[1][:60], sorted(r[2])[:2]) for r in augs]}')
    if not augs:
        res.find(key, v.loc(), 'compute() no longer increments the weight of the synsets on the ancestor walk')
    for r in augs:
        m = re.match(r'^(#\d+)\[(.+)\]\[(.+)\.id\] \+= ', r[1])
        table, pos, syn = m.group(1), m.group(2), m.group(3)
        want = f'{syn}.id in {table}[{pos}]'
        if want not in r[2]:
            res.find(key, v.loc(r[4]), f'compute() increments `{table}[..][{syn[:30]}.id]` without testing `{syn[:30]}.id in {table}[..]`: a '
                                       f'hypernym inferred through an expand lexicon has no entry in the table - KeyError for any wordnet '
                                       f'whose expand lexicon has a synset the wordnet itself lacks')


RULES = [
    ('C15-R1', r1_once_per_node, 3),
    ('C15-R2', r2_pos_folding, 3),
    ('C15-R3', r3_total_once, 1),
    ('C15-R4', r4_weight, 3),
    ('C15-R5', r5_initialize, 2),
    ('C15-R6', r6_probability, 2),
    ('C15-R7', r7_cache_purity, 1),
    ('C15-R8', r8_ancestor_walk_stays_in_the_wordnet, 12),
    ('C15-R9', r9_inferred_ancestors_passed_over, 1),
]
