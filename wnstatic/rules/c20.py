"""C20 — invalid WN-LMF is rejected as a whole; scans agree with full loads."""
from __future__ import annotations
import ast
import re
from ..pat import Frag
from ..src import norm, walk_no_nested, AnalysisError
from ..consts import const, Unknown, evaluate, module_consts
from ..pyutil import parents

META = {
    'title': 'Invalid WN-LMF is rejected as a whole; scans agree with full loads',
    'technique': 'folded header constants; effect summaries of _read_header, is_lmf, the expat start handler (in the canonical environment of _make_parser) and the validators; regex AST of the pre-scan; missing-decoder search',
    'explanation': (
        'Decides: R1 is_lmf() and load() share the one header check _read_header, is_lmf is False exactly on LMFError, and the '
        'accepted DOCTYPE table is derived from _SCHEMAS for exactly the supported versions (the constants dump() prints); R2 in '
        'the start-element handler the store parent[key] = attrs is reached only when the element is known in the declared version '
        'and not yet present - the alternative raises LMFError - list elements are _LIST_ELEMS restricted to the version, and '
        'ExpatError is converted to LMFError; R3 every model key that is required is asserted by the _validate_* function of its '
        'element or provided by the parser (meta/text/external) - the basis of C18-R1; R4 scan_lexicons delimits an attribute '
        'value by the quote it opened with, does not end a tag at a `>` inside a quoted value, decodes XML entities before '
        'returning values, and reads the same three element kinds the loader uses; R5 scan, pre-check and parse precede the '
        'transaction (C06-R4); R6 dump() prints only constants, ElementTree serialisations and quoteattr()-quoted values, so '
        'written files are well-formed whatever the stored values contain (shared with C02-R5). R7 dump() writes an element only under the versions the reader\'s tables accept it in (C02-R1/R3). R8 load() feeds the whole file, from its first byte, to the expat parser.'),
    'decides': ['one header check', 'reader rejects unknown / repeated elements', 'required attributes asserted', 'scan = load on lexicon headers',
                'parse before write', 'writer output well-formed'],
    'not_decided': ['element placement (DTD content models)', 'attribute value domains'],
    'assumptions': ['asserts are enabled (python -O is not used to load lexicons)'],
}

QUOTES = {34, 39}


def _fold(ctx, name):
    v = const(ctx.repo, 'lmf', name)
    if isinstance(v, Unknown):
        raise AnalysisError(f'cannot fold lmf.{name}: {v.why}')
    return v


def r1_header(ctx, res):
    lmf = ctx.repo.mod('lmf')
    rh = ctx.repo.func('lmf', '_read_header')
    for fname in ('is_lmf', 'load', 'scan_lexicons'):
        if fname == 'scan_lexicons':
            continue
        f = ctx.repo.func('lmf', fname)
        key = f'header-check-shared:{fname}'
        reach = ctx.cg.reachable([f])
        res.inst(key, lmf.loc(f.node), '_read_header reachable')
        if rh.key not in reach:
            res.find(key, lmf.loc(f.node), f'lmf.{fname} no longer goes through _read_header: is_lmf() and load() can disagree on which '
                                           f'files are WN-LMF')
    from ..speccheck import view
    iv = view(ctx, 'lmf', 'is_lmf')
    key = 'is_lmf-false-on-LMFError'
    res.inst(key, iv.loc(), f'{iv.describe(("return", "call"))[:4]}')
    rets = [r for r in iv.rows if r[0] == 'return']
    false_on_err = [r for r in rets if r[1] == 'False' and '<except LMFError>' in r[2]]
    other_exc = [r for r in iv.rows if any(g.startswith('<except ') and g != '<except LMFError>' for g in r[2])]
    trues = [r for r in rets if r[1] == 'True']
    calls = [r for r in iv.rows if r[0] == 'call' and r[1].startswith('_read_header(')]
    if len(false_on_err) != 1 or other_exc or len(trues) != 1 or not calls or any('<except' in g for g in trues[0][2]):
        res.find(key, iv.loc(), f'is_lmf() is no longer "False exactly when _read_header raises LMFError": {iv.describe(("return", "call"))}')
    if sorted(r[1] for r in rets) != ['False', 'False', 'True']:
        res.find(key + ':returns', iv.loc(), f'is_lmf() returns {sorted(r[1] for r in rets)}')
    # constants
    sup, schemas, doctypes, doctype, xmldecl = (_fold(ctx, n) for n in ('SUPPORTED_VERSIONS', '_SCHEMAS', '_DOCTYPES', '_DOCTYPE', '_XMLDECL'))
    key = 'doctype-table'
    res.inst(key, lmf.relpath, f'{sorted(doctypes.values())}')
    if set(schemas) != set(sup) or set(doctypes.values()) != set(sup):
        res.find(key, lmf.relpath, f'SUPPORTED_VERSIONS {sorted(sup)}, _SCHEMAS {sorted(schemas)} and _DOCTYPES {sorted(doctypes.values())} '
                                   f'do not cover the same versions')
    for v, s in schemas.items():
        if doctypes.get(doctype.format(schema=s)) != v:
            res.find(key + f':{v}', lmf.relpath, f'the DOCTYPE line of version {v} (as dump() prints it) is not accepted as version {v}')
    hv = view(ctx, 'lmf', '_read_header')
    key = 'read-header-shape'
    res.inst(key, hv.loc(), 'compares the declaration with _XMLDECL and looks the DOCTYPE up in _DOCTYPES')
    raises = [r for r in hv.rows if r[0] == 'raise' and r[1].startswith('LMFError(')]
    # the declaration is the first line as read (trailing whitespace removed, quote style normalised) - nothing is removed in
    # front of it: is_lmf() is preceded by the file-signature test is_xml() (`<?xml ` at byte 0), so a header check that
    # tolerates anything before the declaration (a byte-order mark) makes load() accept files is_lmf() / add() reject
    decl_line = "fh.readline().rstrip().replace(b\"'\", b'\"')"
    r_decl = [r for r in raises if any(g == f'{decl_line} != _XMLDECL' for g in r[2])]
    # membership may be spelled `k in _DOCTYPES` or `_DOCTYPES.get(k) is not None` (no value of the table is None)
    none_free = all(v is not None for v in doctypes.values())
    absent = lambda g: g.endswith('not in _DOCTYPES') or (none_free and g.startswith('_DOCTYPES.get(') and g.endswith(') is None'))   # noqa: E731
    present = lambda g: (g.endswith(' in _DOCTYPES') and ' not in ' not in g) \
        or (none_free and g.startswith('_DOCTYPES.get(') and g.endswith(') is not None'))   # noqa: E731
    r_doct = [r for r in raises if any(absent(g) for g in r[2])]
    rets = [r for r in hv.rows if r[0] == 'return']
    ok = len(r_decl) == 1 and len(r_doct) == 1 and len(rets) == 1 and rets[0][1].startswith(('_DOCTYPES[', '_DOCTYPES.get(')) \
        and any(g.endswith('== _XMLDECL') for g in rets[0][2]) and any(present(g) for g in rets[0][2])
    if not ok:
        res.find(key, hv.loc(), f'_read_header no longer rejects a missing/other XML declaration and an unknown DOCTYPE with LMFError and '
                                f'returns the version of the DOCTYPE: {hv.describe(("raise", "return"))}')
    qv = view(ctx, 'lmf', '_quick_scan')
    key = 'load-uses-header-version'
    res.inst(key, qv.loc(), 'version = _read_header(<file>)')
    qr = [r for r in qv.rows if r[0] == 'return']
    if len(qr) != 1 or not qr[0][1].startswith('(_read_header('):
        res.find(key, qv.loc(), f'_quick_scan no longer takes the LMF version from _read_header: {[r[1][:60] for r in qr]}')


def r2_reader_rejects(ctx, res):
    lmf = ctx.repo.mod('lmf')
    start = ctx.repo.func('lmf', '_make_parser.<locals>.start')
    mp = ctx.repo.func('lmf', '_make_parser')
    from ..speccheck import view
    import re as _re
    sv = view(ctx, 'lmf', '_make_parser.<locals>.start')
    K = '_VALID_ELEMS[version].get(name)'
    key = 'start-handler:store-guarded'
    stores = [r for r in sv.rows if r[0] == 'store' and _re.match(r'^(.+)\[' + _re.escape(K) + r'\] = attrs$', r[1])]
    allst = [r for r in sv.rows if r[0] == 'store' and r[1].endswith('] = attrs')]
    res.inst(key, sv.loc(), f'{[(r[1][:50], sorted(r[2])) for r in allst]}')
    if len(allst) != 1:
        res.find(key, sv.loc(), f'expected exactly one store `<parent>[key] = attrs` in the start handler, found {len(allst)}')
    for r in allst:
        m = _re.match(r'^(.+)\[(' + _re.escape(K) + r')\] = attrs$', r[1]) or _re.match(r'^(.+?)\[(.+)\] = attrs$', r[1])
        P, k = m.group(1), m.group(2)
        need = {f'{k} is not None', f'{k} not in {P}'}
        rs = [x for x in sv.rows if x[0] == 'raise' and any(g == f'{k} is None or {k} in {P}' for g in x[2])]
        if not need <= set(r[2]) or not rs:
            res.find(key, sv.loc(r[4]), f'the store `{r[1][:60]}` is not dominated by `key is not None and key not in parent` with a raise on '
                                        f'the other branch (guards {sorted(r[2])}): an element unknown in the declared version, or a repeated '
                                        f'single-valued child, is accepted (the repeat silently overwrites the first)')
    key = 'start-handler:key-from-version-table'
    res.inst(key, sv.loc(), K)
    if not stores:
        res.find(key, sv.loc(), f'element names are no longer looked up in the element table of the declared version ({K}): '
                                f'{[r[1][:60] for r in allst]}')
    key = 'start-handler:list-elems'
    lists = [r for r in sv.rows if r[0] == 'call' and '.setdefault(' in r[1] and r[1].endswith('.append(attrs)')]
    res.inst(key, sv.loc(), f'{[sorted(r[2]) for r in lists]}')
    want = 'name in _LIST_ELEMS & set(_VALID_ELEMS[version])'
    if len(lists) != 1 or want not in lists[0][2] or f'.setdefault({K}, [])' not in lists[0][1]:
        res.find(key, sv.loc(), f'list elements are no longer restricted to the elements valid in the declared version (collected when '
                                f'{[sorted(r[2]) for r in lists]}; expected `{want}`)')
    cd = [r for r in sv.rows if r[0] == 'store' and r[1] == "attrs['text'] = ''"]
    key = 'start-handler:cdata-elems'
    res.inst(key, sv.loc(), f'{[sorted(r[2]) for r in cd]}')
    if len(cd) != 1 or 'name in _CDATA_ELEMS & set(_VALID_ELEMS[version])' not in cd[0][2]:
        res.find(key, sv.loc(), 'text elements are no longer restricted to the elements valid in the declared version')
    key = 'start-handler:unexpected-raises'
    un = ctx.repo.func('lmf', '_unexpected')
    res.inst(key, lmf.loc(un.node), '_unexpected builds an LMFError')
    if 'LMFError' not in norm(un.node):
        res.find(key, lmf.loc(un.node), '_unexpected no longer produces LMFError')
    ld = ctx.repo.func('lmf', 'load')
    key = 'expat-error-converted'
    tries = [n for n in walk_no_nested(ld.node) if isinstance(n, ast.Try)]
    res.inst(key, lmf.loc(ld.node), 'ExpatError -> LMFError around ParseFile')
    ok = any(('.ParseFile(' in norm(ast.Module(body=t.body, type_ignores=[])) or '.Parse(' in norm(ast.Module(body=t.body, type_ignores=[])))
             and any(
        h.type is not None and norm(h.type).endswith('ExpatError') and h.body and isinstance(h.body[-1], ast.Raise)
        and 'LMFError' in norm(h.body[-1]) for h in t.handlers) for t in tries)
    if not ok:
        res.find(key, lmf.loc(ld.node), 'load() no longer converts expat.ExpatError (ill-formed XML) into LMFError')
    key = 'parse-finalised'
    feeds = [n for n in walk_no_nested(ld.node) if isinstance(n, ast.Call) and isinstance(n.func, ast.Attribute)
             and n.func.attr in ('Parse', 'ParseFile')]
    res.inst(key, lmf.loc(ld.node), f'{[norm(c)[:40] for c in feeds]}')
    if not feeds:
        res.find(key, lmf.loc(ld.node), 'load() no longer feeds the file to the expat parser')
    for c in feeds:
        final = c.func.attr == 'ParseFile'
        if c.func.attr == 'Parse':
            a = c.args[1] if len(c.args) > 1 else next((k.value for k in c.keywords if k.arg == 'isfinal'), None)
            final = isinstance(a, ast.Constant) and bool(a.value)
        if not final:
            res.find(key, lmf.loc(c), f'`{norm(c)[:60]}` feeds the parser without marking the end of input (Parse(data) defaults to '
                                      f'isfinal=False): a truncated or unclosed document is accepted and a partial resource is returned / added')
        if not any(any(c is x for x in ast.walk(ast.Module(body=t.body, type_ignores=[]))) for t in tries):
            res.find(key + ':try', lmf.loc(c), 'the parse call is outside the try that converts ExpatError into LMFError')
    # LMFError is a wn.Error
    key = 'lmferror-is-wn-error'
    c = lmf.classes.get('LMFError')
    res.inst(key, lmf.relpath, f'bases {c.bases if c else None}')
    if c is None or 'wn.Error' not in c.bases:
        res.find(key, lmf.relpath, 'LMFError is no longer a subclass of wn.Error')


# model class -> list of (validator function, element expression in the effect summary, key of the list it is taken from or None)
# `$1` is the element of the outer loop over the function's `elems` parameter, `$2` the element of an inner loop over one of
# its lists; no local variable name is involved
VALIDATED_BY = {
    'Lexicon': [('_validate_lexicon', 'elem', None)],
    'LexiconExtension': [('_validate_lexicon', 'elem', None)],
    'Dependency': [('_validate_lexicon', '$1', 'requires'), ('_validate', "elem.get('extends')", None)],
    'LexicalEntry': [('_validate_entries', '$1', 'elems')],
    'ExternalLexicalEntry': [('_validate_entries', '$1', 'elems')],
    'Lemma': [('_validate_entries', "$1.get('lemma')", 'elems'), ('_validate_forms', '$1', 'elems')],
    'Form': [('_validate_forms', '$1', 'elems')],
    'ExternalForm': [('_validate_entries', '$2', 'forms'), ('_validate_forms', '$1', 'elems')],
    'Pronunciation': [('_validate_forms', '$2', 'pronunciations')],
    'Tag': [('_validate_forms', '$2', 'tags')],
    'Sense': [('_validate_senses', '$1', 'elems')],
    'ExternalSense': [('_validate_senses', '$1', 'elems')],
    'Synset': [('_validate_synsets', '$1', 'elems')],
    'ExternalSynset': [('_validate_synsets', '$1', 'elems')],
    'Relation': [('_validate_senses', '$2', 'relations'), ('_validate_synsets', '$2', 'relations')],
    'Example': [('_validate_senses', '$2', 'examples'), ('_validate_synsets', '$2', 'examples')],
    'Count': [('_validate_senses', '$2', 'counts')],
    'Definition': [('_validate_synsets', '$2', 'definitions')],
    'ILIDefinition': [],
    'SyntacticBehaviour': [('_validate_frames', '$1', 'elems')],
}
EACH_SITE = {'Relation', 'Example'}
ELEMENT_OF = {'Relation': ['SenseRelation', 'SynsetRelation'], 'Dependency': ['Requires', 'Extends'], 'Lexicon': ['Lexicon'],
              'LexiconExtension': ['LexiconExtension']}


def _guaranteed(ctx, fname, elem, listkey):
    """keys the validator guarantees on the element: assert 'k' in E / for a in (...): assert a in E / E.setdefault('k') /
    E['k'] = ... / assert E.get('k') - read off the effect summary (no variable names)."""
    import re as _re
    from ..speccheck import view
    v = view(ctx, 'lmf', fname)
    out = set()
    E = _re.escape(elem)

    def in_scope(c):
        if listkey is None:
            return True
        if not c:
            return False
        last = [x for x in c if x.startswith('for ')]
        if not last:
            return False
        lk = last[-1]
        if elem == '$1' or elem.startswith('$1.'):
            return len(last) >= 1 and (last[0] == f'for {listkey}' or f".get('{listkey}'" in last[0]) and (elem != '$1' or True)
        return f".get('{listkey}'" in lk
    for k, t, g, c, e in v.rows:
        if elem.startswith('$2') and len([x for x in c if x.startswith('for ')]) < 2:
            continue
        if elem.startswith('$1') and listkey is not None and len([x for x in c if x.startswith('for ')]) > 1 and elem == '$1':
            # effects about the inner element mention $2; effects about $1 inside an inner loop still count
            pass
        if not in_scope(c):
            continue
        if k == 'assert':
            m = _re.match(r"^'(\w+)' in " + E + '$', t)
            if m:
                out.add(m.group(1))
            if t == f'{elem} is not None':
                out.add('__exists__')
            m = _re.match('^not ' + E + r"\.get\('external'\) or " + E + r"\.get\('(\w+)'\)$", t)
            if m:
                out.add('?' + m.group(1))
            m = _re.match(r'^\$(\d) in ' + E + '$', t)
            if m:
                fors = [x for x in c if x.startswith('for ')]
                idx = int(m.group(1)) - 1
                if idx < len(fors):
                    out |= set(_re.findall(r"'(\w+)'", fors[idx]))
        elif k == 'call':
            m = _re.match('^' + E + r"\.setdefault\('(\w+)'", t)
            if m:
                out.add(m.group(1))
        elif k == 'store':
            m = _re.match('^' + E + r"\['(\w+)'\] = ", t)
            if m:
                out.add(m.group(1))
    return out


def r3_required_attributes(ctx, res):
    model = ctx.model
    lmf = ctx.repo.mod('lmf')
    meta_elems, cdata_elems = _fold(ctx, '_META_ELEMS'), _fold(ctx, '_CDATA_ELEMS')
    n = 0
    for cls, sites in VALIDATED_BY.items():
        if cls not in model.classes:
            raise AnalysisError(f'anchor vanished: lmf.{cls}')
        elements = ELEMENT_OF.get(cls, [cls])
        provided = set()
        if all(e in meta_elems for e in elements):
            provided.add('meta')
        if all(e in cdata_elems for e in elements):
            provided.add('text')
        if cls.startswith('External'):
            provided.add('external')
        req = {k for k, (a, r) in model.classes[cls].items() if r}
        guaranteed = set(provided)
        per_site = []
        for fname, var, lk in sites:
            per_site.append(_guaranteed(ctx, fname, var, lk))
        if cls in EACH_SITE and per_site:
            # the element kind occurs in several places (sense and synset relations, ...): every place must check it
            common = set.intersection(*per_site)
            guaranteed |= common
        else:
            for g in per_site:
                guaranteed |= g
        # Lemma is asserted non-None for non-external entries
        if cls == 'LexicalEntry' and '__exists__' in _guaranteed(ctx, '_validate_entries', "$1.get('lemma')", 'elems'):
            guaranteed.add('lemma')
        if cls == 'LexiconExtension':
            guaranteed.add('extends')   # _validate dispatches on it
        if cls == 'ExternalForm' and '?id' in guaranteed:
            guaranteed.add('id')
        for k in sorted(req):
            n += 1
            key = f'required:{cls}.{k}'
            res.inst(key, lmf.relpath, 'guaranteed by the loader')
            if k not in guaranteed:
                res.find(key, lmf.relpath, f'the model requires {cls}.{k} but neither the parser nor {[s[0] for s in sites] or "any validator"} '
                                           f'guarantees it: load() can return an element without it, and consumers that subscript it '
                                           f'(validate, add, dump) fail with KeyError')
    # the validators are wired: load -> _validate -> _validate_lexicon -> entries/synsets/frames -> forms/senses
    ld = ctx.repo.func('lmf', 'load')
    reach = ctx.cg.reachable([ld])
    for fname in ('_validate', '_validate_lexicon', '_validate_entries', '_validate_forms', '_validate_senses', '_validate_frames',
                  '_validate_synsets'):
        key = f'validator-reached:{fname}'
        res.inst(key, lmf.relpath, 'reachable from load()')
        if f'lmf.{fname}' not in reach:
            res.find(key, lmf.relpath, f'{fname} is no longer reached from load(): its required-attribute checks do not run')
    if n < 40:
        raise AnalysisError(f'only {n} required keys checked')


# ---------------------------------------------------------------------------

def _regexes(f):
    out = {}
    for n in walk_no_nested(f.node):
        if isinstance(n, ast.Assign) and isinstance(n.value, ast.Call) and norm(n.value.func) == 're.compile' and n.value.args:
            v = evaluate(n.value.args[0])
            if isinstance(v, (bytes, str)):
                out[n.targets[0].id if isinstance(n.targets[0], ast.Name) else norm(n.targets[0])] = (v, n)
    return out


def _walk_re(seq):
    import re._constants as rc
    for op, av in seq:
        yield op, av
        if op is rc.SUBPATTERN:
            yield from _walk_re(av[3])
        elif op is rc.BRANCH:
            for b in av[1]:
                yield from _walk_re(b)
        elif op in (rc.MAX_REPEAT, rc.MIN_REPEAT, rc.POSSESSIVE_REPEAT):
            yield from _walk_re(av[2])
        elif op in (rc.ASSERT, rc.ASSERT_NOT):
            yield from _walk_re(av[1])
        elif op is rc.ATOMIC_GROUP:
            yield from _walk_re(av)


def _quote_class(av):
    import re._constants as rc
    lits = {x for o, x in av if o is rc.LITERAL}
    neg = any(o is rc.NEGATE for o, _ in av)
    return lits, neg


def r4_scan_equals_load(ctx, res):
    import re._parser as sp
    import re._constants as rc
    lmf = ctx.repo.mod('lmf')
    f = ctx.repo.func('lmf', 'scan_lexicons')
    rx = _regexes(f)
    attr = [(k, v) for k, v in rx.items() if b'version' in (v[0] if isinstance(v[0], bytes) else v[0].encode())]
    tag = [(k, v) for k, v in rx.items() if b'Lexicon' in (v[0] if isinstance(v[0], bytes) else v[0].encode())]
    if len(attr) != 1 or len(tag) != 1:
        raise AnalysisError('anchor vanished: the two pre-scan regular expressions of scan_lexicons')
    aname, (apat, anode) = attr[0]
    tname, (tpat, tnode) = tag[0]
    # (a) attribute values are delimited by the quote they opened with
    key = 'scan:value-closed-by-opening-quote'
    parsed = sp.parse(apat)
    items = list(_walk_re(parsed))
    both = [av for op, av in items if op is rc.IN and _quote_class(av)[0] >= QUOTES and not _quote_class(av)[1]]
    backrefs = [av for op, av in items if op is rc.GROUPREF]
    excl_both = [av for op, av in items if op is rc.IN and _quote_class(av)[1] and _quote_class(av)[0] >= QUOTES]
    res.inst(key, lmf.loc(anode), f'pattern {apat!r}')
    if len(both) >= 2 or (len(both) == 1 and not backrefs) or excl_both:
        res.find(key, lmf.loc(anode),
                 f'scan_lexicons extracts attribute values with {apat!r}: the value may be closed by either quote character and may not '
                 f"contain the other one, so label=\"Bob's &amp; Co\" is scanned as `Bob` while load() returns the whole label "
                 f'(also for files written by dump())')
    # (a2) the tag is not cut at a `>` inside a quoted value
    key = 'scan:tag-not-cut-inside-quotes'
    tparsed = sp.parse(tpat)
    res.inst(key, lmf.loc(tnode), f'pattern {tpat!r}')
    naive = False
    for op, av in _walk_re(tparsed):
        if op in (rc.MAX_REPEAT, rc.MIN_REPEAT):
            inner = av[2]
            if len(inner) == 1 and inner[0][0] is rc.NOT_LITERAL and inner[0][1] == 62:
                naive = True
            if len(inner) == 1 and inner[0][0] is rc.IN and _quote_class(inner[0][1])[1] and 62 in _quote_class(inner[0][1])[0] \
                    and not (_quote_class(inner[0][1])[0] >= QUOTES):
                naive = True
    if naive:
        res.find(key, lmf.loc(tnode), f'scan_lexicons finds the end of a <Lexicon ...> tag with {tpat!r}: a raw `>` inside an attribute value '
                                      f'(legal XML) truncates the tag and the scan raises KeyError / misses attributes that load() reads')
    # (b) entity decoding before the values are returned
    key = 'scan:values-unescaped'
    res.inst(key, lmf.loc(f.node), 'attribute values pass through an XML entity decoder')
    if not _has_unescape(ctx, f):
        res.find(key, lmf.loc(f.node), 'scan_lexicons returns attribute values as raw bytes decoded to text without expanding XML entity '
                                       'and numeric character references (&amp; &quot; &#9; &#233; - html.unescape does, saxutils.unescape '
                                       'knows only the predefined entities): ids, versions and labels differ from what load() reports, and '
                                       '_precheck looks up the wrong specifier')
    # (b2) markup inside XML comments is not markup: the scan must skip comments
    key = 'scan:comments-skipped'
    consts = [c.value for c in ast.walk(f.node) if isinstance(c, ast.Constant) and isinstance(c.value, (bytes, str))]
    has_comment_pat = any(('<!--' in (c if isinstance(c, str) else c.decode('latin1'))) for c in consts)
    res.inst(key, lmf.loc(f.node), 'a pattern for <!-- ... --> is applied before the tags are matched')
    # ... and a comment may span lines: `.` must match newlines in that pattern (re.S / re.DOTALL / (?s)), or the pattern must not use `.`
    multiline_ok = False
    for c in ast.walk(f.module.tree if not has_comment_pat else f.node):
        if isinstance(c, ast.Call) and norm(c.func) in ('re.compile', 're.sub', 're.finditer') and c.args \
                and isinstance(c.args[0], ast.Constant) and isinstance(c.args[0].value, (bytes, str)):
            pat = c.args[0].value
            ptxt = pat if isinstance(pat, str) else pat.decode('latin1')
            if '<!--' not in ptxt:
                continue
            flags = ' '.join(norm(k.value) for k in c.keywords if k.arg == 'flags') + ' ' + ' '.join(norm(a) for a in c.args[1:2] if norm(c.func) == 're.compile')
            dotall = any(tok in flags.replace('|', ' ').split() for tok in ('re.S', 're.DOTALL', 'S', 'DOTALL')) or '(?s' in ptxt
            uses_any = any(op is rc.ANY for op, _ in _walk_re(sp.parse(pat)))
            multiline_ok = dotall or not uses_any
    if has_comment_pat and not multiline_ok:
        res.find(key, lmf.loc(f.node), 'the pattern that removes XML comments before the pre-scan does not match across lines (`.` without re.S): a '
                                       'commented-out <Extends .../> inside a multi-line comment is still scanned, load() ignores it')
    if not has_comment_pat:
        res.find(key, lmf.loc(f.node), 'scan_lexicons matches <Lexicon>/<Extends> tags inside XML comments: a commented-out '
                                       '<!-- <Extends id=".." version=".."/> --> makes the scan report an extension base that load() does not '
                                       'see, and add() skips the lexicon as "base lexicon not available"')
    # (c) same element kinds as the loader
    key = 'scan:element-kinds'
    names = set()
    for op, av in _walk_re(tparsed):
        if op is rc.BRANCH:
            for b in av[1]:
                if all(o is rc.LITERAL for o, _ in b):
                    names.add(bytes(x for _, x in b).decode())
    res.inst(key, lmf.loc(tnode), f'{sorted(names)}')
    if names != {'Lexicon', 'LexiconExtension', 'Extends'}:
        res.find(key, lmf.loc(tnode), f'scan_lexicons looks at elements {sorted(names)}; the loader builds lexicons from Lexicon, '
                                      f'LexiconExtension and their Extends child')
    src = Frag(f.node)
    key = 'scan:extends-attached-to-last'
    res.inst(key, lmf.loc(f.node), "infos[-1]['extends'] = {...}")
    if "infos[-1]['extends']" not in src or 'infos.append(info)' not in src:
        res.find(key, lmf.loc(f.node), 'scan_lexicons no longer attaches <Extends> to the lexicon that precedes it / appends lexicons in document order')
    # used by add()
    al = ctx.repo.func('_add', '_add_lmf')
    key = 'scan:used-by-add'
    res.inst(key, al.module.loc(al.node), 'infos = lmf.scan_lexicons(source); skipmap = _precheck(infos, progress)')
    s2 = Frag(al.node)
    if 'infos = lmf.scan_lexicons(source)' not in s2 or '_precheck(infos, progress)' not in s2:
        res.find(key, al.module.loc(al.node), '_add_lmf no longer decides what to skip from scan_lexicons + _precheck')


def _decodes_char_refs(f, call):
    """does this `...unescape(...)` call expand numeric character references (&#233; &#x9;) as the XML parser does?  html.unescape
    does; xml.sax.saxutils.unescape only knows &amp; &lt; &gt; and the entities it is given"""
    fn = call.func
    base = fn.value.id if isinstance(fn, ast.Attribute) and isinstance(fn.value, ast.Name) else None
    name = fn.attr if isinstance(fn, ast.Attribute) else (fn.id if isinstance(fn, ast.Name) else '')
    imp = f.module.imports.get(base or name)
    origin = None
    if imp:
        origin = imp[1] if imp[0] in ('mod', 'obj', 'ext', 'extobj') else None
        if len(imp) > 1:
            origin = imp[1]
    if origin is None:
        # fall back to the import statements of the module
        for st in f.module.tree.body:
            if isinstance(st, ast.ImportFrom) and any((a.asname or a.name) == (base or name) for a in st.names):
                origin = st.module
            elif isinstance(st, ast.Import) and any((a.asname or a.name).split('.')[0] == (base or name) for a in st.names):
                origin = base
    return origin is not None and origin.split('.')[0] == 'html'


def _has_unescape(ctx, f, depth=0):
    for n in ast.walk(f.node):
        if isinstance(n, ast.Call):
            nm = norm(n.func).split('.')[-1]
            if 'unescape' in nm and _decodes_char_refs(f, n):
                return True
    # ... or in a module-level helper the function calls (the decoder may live outside the function)
    if depth < 2:
        for call, cal in ctx.cg.callees(f):
            for c in cal:
                if c.module is f.module and c is not f and _has_unescape(ctx, c, depth + 1):
                    return True
    return False


def r5_parse_before_write(ctx, res):
    from .c06 import r4_parse_before_write
    r4_parse_before_write(ctx, res)


def r6_writer_wellformed(ctx, res):
    """every file produced by dump() is accepted: what the writer prints is a constant, an ElementTree serialisation or a
    quoteattr()-quoted value (the analysis of C02-R5, reported here for the acceptance clause), so no stored value can open
    or close markup in the written file."""
    from .c02 import r5_escaping
    r5_escaping(ctx, res)


def r7_dump_writes_only_what_the_version_has(ctx, res):
    """"every file dump() writes is accepted": the writer produces an element / attribute only under the versions the reader's
    tables accept it in - the table and coverage analyses of C02-R1 / C02-R3 (a <Requires> in a 1.0 file is rejected by load)."""
    from .c02 import r1_tables, r3_writer_coverage
    r1_tables(ctx, res)
    r3_writer_coverage(ctx, res)

def r8_the_parser_sees_the_whole_file(ctx, res):
    """what load() accepts is what the XML parser accepts: the expat parser is fed the file from its first byte
    (`ParseFile(open(source, 'rb'))`) - the two header lines _read_header compares after normalising quotes are parsed too, so a
    header that only looks right after that normalisation (mismatched quotes) is still rejected as ill-formed."""
    from ..speccheck import view
    v = view(ctx, 'lmf', 'load')
    key = 'load:parser-fed-the-file'
    feeds = [r for r in v.rows if r[0] in ('call', 'eval') and ('.ParseFile(' in r[1] or '.Parse(' in r[1])]
    res.inst(key, v.loc(), f'{[r[1][-70:] for r in feeds]}')
    ok = len(feeds) == 1 and ".ParseFile(open(Path(source).expanduser(), 'rb'))" in feeds[0][1] \
        and any(c.startswith("with open(Path(source).expanduser(), 'rb')") for c in feeds[0][3])
    if not ok:
        res.find(key, v.loc(), 'load() no longer hands the whole file (opened in binary mode, from its first byte) to the expat parser: '
                               f'{[r[1][-80:] for r in feeds]} - the XML declaration and DOCTYPE are then checked only by _read_header, which '
                               'normalises quotes before comparing')

RULES = [
    ('C20-R1', r1_header, 6),
    ('C20-R2', r2_reader_rejects, 6),
    ('C20-R3', r3_required_attributes, 45),
    ('C20-R4', r4_scan_equals_load, 7),
    ('C20-R5', r5_parse_before_write, 5),
    ('C20-R6', r6_writer_wellformed, 7),
    ('C20-R7', r7_dump_writes_only_what_the_version_has, 100),
    ('C20-R8', r8_the_parser_sees_the_whole_file, 1),
]
