"""C20 — invalid WN-LMF is rejected as a whole; scans agree with full loads."""
from __future__ import annotations
import ast
import re
from ..pat import Frag
from ..src import norm, walk_no_nested, AnalysisError
from ..consts import const, Unknown, evaluate, module_consts
from ..pyutil import parents

META = {
    'title': 'Invalid WN-LMF is rejected as a whole; scans agree with full loads',
    'technique': 'folded header constants, dominance in the expat start handler, model<->validator agreement, regex AST of the pre-scan, missing-decoder taint',
    'explanation': (
        'Decides: R1 is_lmf() and load() share the one header check _read_header, is_lmf is False exactly on LMFError, and the '
        'accepted DOCTYPE table is derived from _SCHEMAS for exactly the supported versions (the constants dump() prints); R2 in '
        'the start-element handler the store parent[key] = attrs is reached only when the element is known in the declared version '
        'and not yet present - the alternative raises LMFError - list elements are _LIST_ELEMS restricted to the version, and '
        'ExpatError is converted to LMFError; R3 every model key that is required is asserted by the _validate_* function of its '
        'element or provided by the parser (meta/text/external) - the basis of C18-R1; R4 scan_lexicons delimits an attribute '
        'value by the quote it opened with, does not end a tag at a `>` inside a quoted value, decodes XML entities before '
        'returning values, and reads the same three element kinds the loader uses; R5 scan, pre-check and parse precede the '
        'transaction (C06-R4).'),
    'decides': ['one header check', 'reader rejects unknown / repeated elements', 'required attributes asserted', 'scan = load on lexicon headers',
                'parse before write'],
    'not_decided': ['element placement (DTD content models)', 'attribute value domains'],
    'assumptions': ['asserts are enabled (python -O is not used to load lexicons)'],
}

QUOTES = {34, 39}


def _fold(ctx, name):
    v = const(ctx.repo, 'lmf', name)
    if isinstance(v, Unknown):
        raise AnalysisError(f'cannot fold lmf.{name}: {v.why}')
    return v


def r1_header(ctx, res):
    lmf = ctx.repo.mod('lmf')
    rh = ctx.repo.func('lmf', '_read_header')
    for fname in ('is_lmf', 'load', 'scan_lexicons'):
        if fname == 'scan_lexicons':
            continue
        f = ctx.repo.func('lmf', fname)
        key = f'header-check-shared:{fname}'
        reach = ctx.cg.reachable([f])
        res.inst(key, lmf.loc(f.node), '_read_header reachable')
        if rh.key not in reach:
            res.find(key, lmf.loc(f.node), f'lmf.{fname} no longer goes through _read_header: is_lmf() and load() can disagree on which '
                                           f'files are WN-LMF')
    il = ctx.repo.func('lmf', 'is_lmf')
    key = 'is_lmf-false-on-LMFError'
    tries = [n for n in walk_no_nested(il.node) if isinstance(n, ast.Try)]
    res.inst(key, lmf.loc(il.node), f'{[norm(h.type) for t in tries for h in t.handlers if h.type]}')
    ok = len(tries) == 1 and len(tries[0].handlers) == 1 and tries[0].handlers[0].type is not None \
        and norm(tries[0].handlers[0].type) == 'LMFError' and norm(tries[0].handlers[0].body[-1]) == 'return False' \
        and any('_read_header' in norm(s) for s in tries[0].body)
    if not ok:
        res.find(key, lmf.loc(il.node), 'is_lmf() is no longer "False exactly when _read_header raises LMFError"')
    rets = [norm(r.value) for r in walk_no_nested(il.node) if isinstance(r, ast.Return) and r.value is not None]
    if sorted(rets) != ['False', 'False', 'True']:
        res.find(key + ':returns', lmf.loc(il.node), f'is_lmf() returns {sorted(rets)}')
    # constants
    sup, schemas, doctypes, doctype, xmldecl = (_fold(ctx, n) for n in ('SUPPORTED_VERSIONS', '_SCHEMAS', '_DOCTYPES', '_DOCTYPE', '_XMLDECL'))
    key = 'doctype-table'
    res.inst(key, lmf.relpath, f'{sorted(doctypes.values())}')
    if set(schemas) != set(sup) or set(doctypes.values()) != set(sup):
        res.find(key, lmf.relpath, f'SUPPORTED_VERSIONS {sorted(sup)}, _SCHEMAS {sorted(schemas)} and _DOCTYPES {sorted(doctypes.values())} '
                                   f'do not cover the same versions')
    for v, s in schemas.items():
        if doctypes.get(doctype.format(schema=s)) != v:
            res.find(key + f':{v}', lmf.relpath, f'the DOCTYPE line of version {v} (as dump() prints it) is not accepted as version {v}')
    src = Frag(rh.node)
    key = 'read-header-shape'
    res.inst(key, lmf.loc(rh.node), 'compares the declaration with _XMLDECL and looks the DOCTYPE up in _DOCTYPES')
    need = ['if xmldecl != _XMLDECL', 'if doctype_decoded not in _DOCTYPES', 'return _DOCTYPES[doctype_decoded]']
    raises = [n for n in walk_no_nested(rh.node) if isinstance(n, ast.Raise) and 'LMFError' in norm(n)]
    if not all(nd in src for nd in need) or len(raises) < 2:
        res.find(key, lmf.loc(rh.node), '_read_header no longer rejects a missing/other XML declaration and an unknown DOCTYPE with LMFError')
    qs = ctx.repo.func('lmf', '_quick_scan')
    key = 'load-uses-header-version'
    res.inst(key, lmf.loc(qs.node), 'version = _read_header(fh)')
    if 'version = _read_header(fh)' not in norm(qs.node):
        res.find(key, lmf.loc(qs.node), '_quick_scan no longer takes the LMF version from _read_header')


def r2_reader_rejects(ctx, res):
    lmf = ctx.repo.mod('lmf')
    start = ctx.repo.func('lmf', '_make_parser.<locals>.start')
    mp = ctx.repo.func('lmf', '_make_parser')
    key = 'start-handler:store-guarded'
    stores = [n for n in walk_no_nested(start.node) if isinstance(n, ast.Assign)
              and any(isinstance(t, ast.Subscript) and norm(t) == 'parent[key]' for t in n.targets)]
    res.inst(key, lmf.loc(start.node), f'{len(stores)} stores parent[key] = ...')
    if len(stores) != 1:
        res.find(key, lmf.loc(start.node), f'expected exactly one store `parent[key] = attrs` in the start handler, found {len(stores)}')
    for st in stores:
        # must be in the else branch of `elif key is None or key in parent: raise`
        guard = None
        for p in parents(st):
            if isinstance(p, ast.If) and any(st is x for x in p.orelse):
                guard = p
                break
            if isinstance(p, ast.If):
                break
        ok = False
        if guard is not None:
            t = guard.test
            parts = sorted(norm(v) for v in t.values) if isinstance(t, ast.BoolOp) and isinstance(t.op, ast.Or) else [norm(t)]
            raises = guard.body and isinstance(guard.body[-1], ast.Raise)
            if parts == ['key in parent', 'key is None'] and raises:
                ok = True
        if not ok:
            res.find(key, lmf.loc(st), 'the store `parent[key] = attrs` is not dominated by `key is not None and key not in parent` with a '
                                       'raise on the other branch: an element unknown in the declared version, or a repeated single-valued '
                                       'child, is accepted (the repeat silently overwrites the first)')
    src = Frag(start.node)
    key = 'start-handler:key-from-version-table'
    res.inst(key, lmf.loc(start.node), 'key = ELEMS.get(name)')
    if 'key = ELEMS.get(name)' not in src or 'ELEMS = _VALID_ELEMS[version]' not in norm(mp.node):
        res.find(key, lmf.loc(start.node), 'element names are no longer looked up in the element table of the declared version')
    key = 'start-handler:list-elems'
    res.inst(key, lmf.loc(mp.node), 'LIST_ELEMS = _LIST_ELEMS & set(ELEMS)')
    if 'LIST_ELEMS = _LIST_ELEMS & set(ELEMS)' not in norm(mp.node) or 'if name in LIST_ELEMS' not in src:
        res.find(key, lmf.loc(mp.node), 'list elements are no longer restricted to the elements valid in the declared version')
    key = 'start-handler:unexpected-raises'
    un = ctx.repo.func('lmf', '_unexpected')
    res.inst(key, lmf.loc(un.node), '_unexpected builds an LMFError')
    if 'LMFError' not in norm(un.node):
        res.find(key, lmf.loc(un.node), '_unexpected no longer produces LMFError')
    ld = ctx.repo.func('lmf', 'load')
    key = 'expat-error-converted'
    tries = [n for n in walk_no_nested(ld.node) if isinstance(n, ast.Try)]
    res.inst(key, lmf.loc(ld.node), 'ExpatError -> LMFError around ParseFile')
    ok = any(('.ParseFile(' in norm(ast.Module(body=t.body, type_ignores=[])) or '.Parse(' in norm(ast.Module(body=t.body, type_ignores=[])))
             and any(
        h.type is not None and norm(h.type).endswith('ExpatError') and h.body and isinstance(h.body[-1], ast.Raise)
        and 'LMFError' in norm(h.body[-1]) for h in t.handlers) for t in tries)
    if not ok:
        res.find(key, lmf.loc(ld.node), 'load() no longer converts expat.ExpatError (ill-formed XML) into LMFError')
    key = 'parse-finalised'
    feeds = [n for n in walk_no_nested(ld.node) if isinstance(n, ast.Call) and isinstance(n.func, ast.Attribute)
             and n.func.attr in ('Parse', 'ParseFile')]
    res.inst(key, lmf.loc(ld.node), f'{[norm(c)[:40] for c in feeds]}')
    if not feeds:
        res.find(key, lmf.loc(ld.node), 'load() no longer feeds the file to the expat parser')
    for c in feeds:
        final = c.func.attr == 'ParseFile'
        if c.func.attr == 'Parse':
            a = c.args[1] if len(c.args) > 1 else next((k.value for k in c.keywords if k.arg == 'isfinal'), None)
            final = isinstance(a, ast.Constant) and bool(a.value)
        if not final:
            res.find(key, lmf.loc(c), f'`{norm(c)[:60]}` feeds the parser without marking the end of input (Parse(data) defaults to '
                                      f'isfinal=False): a truncated or unclosed document is accepted and a partial resource is returned / added')
        if not any(any(c is x for x in ast.walk(ast.Module(body=t.body, type_ignores=[]))) for t in tries):
            res.find(key + ':try', lmf.loc(c), 'the parse call is outside the try that converts ExpatError into LMFError')
    # LMFError is a wn.Error
    key = 'lmferror-is-wn-error'
    c = lmf.classes.get('LMFError')
    res.inst(key, lmf.relpath, f'bases {c.bases if c else None}')
    if c is None or 'wn.Error' not in c.bases:
        res.find(key, lmf.relpath, 'LMFError is no longer a subclass of wn.Error')


# model class -> list of (validator function, variable that holds the element)
VALIDATED_BY = {
    'Lexicon': [('_validate_lexicon', 'elem')],
    'LexiconExtension': [('_validate_lexicon', 'elem')],
    'Dependency': [('_validate_lexicon', 'dep'), ('_validate', 'ext')],
    'LexicalEntry': [('_validate_entries', 'elem')],
    'ExternalLexicalEntry': [('_validate_entries', 'elem')],
    'Lemma': [('_validate_entries', 'lemma'), ('_validate_forms', 'elem')],
    'Form': [('_validate_forms', 'elem')],
    'ExternalForm': [('_validate_entries', 'form'), ('_validate_forms', 'elem')],
    'Pronunciation': [('_validate_forms', 'pron')],
    'Tag': [('_validate_forms', 'tag')],
    'Sense': [('_validate_senses', 'elem')],
    'ExternalSense': [('_validate_senses', 'elem')],
    'Synset': [('_validate_synsets', 'elem')],
    'ExternalSynset': [('_validate_synsets', 'elem')],
    'Relation': [('_validate_senses', 'rel'), ('_validate_synsets', 'rel')],
    'Example': [('_validate_senses', 'ex'), ('_validate_synsets', 'ex')],
    'Count': [('_validate_senses', 'cnt')],
    'Definition': [('_validate_synsets', 'defn')],
    'ILIDefinition': [],
    'SyntacticBehaviour': [('_validate_frames', 'elem')],
}
EACH_SITE = {'Relation', 'Example'}
ELEMENT_OF = {'Relation': ['SenseRelation', 'SynsetRelation'], 'Dependency': ['Requires', 'Extends'], 'Lexicon': ['Lexicon'],
              'LexiconExtension': ['LexiconExtension']}


def _guaranteed(f, var):
    """keys the function guarantees on `var`: assert 'k' in var / for a in (...): assert a in var / var.setdefault('k') /
    var['k'] = ... / assert var.get('k')."""
    out = set()
    for n in walk_no_nested(f.node):
        if isinstance(n, ast.Assert):
            for c in ast.walk(n.test):
                if isinstance(c, ast.Compare) and len(c.ops) == 1 and isinstance(c.ops[0], ast.In) and norm(c.comparators[0]) == var:
                    if isinstance(c.left, ast.Constant):
                        out.add(c.left.value)
                    elif isinstance(c.left, ast.Name):
                        for p in parents(n):
                            if isinstance(p, ast.For) and norm(p.target) == c.left.id and isinstance(p.iter, (ast.Tuple, ast.List)):
                                out |= {e.value for e in p.iter.elts if isinstance(e, ast.Constant)}
                if isinstance(c, ast.Call) and isinstance(c.func, ast.Attribute) and c.func.attr == 'get' and norm(c.func.value) == var \
                        and c.args and isinstance(c.args[0], ast.Constant) and isinstance(n.test, ast.BoolOp) and isinstance(n.test.op, ast.Or) \
                        and n.test.values[-1] is c:
                    out.add('?' + c.args[0].value)   # conditional (assert not external or id)
            if isinstance(n.test, ast.Compare) and isinstance(n.test.ops[0], ast.IsNot) and norm(n.test.left) == var:
                out.add('__exists__')
        if isinstance(n, ast.Call) and isinstance(n.func, ast.Attribute) and n.func.attr == 'setdefault' and norm(n.func.value) == var \
                and n.args and isinstance(n.args[0], ast.Constant):
            out.add(n.args[0].value)
        if isinstance(n, ast.Assign):
            for t in n.targets:
                if isinstance(t, ast.Subscript) and norm(t.value) == var and isinstance(t.slice, ast.Constant):
                    # cnt['value'] = int(cnt.pop('text')) is preceded by assert 'text' in cnt
                    out.add(t.slice.value)
    return out


def r3_required_attributes(ctx, res):
    model = ctx.model
    lmf = ctx.repo.mod('lmf')
    meta_elems, cdata_elems = _fold(ctx, '_META_ELEMS'), _fold(ctx, '_CDATA_ELEMS')
    n = 0
    for cls, sites in VALIDATED_BY.items():
        if cls not in model.classes:
            raise AnalysisError(f'anchor vanished: lmf.{cls}')
        elements = ELEMENT_OF.get(cls, [cls])
        provided = set()
        if all(e in meta_elems for e in elements):
            provided.add('meta')
        if all(e in cdata_elems for e in elements):
            provided.add('text')
        if cls.startswith('External'):
            provided.add('external')
        req = {k for k, (a, r) in model.classes[cls].items() if r}
        guaranteed = set(provided)
        per_site = []
        for fname, var in sites:
            f = ctx.repo.func('lmf', fname)
            per_site.append(_guaranteed(f, var))
        if cls in EACH_SITE and per_site:
            # the element kind occurs in several places (sense and synset relations, ...): every place must check it
            common = set.intersection(*per_site)
            guaranteed |= common
        else:
            for g in per_site:
                guaranteed |= g
        # Lemma is asserted non-None for non-external entries
        if cls == 'LexicalEntry' and '__exists__' in _guaranteed(ctx.repo.func('lmf', '_validate_entries'), 'lemma'):
            guaranteed.add('lemma')
        if cls == 'LexiconExtension':
            guaranteed.add('extends')   # _validate dispatches on it
        if cls == 'ExternalForm' and '?id' in guaranteed:
            guaranteed.add('id')
        for k in sorted(req):
            n += 1
            key = f'required:{cls}.{k}'
            res.inst(key, lmf.relpath, 'guaranteed by the loader')
            if k not in guaranteed:
                res.find(key, lmf.relpath, f'the model requires {cls}.{k} but neither the parser nor {[s[0] for s in sites] or "any validator"} '
                                           f'guarantees it: load() can return an element without it, and consumers that subscript it '
                                           f'(validate, add, dump) fail with KeyError')
    # the validators are wired: load -> _validate -> _validate_lexicon -> entries/synsets/frames -> forms/senses
    ld = ctx.repo.func('lmf', 'load')
    reach = ctx.cg.reachable([ld])
    for fname in ('_validate', '_validate_lexicon', '_validate_entries', '_validate_forms', '_validate_senses', '_validate_frames',
                  '_validate_synsets'):
        key = f'validator-reached:{fname}'
        res.inst(key, lmf.relpath, 'reachable from load()')
        if f'lmf.{fname}' not in reach:
            res.find(key, lmf.relpath, f'{fname} is no longer reached from load(): its required-attribute checks do not run')
    if n < 40:
        raise AnalysisError(f'only {n} required keys checked')


# ---------------------------------------------------------------------------

def _regexes(f):
    out = {}
    for n in walk_no_nested(f.node):
        if isinstance(n, ast.Assign) and isinstance(n.value, ast.Call) and norm(n.value.func) == 're.compile' and n.value.args:
            v = evaluate(n.value.args[0])
            if isinstance(v, (bytes, str)):
                out[n.targets[0].id if isinstance(n.targets[0], ast.Name) else norm(n.targets[0])] = (v, n)
    return out


def _walk_re(seq):
    import re._constants as rc
    for op, av in seq:
        yield op, av
        if op is rc.SUBPATTERN:
            yield from _walk_re(av[3])
        elif op is rc.BRANCH:
            for b in av[1]:
                yield from _walk_re(b)
        elif op in (rc.MAX_REPEAT, rc.MIN_REPEAT, rc.POSSESSIVE_REPEAT):
            yield from _walk_re(av[2])
        elif op in (rc.ASSERT, rc.ASSERT_NOT):
            yield from _walk_re(av[1])
        elif op is rc.ATOMIC_GROUP:
            yield from _walk_re(av)


def _quote_class(av):
    import re._constants as rc
    lits = {x for o, x in av if o is rc.LITERAL}
    neg = any(o is rc.NEGATE for o, _ in av)
    return lits, neg


def r4_scan_equals_load(ctx, res):
    import re._parser as sp
    import re._constants as rc
    lmf = ctx.repo.mod('lmf')
    f = ctx.repo.func('lmf', 'scan_lexicons')
    rx = _regexes(f)
    attr = [(k, v) for k, v in rx.items() if b'version' in (v[0] if isinstance(v[0], bytes) else v[0].encode())]
    tag = [(k, v) for k, v in rx.items() if b'Lexicon' in (v[0] if isinstance(v[0], bytes) else v[0].encode())]
    if len(attr) != 1 or len(tag) != 1:
        raise AnalysisError('anchor vanished: the two pre-scan regular expressions of scan_lexicons')
    aname, (apat, anode) = attr[0]
    tname, (tpat, tnode) = tag[0]
    # (a) attribute values are delimited by the quote they opened with
    key = 'scan:value-closed-by-opening-quote'
    parsed = sp.parse(apat)
    items = list(_walk_re(parsed))
    both = [av for op, av in items if op is rc.IN and _quote_class(av)[0] >= QUOTES and not _quote_class(av)[1]]
    backrefs = [av for op, av in items if op is rc.GROUPREF]
    excl_both = [av for op, av in items if op is rc.IN and _quote_class(av)[1] and _quote_class(av)[0] >= QUOTES]
    res.inst(key, lmf.loc(anode), f'pattern {apat!r}')
    if len(both) >= 2 or (len(both) == 1 and not backrefs) or excl_both:
        res.find(key, lmf.loc(anode),
                 f'scan_lexicons extracts attribute values with {apat!r}: the value may be closed by either quote character and may not '
                 f"contain the other one, so label=\"Bob's &amp; Co\" is scanned as `Bob` while load() returns the whole label "
                 f'(also for files written by dump())')
    # (a2) the tag is not cut at a `>` inside a quoted value
    key = 'scan:tag-not-cut-inside-quotes'
    tparsed = sp.parse(tpat)
    res.inst(key, lmf.loc(tnode), f'pattern {tpat!r}')
    naive = False
    for op, av in _walk_re(tparsed):
        if op in (rc.MAX_REPEAT, rc.MIN_REPEAT):
            inner = av[2]
            if len(inner) == 1 and inner[0][0] is rc.NOT_LITERAL and inner[0][1] == 62:
                naive = True
            if len(inner) == 1 and inner[0][0] is rc.IN and _quote_class(inner[0][1])[1] and 62 in _quote_class(inner[0][1])[0] \
                    and not (_quote_class(inner[0][1])[0] >= QUOTES):
                naive = True
    if naive:
        res.find(key, lmf.loc(tnode), f'scan_lexicons finds the end of a <Lexicon ...> tag with {tpat!r}: a raw `>` inside an attribute value '
                                      f'(legal XML) truncates the tag and the scan raises KeyError / misses attributes that load() reads')
    # (b) entity decoding before the values are returned
    key = 'scan:values-unescaped'
    res.inst(key, lmf.loc(f.node), 'attribute values pass through an XML entity decoder')
    if not _has_unescape(ctx, f):
        res.find(key, lmf.loc(f.node), 'scan_lexicons returns attribute values as raw bytes decoded to text without expanding XML entity '
                                       'references (&amp; &quot; &#9; ...): ids, versions and labels differ from what load() reports, and '
                                       '_precheck looks up the wrong specifier')
    # (b2) markup inside XML comments is not markup: the scan must skip comments
    key = 'scan:comments-skipped'
    consts = [c.value for c in ast.walk(f.node) if isinstance(c, ast.Constant) and isinstance(c.value, (bytes, str))]
    has_comment_pat = any(('<!--' in (c if isinstance(c, str) else c.decode('latin1'))) for c in consts)
    res.inst(key, lmf.loc(f.node), 'a pattern for <!-- ... --> is applied before the tags are matched')
    if not has_comment_pat:
        res.find(key, lmf.loc(f.node), 'scan_lexicons matches <Lexicon>/<Extends> tags inside XML comments: a commented-out '
                                       '<!-- <Extends id=".." version=".."/> --> makes the scan report an extension base that load() does not '
                                       'see, and add() skips the lexicon as "base lexicon not available"')
    # (c) same element kinds as the loader
    key = 'scan:element-kinds'
    names = set()
    for op, av in _walk_re(tparsed):
        if op is rc.BRANCH:
            for b in av[1]:
                if all(o is rc.LITERAL for o, _ in b):
                    names.add(bytes(x for _, x in b).decode())
    res.inst(key, lmf.loc(tnode), f'{sorted(names)}')
    if names != {'Lexicon', 'LexiconExtension', 'Extends'}:
        res.find(key, lmf.loc(tnode), f'scan_lexicons looks at elements {sorted(names)}; the loader builds lexicons from Lexicon, '
                                      f'LexiconExtension and their Extends child')
    src = Frag(f.node)
    key = 'scan:extends-attached-to-last'
    res.inst(key, lmf.loc(f.node), "infos[-1]['extends'] = {...}")
    if "infos[-1]['extends']" not in src or 'infos.append(info)' not in src:
        res.find(key, lmf.loc(f.node), 'scan_lexicons no longer attaches <Extends> to the lexicon that precedes it / appends lexicons in document order')
    # used by add()
    al = ctx.repo.func('_add', '_add_lmf')
    key = 'scan:used-by-add'
    res.inst(key, al.module.loc(al.node), 'infos = lmf.scan_lexicons(source); skipmap = _precheck(infos, progress)')
    s2 = Frag(al.node)
    if 'infos = lmf.scan_lexicons(source)' not in s2 or '_precheck(infos, progress)' not in s2:
        res.find(key, al.module.loc(al.node), '_add_lmf no longer decides what to skip from scan_lexicons + _precheck')


def _has_unescape(ctx, f, depth=0):
    for n in ast.walk(f.node):
        if isinstance(n, ast.Call):
            nm = norm(n.func).split('.')[-1]
            if 'unescape' in nm:
                return True
    return False


def r5_parse_before_write(ctx, res):
    from .c06 import r4_parse_before_write
    r4_parse_before_write(ctx, res)


RULES = [
    ('C20-R1', r1_header, 6),
    ('C20-R2', r2_reader_rejects, 6),
    ('C20-R3', r3_required_attributes, 45),
    ('C20-R4', r4_scan_equals_load, 7),
    ('C20-R5', r5_parse_before_write, 5),
]
