"""C19 — loading an ILI index only updates ILI status and definitions."""
from __future__ import annotations
import ast
from ..src import norm, walk_no_nested, AnalysisError
from ..txn import write_sites, connection_withs, lexically_inside
from ..rowshape import insert_bindings
from ..pyutil import resolve_value

META = {
    'title': 'Loading an ILI index only updates ILI status and definitions',
    'technique': 'write-set of the call-graph closure of _add_ili; shape of the upsert; who-writes-ilis over all SQL sites; name-free source descriptors of the bound rows; field-splitting idiom of _ili.load',
    'explanation': (
        'Write-set argument over the program text, valid for every ILI file and every interleaving: R1 the '
        'statements reachable from _add_ili write only ili_statuses (INSERT OR IGNORE) and ilis; R2 the ilis '
        'statement is an upsert ON CONFLICT(id) DO UPDATE whose SET list is exactly {status_rowid, definition} '
        'fed from excluded.*, ilis.id is UNIQUE, and the row binds (ili, status default active, definition); '
        'rowids - hence every synsets.ili_rowid - and metadata survive; R3 no other statement in wn/ deletes, '
        'replaces or updates ilis, lexicon import inserts presupposed ILIs with INSERT OR IGNORE and links synsets '
        'by ILI id, so the order of index and lexicons cannot change status/definition; R4 the load is one '
        'transaction; R5 _ili.load lower-cases the header fields the importer reads. R6 also: records are the lines of file iteration, never str.splitlines(). R7 a record of _ili.load is dict(zip(header fields, cells of the line)) - no padding - because _add_ili supplies status \'active\' and a NULL definition by ABSENCE of the key (two sites that must agree). R8 a compressed index is read completely (C07-R9). R9 index content stays out of the exported lexicon: exporter reads are lexicon-scoped (C03-R3/R4).'),
    'decides': ['write set of the ILI loader', 'upsert shape', 'OR IGNORE for presupposed ILIs', 'single transaction',
                'header case folding'],
    'not_decided': ['idempotence as observed values (follows from the upsert shape given SQLite semantics)'],
    'assumptions': ['SQLite upsert semantics: DO UPDATE leaves unlisted columns and the rowid unchanged'],
}


def r1_write_set(ctx, res):
    ai = ctx.repo.func('_add', '_add_ili')
    reach = ctx.cg.reachable([ai], stop=[ctx.repo.func('_db', 'connect')])
    ws = [s for s in write_sites(ctx) if s.func.key in reach]
    if not ws:
        raise AnalysisError('no write reachable from _add_ili')
    tables = set()
    for s in ws:
        for v in s.variants:
            if v.stmt is None or not v.stmt.is_write:
                continue
            key = f'ili-write:{s.func.key}:{v.stmt.verb} {v.stmt.target}'
            res.inst(key, s.loc, f'{v.stmt.verb} {v.stmt.or_clause or ""} {v.stmt.target}')
            tables.add(v.stmt.target)
            if v.stmt.target not in ('ilis', 'ili_statuses'):
                res.find(key, s.loc, f'loading an ILI file writes table {v.stmt.target}: it must change only ILI status and '
                                     f'definitions')
            if v.stmt.verb != 'INSERT':
                res.find(key, s.loc, f'{v.stmt.verb} on {v.stmt.target} while loading an ILI file')
            if v.stmt.target == 'ili_statuses' and v.stmt.or_clause != 'IGNORE':
                res.find(key, s.loc, 'status names must be added with INSERT OR IGNORE (a plain INSERT fails on the second '
                                     'load; OR REPLACE changes status rowids that ilis rows refer to)')
        if s.unresolved:
            res.find(f'ili-write:{s.func.key}:unresolved', s.loc, f'unresolvable statement in the ILI loader: {s.unresolved}')
    res.inst('ili-write-set', ai.module.loc(ai.node), f'tables written: {sorted(tables)}')
    if 'ilis' not in tables:
        res.find('ili-write-set', ai.module.loc(ai.node), '_add_ili no longer writes ilis')


def r2_upsert_shape(ctx, res):
    ai = ctx.repo.func('_add', '_add_ili')
    sc = ctx.schema
    key = 'ilis-id-unique'
    res.inst(key, 'wn/schema.sql', 'UNIQUE(id) on ilis')
    if ('id',) not in sc.uniques.get('ilis', []):
        res.find(key, 'wn/schema.sql', 'ilis.id is not UNIQUE: the upsert cannot find the existing ILI, duplicates are created')
    found = False
    for b in insert_bindings(ctx):
        if b.func.key != ai.key or b.table != 'ilis':
            continue
        found = True
        st = b.variant.stmt
        key = 'ilis-upsert'
        res.inst(key, b.site.loc, ' '.join(st.text.split())[:160])
        oc = st.on_conflict()
        if st.or_clause is not None:
            res.find(key, b.site.loc, f'INSERT OR {st.or_clause} INTO ilis: REPLACE deletes the old row (new rowid, synsets lose '
                                      f'their ILI, metadata lost); IGNORE never updates status/definition')
        if oc is None:
            res.find(key, b.site.loc, 'the ilis statement has no ON CONFLICT clause: listed ILIs that already exist are not updated '
                                      '(or the load fails on the UNIQUE constraint)')
        else:
            tcols, action, setcols = oc
            if tcols != ['id']:
                res.find(key, b.site.loc, f'ON CONFLICT target is {tcols}, expected (id)')
            if action != 'UPDATE':
                res.find(key, b.site.loc, f'ON CONFLICT ... DO {action}: presupposed ILIs are not turned authoritative')
            elif sorted(setcols) != ['definition', 'status_rowid']:
                res.find(key, b.site.loc, f'the upsert updates columns {sorted(setcols)}; the property allows exactly '
                                          f'status_rowid and definition (rowid, id and metadata must survive)')
            else:
                txt = ' '.join(st.text.split()).replace(' ', '').lower()
                for c in ('status_rowid', 'definition'):
                    if f'{c}=excluded.{c}' not in txt:
                        res.find(key, b.site.loc, f'SET {c} is not taken from excluded.{c}')
                # the update is unconditional: a WHERE on DO UPDATE leaves listed ILIs untouched whenever its condition is not
                # true - in particular NULL (`definition != excluded.definition` with a NULL on either side)
                low = ' '.join(st.text.split()).lower()
                tail = low[low.index('do update'):] if 'do update' in low else ''
                if ' where ' in ' ' + tail + ' ':
                    res.find(key, b.site.loc, 'the DO UPDATE of the ilis upsert carries a WHERE clause: listed ILIs for which the condition is '
                                              'false or NULL keep their old status / definition')
        # row binding (name-free source descriptors of the binding machinery of C01)
        from .c01 import computed_bindings
        cb = computed_bindings(ctx)
        ROW = 'each(list(expr:_ili.load(source)))'
        want = {'id': ('INSERT ON CONFLICT', f'{ROW}.ili'),
                'status_rowid': ('INSERT ON CONFLICT', 'ili_statuses', f"{ROW}.status?='active'"),
                'definition': ('INSERT ON CONFLICT', f'{ROW}.definition?')}
        for sl in b.slots:
            k2 = f'ilis-bind:{sl.column}'
            if sl.column in want:
                got = sorted(a for a in cb.get(('ilis', sl.column), []) if a[0] == 'INSERT ON CONFLICT')
                res.inst(k2, b.site.loc, f'{sl.column} <- {got}')
                if got != [want[sl.column]]:
                    res.find(k2, b.site.loc, f'ilis.{sl.column} is bound to {got}; expected {want[sl.column]} (the row of the index file)')
                if sl.column == 'status_rowid' and (sl.kind != 'subselect' or sl.sub_table != 'ili_statuses'):
                    res.find(k2, b.site.loc, 'status is not resolved through the ili_statuses lookup table')
            elif sl.column == 'rowid':
                res.inst(k2, b.site.loc, 'rowid <- null (autoincrement)')
                if sl.kind != 'null':
                    res.find(k2, b.site.loc, f'ilis.rowid is bound to `{sl.text}`')
            elif sl.column == 'metadata':
                res.inst(k2, b.site.loc, f'metadata <- {sl.text}')
        for pr in b.problems:
            res.find('ilis-bind:shape', b.site.loc, pr)
    if not found:
        raise AnalysisError('anchor vanished: INSERT INTO ilis in _add_ili')
    # statuses inserted are exactly the statuses referenced by the rows (same default)
    key = 'ili-status-default'
    res.inst(key, ai.module.loc(ai.node), "status default 'active' used for both the lookup insert and the row")
    from .c01 import computed_bindings
    cb2 = computed_bindings(ctx)
    st_ins = {a[-1] for a in cb2.get(('ili_statuses', 'status'), []) if a[0] == 'INSERT OR IGNORE'}
    st_row = {a[-1] for a in cb2.get(('ilis', 'status_rowid'), []) if a[0] == 'INSERT ON CONFLICT'}
    defaults = sorted(st_ins | st_row)
    if st_ins != st_row or len(st_ins) != 1 or not next(iter(st_ins)).endswith(".status?='active'"):
        res.find(key, ai.module.loc(ai.node), f'status defaults differ between the ili_statuses insert and the ilis rows: {sorted(defaults)}')


def r3_no_other_ilis_writer(ctx, res):
    ai = ctx.repo.func('_add', '_add_ili')
    n = 0
    for s in ctx.sites:
        for v in s.variants:
            if v.stmt is None or not v.stmt.is_write or v.stmt.target not in ('ilis', 'ili_statuses'):
                continue
            n += 1
            key = f'ilis-writer:{s.func.key}:{v.stmt.verb} {v.stmt.or_clause or ""} {v.stmt.target}'
            res.inst(key, s.loc, 'writer of the ILI inventory')
            if s.func.key == ai.key or s.func.key == '_db._init_db':
                continue
            if v.stmt.verb != 'INSERT' or v.stmt.or_clause != 'IGNORE':
                res.find(key, s.loc, f'{s.func.qualname} writes {v.stmt.target} with {v.stmt.verb} {v.stmt.or_clause or ""}: lexicon import '
                                     f'must add presupposed ILIs with INSERT OR IGNORE so an index loaded earlier keeps its status and definition')
    if n < 3:
        raise AnalysisError(f'only {n} writers of ilis / ili_statuses found')
    # synsets are linked by ILI id (sub-select on ilis.id), not by position
    for b in insert_bindings(ctx):
        if b.table == 'synsets':
            for sl in b.slots:
                if sl.column == 'ili_rowid':
                    key = 'synsets-ili-by-id'
                    res.inst(key, b.site.loc, sl.text)
                    if sl.kind != 'subselect' or sl.sub_table != 'ilis' or 'id=?' not in sl.text.replace(' ', ''):
                        res.find(key, b.site.loc, f'synsets.ili_rowid is bound through `{sl.text}` instead of a lookup of ilis by id')
        if b.table == 'ilis' and b.func.name == '_insert_synsets':
            for sl in b.slots:
                if sl.column == 'status_rowid':
                    key = 'presupposed-status'
                    got = [norm(e) for e in sl.exprs]
                    res.inst(key, b.site.loc, f'{got}')
                    if got != ["'presupposed'"]:
                        res.find(key, b.site.loc, f'ILIs introduced by a lexicon get status {got}, expected the constant presupposed')


def r4_one_transaction(ctx, res):
    ai = ctx.repo.func('_add', '_add_ili')
    ws = connection_withs(ai)
    key = 'ili-one-transaction'
    res.inst(key, ai.module.loc(ai.node), 'all DML of _add_ili inside one `with connect()`')
    execs = [n for n in walk_no_nested(ai.node) if isinstance(n, ast.Call) and isinstance(n.func, ast.Attribute)
             and n.func.attr in ('execute', 'executemany', 'executescript')]
    if len(ws) != 1:
        res.find(key, ai.module.loc(ai.node), f'_add_ili has {len(ws)} connection blocks, expected exactly one transaction')
    for e in execs:
        if not any(lexically_inside(e, w) for w in ws):
            res.find(key, ai.module.loc(e), 'a statement of the ILI loader runs outside the transaction block')
    for n in walk_no_nested(ai.node):
        if isinstance(n, ast.Call) and isinstance(n.func, ast.Attribute) and n.func.attr in ('commit', 'rollback', 'executescript'):
            res.find(key + ':commit', ai.module.loc(n), f'commit point `{norm(n)[:40]}` inside the ILI load')
    for w in ws:
        from ..pyutil import parents
        for p in parents(w):
            if isinstance(p, (ast.For, ast.While)):
                res.find(key + ':loop', ai.module.loc(w), 'the transaction block of _add_ili is inside a loop (one commit per batch)')


def r5_header(ctx, res):
    ld = ctx.repo.func('_ili', 'load')
    key = 'ili-header-lowercased'
    res.inst(key, ld.module.loc(ld.node), 'header fields are lower-cased before use as keys')
    ok = False
    for n in walk_no_nested(ld.node):
        if isinstance(n, ast.Call):
            t = norm(n)
            if 'str.lower' in t or '.lower()' in t:
                ok = True
    if not ok:
        res.find(key, ld.module.loc(ld.node), "_ili.load does not lower-case the header: a file with header 'ILI\\tStatus' yields "
                                              "keys the importer never reads (KeyError / defaults)")
    ii = ctx.repo.func('_ili', 'is_ili')
    key = 'is_ili-accepts-both-cases'
    res.inst(key, ii.module.loc(ii.node), "first header field in (b'ili', b'ILI')")
    consts = {c.value for c in ast.walk(ii.node) if isinstance(c, ast.Constant) and isinstance(c.value, bytes)}
    if not {b'ili', b'ILI'} <= consts:
        res.find(key, ii.module.loc(ii.node), f'is_ili recognises header spellings {sorted(consts)}')


def r6_tab_separated_only(ctx, res):
    """a line of the ILI file is split at tab characters and nowhere else; nothing inside a field is interpreted (quotes are
    ordinary characters: definitions routinely start with one).  Accepted idioms: `<line>.split('\\t')`, or the csv module
    with delimiter='\\t' and quoting=csv.QUOTE_NONE."""
    ld = ctx.repo.func('_ili', 'load')
    loc = ld.module.loc(ld.node)
    key = 'ili-fields-split-on-tab'
    splits = [n for n in walk_no_nested(ld.node) if isinstance(n, ast.Call) and isinstance(n.func, ast.Attribute) and n.func.attr == 'split']
    csvs = [n for n in walk_no_nested(ld.node) if isinstance(n, ast.Call) and norm(n.func).split('.')[-1] in ('reader', 'DictReader')]
    res.inst(key, loc, f'{len(splits)} split calls, {len(csvs)} csv readers')
    for c in csvs:
        kw = {k.arg: norm(k.value) for k in c.keywords}
        if kw.get('delimiter') not in ("'\\t'", '"\\t"') or not kw.get('quoting', '').endswith('QUOTE_NONE'):
            res.find(key, ld.module.loc(c), f'_ili.load reads the file with `{norm(c)[:80]}`: without delimiter=\'\\t\' and quoting=csv.QUOTE_NONE the '
                                            f'csv dialect interprets double quotes, so a definition that starts with a quote loses it or '
                                            f'swallows the following lines (their ILIs are never created)')
    for sp in splits:
        args = [norm(a) for a in sp.args]
        if args[:1] not in (["'\\t'"], ['"\\t"']) or len(sp.args) > 1 or sp.keywords:
            res.find(key, ld.module.loc(sp), f'_ili.load splits with `{norm(sp)[:60]}`; fields are separated by single tab characters only')
    if not splits and not csvs:
        res.find(key, loc, '_ili.load no longer splits lines at tab characters with one of the recognised idioms')
    # line ends: only the line terminator is removed (a trailing tab = empty last field must survive)
    key = 'ili-line-end-only'
    strips = [n for n in walk_no_nested(ld.node) if isinstance(n, ast.Call) and isinstance(n.func, ast.Attribute) and n.func.attr in ('strip', 'rstrip', 'lstrip')]
    res.inst(key, loc, f'{[norm(x)[-18:] for x in strips]}')
    for st in strips:
        a = [norm(x) for x in st.args]
        if st.func.attr != 'rstrip' or a not in (["'\\r\\n'"], ["'\\n'"], ['"\\r\\n"'], ['"\\n"'], ["'\\n\\r'"]):
            res.find(key, ld.module.loc(st), f'_ili.load strips with `{norm(st)[-40:]}`: removing more than the line terminator drops an empty '
                                             f'trailing definition field (or leading whitespace of the ILI id)')
    # records: one per line of the file as text-file iteration delimits it (\n, \r\n, \r); str.splitlines() also breaks at
    # \x0b \x0c \x1c-\x1e \x85 \u2028 \u2029, which may occur inside a definition
    key = 'ili-records-are-file-lines'
    sl = [n for n in walk_no_nested(ld.node) if isinstance(n, ast.Call) and isinstance(n.func, ast.Attribute) and n.func.attr == 'splitlines']
    res.inst(key, loc, f'{len(sl)} splitlines() calls')
    for n_ in sl:
        res.find(key, ld.module.loc(n_), '_ili.load delimits records with str.splitlines(): it breaks at U+000B, U+000C, U+001C-1E, U+0085, U+2028 and '
                                         'U+2029 as well, so a definition containing one of them is cut and its tail becomes a spurious ILI')


def r7_records_hold_the_cells_of_the_line(ctx, res):
    """two sites that must agree: the importer supplies what a row leaves out by *absence* - `info.get('status', 'active')`,
    `info.get('definition')` (NULL) in _add_ili - so a record of _ili.load has a key only for a cell the line really has:
    dict(zip(header fields, cells of the line)), zip() stopping at the shorter.  Padding short rows (zip_longest, `cells + ['']
    * k`) turns "no status given" into status '' and "no definition" into the definition ''."""
    import re
    from ..speccheck import view
    v = view(ctx, '_ili', 'load')
    ys = [r for r in v.rows if r[0] in ('yield', 'yield-from')]
    key = 'ili-record-is-zip-of-header-and-cells'
    res.inst(key, v.loc(), f'{[r[1][:70] for r in ys]}')
    if not ys:
        res.find(key, v.loc(), '_ili.load yields nothing')
    for k, t, g, c, e in ys:
        ok = False
        try:
            node = ast.parse(re.sub(r'\$(\d+)', r'_loop_\1', re.sub(r'#(\d+)', r'_cell_\1', t)), mode='eval').body
        except SyntaxError:
            node = None
        z = None
        if isinstance(node, ast.Call) and isinstance(node.func, ast.Name) and node.func.id == 'dict' and len(node.args) == 1 and not node.keywords:
            z = node.args[0]
        elif isinstance(node, ast.DictComp) and len(node.generators) == 1 and isinstance(node.generators[0].target, ast.Tuple) \
                and len(node.generators[0].target.elts) == 2 and not node.generators[0].ifs \
                and norm(node.key) == norm(node.generators[0].target.elts[0]) and norm(node.value) == norm(node.generators[0].target.elts[1]):
            z = node.generators[0].iter
        if isinstance(z, ast.Call) and isinstance(z.func, ast.Name) and z.func.id == 'zip' and len(z.args) == 2 and not z.keywords:
            cells = z.args[1]
            # the cells: the line through str methods only (rstrip / split), nothing appended
            x, pure = cells, True
            while isinstance(x, ast.Call) and isinstance(x.func, ast.Attribute) and x.func.attr in ('split', 'rstrip') \
                    and all(isinstance(a, ast.Constant) for a in x.args) and not x.keywords:
                x = x.func.value
            if isinstance(x, ast.Name) and x.id.startswith('_loop_') and not any(
                    isinstance(n_, ast.Name) and n_.id.startswith('_loop_') for n_ in ast.walk(z.args[0])):
                ok = True
        if not ok:
            res.find(key, v.loc(e), f'_ili.load yields `{t[:110]}`: not dict(zip(header fields, cells of the line)) - a record must have a '
                                    f'key exactly for the cells its line has, the importer fills in what is absent (status \'active\', '
                                    f'definition NULL)')
    # the consumer side of the agreement
    ad = ctx.repo.func('_add', '_add_ili')
    key = 'ili-defaults-by-absence'
    gets = {}
    for n in walk_no_nested(ad.node):
        if isinstance(n, ast.Call) and isinstance(n.func, ast.Attribute) and n.func.attr == 'get' and n.args and isinstance(n.args[0], ast.Constant):
            gets[n.args[0].value] = norm(n)
    res.inst(key, ad.module.loc(ad.node), f'{gets}')
    if 'status' not in gets or "'active'" not in gets.get('status', ''):
        res.find(key, ad.module.loc(ad.node), f"_add_ili no longer defaults an absent status to 'active' with info.get('status', 'active'): {gets}")


def r8_compressed_index_read_completely(ctx, res):
    """an ILI index may be given compressed: what _ili.load reads is the whole decompressed file - the temporary file is closed
    before its path is handed out (C07-R9 on project._get_decompressed)."""
    from .c07 import r9_directory_dispatch_and_decompression
    r9_directory_dispatch_and_decompression(ctx, res)

def r9_index_content_stays_out_of_the_lexicon(ctx, res):
    """"adding an index changes nothing else": what is exported for a lexicon comes from rows that lexicon owns - the exporter
    reads through lexicon-scoped queries and takes metadata / ILI definitions from the rows of its own synsets (C03-R3, C03-R4);
    a definition read from the shared `ilis` table would put the index gloss into every export."""
    from .c03 import r3_metadata_provenance, r4_scoping
    r3_metadata_provenance(ctx, res)
    r4_scoping(ctx, res)

RULES = [
    ('C19-R1', r1_write_set, 3),
    ('C19-R2', r2_upsert_shape, 6),
    ('C19-R3', r3_no_other_ilis_writer, 5),
    ('C19-R4', r4_one_transaction, 1),
    ('C19-R5', r5_header, 2),
    ('C19-R6', r6_tab_separated_only, 3),
    ('C19-R7', r7_records_hold_the_cells_of_the_line, 2),
    ('C19-R8', r8_compressed_index_read_completely, 2),
    ('C19-R9', r9_index_content_stays_out_of_the_lexicon, 15),
]
