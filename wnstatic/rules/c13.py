"""C13 — taxonomy functions (narrow: termination, parameter forwarding, a/s merging, determinism, definitional anchors)."""
from __future__ import annotations
import ast
from ..pat import Frag
from ..src import norm, walk_no_nested, AnalysisError
from ..loops import all_whiles, classify_while, recursion_cycles
from ..pyutil import get_arg

META = {
    'title': 'Taxonomy functions agree with graph-theoretic definitions on any hypernym graph',
    'technique': 'loop/recursion census of wn/taxonomy.py, parameter-forwarding check over resolved callees, ONT subset, definitions of the taxonomy functions stated on their effect summaries',
    'explanation': (
        'Agreement of path sets, depths and shortest paths with their graph-theoretic definitions on all digraphs is a statement '
        'about runtime values and is NOT decided. Decided clauses: R1 termination on cyclic graphs - wn/taxonomy.py contains no '
        'while loop and no recursion, every relation step goes through Synset.relation_paths / hypernyms / hyponyms inside '
        'bounded for-loops, and relation_paths keeps its per-path visited idiom (C11-R1); R2 every function with a simulate_root '
        'parameter forwards it unchanged to every callee that has one (taxonomy.py, the Synset shortcut methods); R3 '
        '_synsets_for_pos merges a and s symmetrically; R4 no hash-seed-ordered value is returned or order-selected in '
        'taxonomy.py (C16 analysis restricted to this module); R5 definitional anchors: roots/leaves test hypernyms()/hyponyms() '
        'emptiness, paths are built over exactly (hypernym, instance_hypernym), ancestor sets include the synset itself, '
        'min/max depth default to 0, shortest_path raises wn.Error when nothing is shared and drops the start synset. R6 the simulated root is constructed with constants in every field Synset.__hash__ reads. R7 every synset a relation step constructs carries the Wordnet it was reached from (C04-R7). R8 the first hop of relation_paths leaves out a relation of the start synset to itself.'),
    'decides': ['termination', 'simulate_root forwarding', 'a/s merge symmetry', 'order determinism', 'definitional anchors'],
    'not_decided': ['equality with graph-theoretic definitions for all digraphs (value level)'],
    'assumptions': [],
}

FORWARD_EXEMPT = {
    ('similarity.wup', 'max_depth'): 'documented: the depth of the subsumer is measured without the simulated root',
}


def r1_termination(ctx, res):
    tax = ctx.repo.mod('taxonomy')
    key = 'taxonomy:no-while'
    whiles = [(f, n) for f, n in all_whiles(ctx.repo) if f.module is tax]
    res.inst(key, tax.relpath, f'{len(whiles)} while loops')
    for f, n in whiles:
        info = classify_while(f, n)
        if info.idiom == 'NONE':
            res.find(f'{key}:{f.qualname}', tax.loc(n), f'while loop in {f.qualname} matches no termination idiom: {info.why}')
    key = 'taxonomy:no-recursion'
    cyc = [c for c in recursion_cycles(ctx) if any(k.startswith('taxonomy.') for k in c)]
    res.inst(key, tax.relpath, f'{cyc}')
    for c in cyc:
        res.find(f'{key}:{",".join(c)}', tax.relpath, f'recursion cycle {c} in the taxonomy functions: termination on cyclic hypernym '
                                                      f'graphs is no longer inherited from relation_paths')
    hp = ctx.repo.func('taxonomy', '_hypernym_paths')
    key = 'taxonomy:paths-through-relation_paths'
    calls = [n for n in walk_no_nested(hp.node) if isinstance(n, ast.Call) and isinstance(n.func, ast.Attribute)
             and n.func.attr == 'relation_paths']
    res.inst(key, hp.module.loc(hp.node), f'{[norm(c) for c in calls]}')
    if len(calls) != 1:
        res.find(key, hp.module.loc(hp.node), '_hypernym_paths no longer enumerates paths with Synset.relation_paths (the primitive whose '
                                              'termination idiom is checked)')
    rp = ctx.repo.func('_core', '_Relatable.relation_paths')
    key = 'taxonomy:relation_paths-idiom'
    ws = [n for n in walk_no_nested(rp.node) if isinstance(n, ast.While)]
    idioms = [classify_while(rp, n).idiom for n in ws]
    res.inst(key, rp.module.loc(rp.node), f'{idioms}')
    if not ws or any(i == 'NONE' for i in idioms):
        res.find(key, rp.module.loc(rp.node), 'relation_paths lost its per-path visited guard (see C11-R1)')
    # taxonomy_depth: bounded for over the synsets of the part of speech
    from ..speccheck import view
    v = view(ctx, 'taxonomy', 'taxonomy_depth')
    key = 'taxonomy_depth:bounded-for'
    fors = sorted({r[3][0] for r in v.rows if r[0] in ('store', 'aug') and r[3] and r[1].startswith('#2')})
    res.inst(key, v.loc(), f'{fors}')
    if fors != ['for _synsets_for_pos(wordnet, pos)']:
        res.find(key, v.loc(), f'taxonomy_depth iterates {fors} instead of all synsets of the part of speech (_synsets_for_pos(wordnet, pos)): '
                               f'a chain that does not start at one of the iterated synsets is not measured')


def forwarding(ctx, res, modules, prefix):
    n = 0
    for f in ctx.repo.all_funcs():
        if f.module.short not in modules or 'simulate_root' not in f.params:
            continue
        for call, cal in ctx.cg.callees(f):
            for c in cal:
                if 'simulate_root' not in c.params or c.name in ('__init__',):
                    continue
                n += 1
                key = f'{prefix}:{f.key}->{c.name}'
                arg = get_arg(call, c, 'simulate_root')
                res.inst(key, f.module.loc(call), f'simulate_root={norm(arg) if isinstance(arg, ast.AST) else arg}')
                if (f.key, c.name) in FORWARD_EXEMPT:
                    continue
                if not (isinstance(arg, ast.Name) and arg.id == 'simulate_root'):
                    res.find(key, f.module.loc(call),
                             f'{f.qualname} calls {c.qualname} with simulate_root={norm(arg) if isinstance(arg, ast.AST) else "<default>"} '
                             f'instead of forwarding its own simulate_root argument')
    return n


def expect(res, key, v, specs, what, **kw):
    """C13 specs name the decisive conditions of each effect; conditions that follow from them (`pos != ADJ` next to
    `pos == ADJ_SAT`, the truthiness of a set that is iterated, the `seen` shortcut of taxonomy_depth) may be spelled or
    ordered differently, so the stated guards are required to be among the effect's guards (subset form)."""
    from ..speccheck import expect as _expect
    specs2 = []
    for sp in specs:
        sp = tuple(sp)
        while len(sp) < 4:
            sp = sp + ((),)
        specs2.append(sp[:4] + ('sub',))
    return _expect(res, key, v, specs2, what, **kw)


def r2_forwarding(ctx, res):
    n = forwarding(ctx, res, ('taxonomy', '_core'), 'forward')
    if n < 10:
        raise AnalysisError(f'only {n} simulate_root call sites found')


def r3_as_merge(ctx, res):
    from ..speccheck import view
    v = view(ctx, 'taxonomy', '_synsets_for_pos')
    expect(res, 'a-s-merge', v, [
        ('new', '#1'),
        ('call', '#1.append($1)', ('pos == ADJ',), ('for wordnet.synsets(pos=ADJ_SAT)',)),
        ('call', '#1.append($1)', ('pos == ADJ_SAT',), ('for wordnet.synsets(pos=ADJ)',)),
        ('return', '#1'),
    ], 'the synsets of a part of speech are wordnet.synsets(pos=pos), with adjectives and satellite adjectives merged both ways')
    key = 'a-s-merge:base'
    news = [e for e in v.E if e.kind == 'new']
    res.inst(key, v.loc(), news[0].text if news else '')
    if not news or '<wordnet.synsets(pos=pos)>' not in news[0].text:
        res.find(key, v.loc(), '_synsets_for_pos no longer starts from wordnet.synsets(pos=pos)')
    key = 'a-s-merge:nothing-else'
    others = [r for r in v.rows if r[0] in ('call', 'store', 'aug') and not (r[1] == '#1.append($1)' and r[3] and 'wordnet.synsets(pos=ADJ' in r[3][0])]
    res.inst(key, v.loc(), f'{len(others)} other effects')
    for r in others:
        res.find(key, v.loc(r[4]), f'_synsets_for_pos also does `{r[1][:80]}`')


def ont_subset(ctx, res, modshort, prefix):
    from .c16 import r1_ont
    from ..runtime import Result
    tmp = Result('tmp')
    r1_ont(ctx, tmp)
    n = 0
    for i in tmp.instances:
        if i.key.startswith(f'fn:{modshort}.'):
            n += 1
            res.inst(f'{prefix}:{i.key}', i.loc, i.desc)
    for fd in tmp.findings:
        if f'{modshort}.' in fd.key:
            res.find(f'{prefix}:{fd.key}', fd.loc, fd.message)
    return n


def r4_determinism(ctx, res):
    n = ont_subset(ctx, res, 'taxonomy', 'ont')
    if n < 10:
        raise AnalysisError('taxonomy functions not found by the ONT analysis')


_HP = "list(synset.relation_paths('hypernym', 'instance_hypernym'))"
_ROOT = '_core.Synset.empty(id=_FAKE_ROOT, _wordnet=synset._wordnet)'
_COMMON = 'set(flatten(_hypernym_paths(synset, simulate_root, True))).intersection(flatten(_hypernym_paths(other, simulate_root, True)))'
# the common hypernyms in result order: sorted (by rowid), ties - inferred synsets all carry the placeholder rowid - in the order
# of first occurrence on the paths from `synset`, never in the iteration order of the set (C16)
_HP_SELF = '_hypernym_paths(synset, simulate_root, True)'


def _is_sorted_common(text):
    """`sorted(X)` where X holds exactly the common hypernyms (C13 does not care in which order equal items come; C16-R7 does):
    the set itself, or the synsets on the paths from `synset` that are in it, in path order, through unique_list / list / a
    comprehension."""
    import ast as _ast
    from ..src import norm as _norm
    try:
        e = _ast.parse(text, mode='eval').body
    except SyntaxError:
        return False
    if not (isinstance(e, _ast.Call) and isinstance(e.func, _ast.Name) and e.func.id == 'sorted' and len(e.args) == 1 and not e.keywords):
        return False

    def paths_content(x):
        while isinstance(x, _ast.Call) and isinstance(x.func, _ast.Name) and x.func.id in ('unique_list', 'list', 'tuple') \
                and len(x.args) == 1 and not x.keywords:
            x = x.args[0]
        return _norm(x) == f'flatten({_HP_SELF})'

    def content(x):
        if _norm(x) == _COMMON:
            return True
        if isinstance(x, _ast.Call) and isinstance(x.func, _ast.Name) and x.func.id in ('unique_list', 'list', 'tuple', 'set') \
                and len(x.args) == 1 and not x.keywords:
            return content(x.args[0])
        if isinstance(x, (_ast.GeneratorExp, _ast.ListComp, _ast.SetComp)) and len(x.generators) == 1:
            g = x.generators[0]
            if isinstance(g.target, _ast.Name) and isinstance(x.elt, _ast.Name) and x.elt.id == g.target.id and len(g.ifs) == 1 \
                    and _norm(g.ifs[0]) == f'{g.target.id} in {_COMMON}' and paths_content(g.iter):
                return True
        return False
    return content(e.args[0])


_SORTED_COMMON = f'sorted(unique_list((_1 for _1 in flatten(_hypernym_paths(synset, simulate_root, True)) if _1 in {_COMMON})))'
_SHP = '_shortest_hyp_paths(synset, other, simulate_root)'


def r5_anchors(ctx, res):
    """definitions of the taxonomy functions, stated on their effect summaries (locals inlined, loop variables positional,
    comprehensions and explicit loops identified)"""
    from ..speccheck import view
    T = lambda name: view(ctx, 'taxonomy', name)   # noqa: E731
    for name, rel in (('roots', 'hypernyms'), ('leaves', 'hyponyms')):
        expect(res, f'anchor:{name}', T(name), [
            ('new', '#1'),
            ('call', '#1.append($1)', (f'not $1.{rel}()',), ('for _synsets_for_pos(wordnet, pos)',)),
            ('return', '#1'),
        ], f'{name} are the synsets of the part of speech without {rel}')
    v = T('_hypernym_paths')
    with_self = f'[[synset] + _1 for _1 in {_HP}] or [[synset]]'
    expect(res, 'anchor:hypernym-paths', v, [
        ('return', _HP, ('not include_self',)),
        ('return', with_self, ('include_self',)),
        ('return', f'[_2 + [{_ROOT}] for _2 in ({with_self} if include_self else {_HP})] or [[{_ROOT}]]', ('simulate_root', 'synset.id != _FAKE_ROOT')),
    ], 'hypernym paths follow exactly hypernym and instance_hypernym through relation_paths; include_self prepends the synset '
       '(a lone [synset] for roots); simulate_root appends the fake root to every path (a lone [root] for root synsets)')
    for cls_m, rels in (('Synset.hypernyms', "'hypernym', 'instance_hypernym'"), ('Synset.hyponyms', "'hyponym', 'instance_hyponym'")):
        vv = view(ctx, '_core', cls_m)
        expect(res, f'anchor:{cls_m}', vv, [('return', f'self.get_related({rels})')],
               f'{cls_m} traverses exactly {rels} (roots()/leaves()/IC must agree with the paths)')
    expect(res, 'anchor:hypernym_paths', T('hypernym_paths'), [('return', '_hypernym_paths(synset, simulate_root, False)')],
           'hypernym_paths excludes the synset itself')
    for name, fn in (('min_depth', 'min'), ('max_depth', 'max')):
        expect(res, f'anchor:{name}', T(name),
               [('return', f'{fn}((len(_1) for _1 in synset.hypernym_paths(simulate_root=simulate_root)), default=0)')],
               f'{name} is the {fn}imal length of a hypernym path, 0 for a root')
    vch = T('common_hypernyms')
    rets = [r[1] for r in vch.rows if r[0] == 'return']
    ch_text = rets[0] if len(rets) == 1 and _is_sorted_common(rets[0]) else _SORTED_COMMON
    expect(res, 'anchor:common_hypernyms', vch, [('return', ch_text)],
           'common hypernyms are the intersection of the two ancestor sets (each including the synset itself), sorted')
    pivot = f'min({_SHP}, key=lambda _1: len({_SHP}[_1]), default=None)'
    vsp = T('shortest_path')
    if any(r[0] == 'raise' and set(r[2]) == {f'not {_SHP}'} for r in vsp.rows):
        # the emptiness of the path map tested directly (the keys are tuples: min(..., default=None) is None exactly then)
        pivot2 = f'min({_SHP}, key=lambda _1: len({_SHP}[_1]))'
        sp_spec = [('raise', "wn.Error(f'no path between {synset!r} and {other!r}')", (f'not {_SHP}',)),
                   ('return', f'{_SHP}[{pivot2}][1:]', (_SHP,))]
    else:
        sp_spec = [('raise', "wn.Error(f'no path between {synset!r} and {other!r}')", (f'{pivot} is None',)),
                   ('return', f'{_SHP}[{pivot}][1:]', (f'{pivot} is not None',))]
    expect(res, 'anchor:shortest_path', vsp, sp_spec, 'shortest_path is the minimal combined path through a common hypernym without the start synset, wn.Error when nothing is shared')
    v = T('_shortest_hyp_paths')
    both = '((0, _hypernym_paths(synset, simulate_root, True)), (1, _hypernym_paths(other, simulate_root, True)))'
    loops = [r[3][0][4:] for r in v.rows if r[0] == 'store' and r[1].startswith('#3[') and len(r[3]) == 1 and r[3][0].startswith('for ')]
    sc_text = loops[0] if len(loops) == 1 and _is_sorted_common(loops[0]) else _SORTED_COMMON
    ok = expect(res, 'anchor:shortest', v, [
        ('return', '{(synset, 0): []}', ('synset == other',)),
        ('return', '{}', (f'not {_COMMON}', 'synset != other')),
        ('store', '#2[$1] = ([], [])', (), (f'for {_COMMON}',)),
        ('store', '#3[$1, #1[$1]] = min(#2[$1][0], key=len) + min(#2[$1][1], key=len)[-2::-1]', (), (f'for {sc_text}',)),
        ('return', '#3', (_COMMON, 'synset != other')),
    ], '_shortest_hyp_paths: empty path for identical synsets, nothing when no ancestor is shared, else for every common hypernym '
       'the shortest sub-path from each side joined (other side reversed, pivot dropped), keyed by (hypernym, its maximal depth)')
    if ok:
        key = 'anchor:shortest:depth'
        dep = v.find('store', text_re=r'^#1\[\$3\[1\]\] = len\(\$2\) - \$3\[0\] - 1$')
        res.inst(key, v.loc(), f'{[r[1] for r in dep]}')
        optional = {_COMMON, 'synset != other'}          # follow from the early returns, may or may not be spelled
        need_dep = {f'$3[1] in {_COMMON}', '$3[1] not in #1 or #1[$3[1]] < len($2) - $3[0] - 1'}
        if len(dep) != 1 or (set(dep[0][2]) - optional) != need_dep:
            res.find(key, v.loc(), '_shortest_hyp_paths no longer records, for each common hypernym met on a path, the maximum of '
                                   '`len(path) - position - 1` as its depth')
        key = 'anchor:shortest:subpaths'
        sub = v.find('call', '#2[$3[1]][$1[0]].append($2[:$3[0] + 1])')
        res.inst(key, v.loc(), f'{len(sub)}')
        if len(sub) != 1 or not all(c[0] == f'for {both}' for _, _, _, c, _ in sub) or (set(sub[0][2]) - optional) != {f'$3[1] in {_COMMON}'}:
            res.find(key, v.loc(), '_shortest_hyp_paths no longer collects, per side and common hypernym, the sub-path up to that hypernym')
    lch_max = f'max((_2 for _1, _2 in {_SHP}), default=-1)'
    expect(res, 'anchor:lch', T('lowest_common_hypernyms'), [
        ('return', '[]', (f'{lch_max} == -1',)),
        ('call', '#1.append($1[0])', (f'$1[1] == {lch_max}',), (f'for {_SHP}',)),
        ('return', '#1', (f'{lch_max} != -1',)),
    ], 'lowest_common_hypernyms returns the common hypernyms of greatest depth ([] when nothing is shared)')
    v = T('taxonomy_depth')
    # the maximum may be taken with max() over the path lengths or as a running maximum over the paths
    running = v.find('store', '#2 = len($2)', ('len($2) > #2',), ('for _synsets_for_pos(wordnet, pos)', 'for $1.hypernym_paths()'))
    running_max = [r for r in v.rows if r[0] == 'store' and r[1] == '#2 = max(#2, len($2))'
                   and tuple(r[3]) == ('for _synsets_for_pos(wordnet, pos)', 'for $1.hypernym_paths()')]
    if running:
        specs = [('store', '#2 = len($2)', ('len($2) > #2',), ('for _synsets_for_pos(wordnet, pos)', 'for $1.hypernym_paths()')), ('return', '#2')]
    elif running_max:
        # the same running maximum in its normal form (`if len(p) > d: d = len(p)` is `d = max(d, len(p))`)
        specs = [('store', '#2 = max(#2, len($2))', tuple(sorted(running_max[0][2])), ('for _synsets_for_pos(wordnet, pos)', 'for $1.hypernym_paths()')),
                 ('return', '#2')]
    else:
        specs = [('store', '#2 = max(#2, max((len(_1) for _1 in $1.hypernym_paths())))', ('$1.hypernym_paths()',), ('for _synsets_for_pos(wordnet, pos)',)),
                 ('return', '#2')]
    ok = expect(res, 'anchor:taxonomy_depth', v, specs, 'taxonomy_depth is the longest hypernym path over ALL synsets of the part of speech')
    if ok:
        key = 'anchor:taxonomy_depth:skip-is-sound'
        st = v.find('store', text_re=r'^#2 = (max|len)')
        extra = set()
        for r in st:
            extra |= {g for g in r[2] if g not in ('$1.hypernym_paths()', 'len($2) > #2')}
        res.inst(key, v.loc(), f'{sorted(extra)}')
        allowed = {'not all((_1 in #1 for _1 in $1.hypernyms()))'}
        if extra - allowed:
            res.find(key, v.loc(), f'taxonomy_depth skips synsets under {sorted(extra - allowed)}: only synsets all of whose hypernyms were '
                                   f'already seen on a measured path may be skipped (their paths are sub-paths of measured ones)')
        new0 = [e for e in v.E if e.kind == 'new' and e.text.startswith('#2<')]
        if not new0 or new0[0].text != '#2<0>':
            res.find(key + ':init', v.loc(), 'the depth no longer starts at 0')


def r6_one_simulated_root(ctx, res):
    """simulate_root joins ALL roots only if the simulated root is one and the same element of every ancestor set: the sets are
    Python sets, so the roots built for two synsets must be equal AND hash alike.  Synset.__hash__ reads (_ENTITY_TYPE, _ili,
    _lexid, _id): the fake root is therefore constructed with constants in those fields - never with a value taken from the
    synset it is built for (`_lexid=synset._lexid` gives the roots of a lexicon and of its extension different hashes: nothing is
    shared, shortest_path raises although simulate_root was asked for)."""
    from .c10 import _fields
    core = ctx.repo.mod('_core')
    syn = core.classes['Synset']
    hs = ctx.repo.lookup_method(syn, '__hash__')
    hf = _fields(hs, syn) if hs is not None else set()
    # constructor parameter -> attribute it initialises (Synset.empty / Synset.__init__ keep the names: ili -> _ili, _lexid, _id)
    param_attr = {'ili': '_ili', '_lexid': '_lexid', '_id': '_id', 'lexid': '_lexid'}
    n = 0
    for f in ctx.repo.all_funcs():
        if f.module.short != 'taxonomy':
            continue
        for node in walk_no_nested(f.node):
            if not (isinstance(node, ast.Call) and norm(node.func).split('.')[-2:] in (['Synset', 'empty'], ['_core', 'Synset'])
                    or (isinstance(node, ast.Call) and norm(node.func).endswith('Synset.empty'))):
                continue
            kws = {k.arg: k.value for k in node.keywords if k.arg}
            idv = kws.get('id', node.args[0] if node.args else None)
            if idv is None or norm(idv) != '_FAKE_ROOT':
                continue
            n += 1
            key = f'one-simulated-root:{f.qualname}'
            varying = {k: norm(v) for k, v in kws.items() if param_attr.get(k) in hf and not isinstance(v, ast.Constant)
                       and norm(v) not in ('NON_ROWID', '_db.NON_ROWID')}
            res.inst(key, f.module.loc(node), f'hash fields {sorted(hf)}; non-constant among them: {varying}')
            if varying:
                res.find(key, f.module.loc(node),
                         f'{f.qualname} builds the simulated root with {varying}: Synset.__hash__ reads {sorted(hf)}, so the roots simulated '
                         f'for synsets of different lexicons hash differently and are never found to be shared - simulate_root does not '
                         f'join the roots of a lexicon and its extension')
    if n < 1:
        raise AnalysisError('no construction of the simulated root (Synset.empty(id=_FAKE_ROOT ...)) found in wn/taxonomy.py')


def r7_traversal_stays_in_the_wordnet(ctx, res):
    """the hypernym graph the taxonomy functions walk is the graph of ONE Wordnet: every synset a relation step constructs is
    handed the Wordnet of the synset it was reached from (C04-R7) - a target built without it falls back to a default-mode
    Wordnet() and continues the walk over every installed lexicon from the second hop on."""
    from .c04 import r7_wordnet_handed_on
    r7_wordnet_handed_on(ctx, res)

def r8_paths_never_start_with_the_synset_itself(ctx, res):
    """a hypernym chain of x is a SIMPLE chain that does not contain x: the first hop of relation_paths leaves out a relation of
    the synset to itself (`target._id != self._id`; later hops are covered by the visited set, which contains the start) - a
    self-loop is valid WN-LMF (W502) and would otherwise yield the chain [x, ...] and raise every depth by one."""
    from ..speccheck import view
    v = view(ctx, '_core', '_Relatable.relation_paths')
    key = 'paths:first-hop-excludes-start'
    firsts = [r for r in v.rows if r[0] == 'call' and '.append(([$1], ' in r[1] and r[3] == ('for self.get_related(*args)',)]
    res.inst(key, v.loc(), f'{[(r[1][:50], sorted(r[2])) for r in firsts]}')
    if len(firsts) != 1 or not ({'$1._id != self._id'} <= set(firsts[0][2]) or {'$1 != self'} <= set(firsts[0][2])
                                 or {'$1 is not self'} <= set(firsts[0][2])):
        res.find(key, v.loc(), 'relation_paths no longer leaves a relation of the start synset to itself out of the first hop: '
                               f'{[(r[1][:50], sorted(r[2])) for r in firsts]}')

RULES = [
    ('C13-R1', r1_termination, 5),
    ('C13-R2', r2_forwarding, 10),
    ('C13-R3', r3_as_merge, 1),
    ('C13-R4', r4_determinism, 10),
    ('C13-R5', r5_anchors, 14),
    ('C13-R6', r6_one_simulated_root, 1),
    ('C13-R7', r7_traversal_stays_in_the_wordnet, 12),
    ('C13-R8', r8_paths_never_start_with_the_synset_itself, 1),
]
