"""C13 — taxonomy functions (narrow: termination, parameter forwarding, a/s merging, determinism, definitional anchors)."""
from __future__ import annotations
import ast
from ..pat import Frag
from ..src import norm, walk_no_nested, AnalysisError
from ..loops import all_whiles, classify_while, recursion_cycles
from ..pyutil import get_arg

META = {
    'title': 'Taxonomy functions agree with graph-theoretic definitions on any hypernym graph',
    'technique': 'loop/recursion census of wn/taxonomy.py, parameter-forwarding check over resolved callees, ONT subset, definitional anchors',
    'explanation': (
        'Agreement of path sets, depths and shortest paths with their graph-theoretic definitions on all digraphs is a statement '
        'about runtime values and is NOT decided. Decided clauses: R1 termination on cyclic graphs - wn/taxonomy.py contains no '
        'while loop and no recursion, every relation step goes through Synset.relation_paths / hypernyms / hyponyms inside '
        'bounded for-loops, and relation_paths keeps its per-path visited idiom (C11-R1); R2 every function with a simulate_root '
        'parameter forwards it unchanged to every callee that has one (taxonomy.py, the Synset shortcut methods); R3 '
        '_synsets_for_pos merges a and s symmetrically; R4 no hash-seed-ordered value is returned or order-selected in '
        'taxonomy.py (C16 analysis restricted to this module); R5 definitional anchors: roots/leaves test hypernyms()/hyponyms() '
        'emptiness, paths are built over exactly (hypernym, instance_hypernym), ancestor sets include the synset itself, '
        'min/max depth default to 0, shortest_path raises wn.Error when nothing is shared and drops the start synset.'),
    'decides': ['termination', 'simulate_root forwarding', 'a/s merge symmetry', 'order determinism', 'definitional anchors'],
    'not_decided': ['equality with graph-theoretic definitions for all digraphs (value level)'],
    'assumptions': [],
}

FORWARD_EXEMPT = {
    ('similarity.wup', 'max_depth'): 'documented: the depth of the subsumer is measured without the simulated root',
}


def r1_termination(ctx, res):
    tax = ctx.repo.mod('taxonomy')
    key = 'taxonomy:no-while'
    whiles = [(f, n) for f, n in all_whiles(ctx.repo) if f.module is tax]
    res.inst(key, tax.relpath, f'{len(whiles)} while loops')
    for f, n in whiles:
        info = classify_while(f, n)
        if info.idiom == 'NONE':
            res.find(f'{key}:{f.qualname}', tax.loc(n), f'while loop in {f.qualname} matches no termination idiom: {info.why}')
    key = 'taxonomy:no-recursion'
    cyc = [c for c in recursion_cycles(ctx) if any(k.startswith('taxonomy.') for k in c)]
    res.inst(key, tax.relpath, f'{cyc}')
    for c in cyc:
        res.find(f'{key}:{",".join(c)}', tax.relpath, f'recursion cycle {c} in the taxonomy functions: termination on cyclic hypernym '
                                                      f'graphs is no longer inherited from relation_paths')
    hp = ctx.repo.func('taxonomy', '_hypernym_paths')
    key = 'taxonomy:paths-through-relation_paths'
    calls = [n for n in walk_no_nested(hp.node) if isinstance(n, ast.Call) and isinstance(n.func, ast.Attribute)
             and n.func.attr == 'relation_paths']
    res.inst(key, hp.module.loc(hp.node), f'{[norm(c) for c in calls]}')
    if len(calls) != 1:
        res.find(key, hp.module.loc(hp.node), '_hypernym_paths no longer enumerates paths with Synset.relation_paths (the primitive whose '
                                              'termination idiom is checked)')
    rp = ctx.repo.func('_core', '_Relatable.relation_paths')
    key = 'taxonomy:relation_paths-idiom'
    ws = [n for n in walk_no_nested(rp.node) if isinstance(n, ast.While)]
    idioms = [classify_while(rp, n).idiom for n in ws]
    res.inst(key, rp.module.loc(rp.node), f'{idioms}')
    if not ws or any(i == 'NONE' for i in idioms):
        res.find(key, rp.module.loc(rp.node), 'relation_paths lost its per-path visited guard (see C11-R1)')
    # taxonomy_depth: bounded for over the synsets, skipping those all of whose hypernyms were seen
    td = ctx.repo.func('taxonomy', 'taxonomy_depth')
    key = 'taxonomy_depth:bounded-for'
    fors = [n for n in walk_no_nested(td.node) if isinstance(n, ast.For)]
    res.inst(key, td.module.loc(td.node), f'{[norm(f.iter) for f in fors]}')
    if not fors or '_synsets_for_pos(wordnet, pos)' not in norm(fors[0].iter):
        res.find(key, td.module.loc(td.node), 'taxonomy_depth no longer iterates _synsets_for_pos(wordnet, pos)')


def forwarding(ctx, res, modules, prefix):
    n = 0
    for f in ctx.repo.all_funcs():
        if f.module.short not in modules or 'simulate_root' not in f.params:
            continue
        for call, cal in ctx.cg.callees(f):
            for c in cal:
                if 'simulate_root' not in c.params or c.name in ('__init__',):
                    continue
                n += 1
                key = f'{prefix}:{f.key}->{c.name}'
                arg = get_arg(call, c, 'simulate_root')
                res.inst(key, f.module.loc(call), f'simulate_root={norm(arg) if isinstance(arg, ast.AST) else arg}')
                if (f.key, c.name) in FORWARD_EXEMPT:
                    continue
                if not (isinstance(arg, ast.Name) and arg.id == 'simulate_root'):
                    res.find(key, f.module.loc(call),
                             f'{f.qualname} calls {c.qualname} with simulate_root={norm(arg) if isinstance(arg, ast.AST) else "<default>"} '
                             f'instead of forwarding its own simulate_root argument')
    return n


def r2_forwarding(ctx, res):
    n = forwarding(ctx, res, ('taxonomy', '_core'), 'forward')
    if n < 10:
        raise AnalysisError(f'only {n} simulate_root call sites found')


def r3_as_merge(ctx, res):
    f = ctx.repo.func('taxonomy', '_synsets_for_pos')
    key = 'a-s-merge'
    pairs = {}
    for n in walk_no_nested(f.node):
        if isinstance(n, ast.If):
            node = n
            while isinstance(node, ast.If):
                t = norm(node.test)
                ext = [norm(s) for s in node.body]
                pairs[t] = ext
                node = node.orelse[0] if len(node.orelse) == 1 and isinstance(node.orelse[0], ast.If) else None
    res.inst(key, f.module.loc(f.node), f'{pairs}')
    want = {'pos == ADJ': ['synsets.extend(wordnet.synsets(pos=ADJ_SAT))'], 'pos == ADJ_SAT': ['synsets.extend(wordnet.synsets(pos=ADJ))']}
    if pairs != want:
        res.find(key, f.module.loc(f.node), f'_synsets_for_pos merges parts of speech as {pairs}; expected the symmetric a/s merge {want}')
    if 'synsets = wordnet.synsets(pos=pos)' not in norm(f.node):
        res.find(key + ':base', f.module.loc(f.node), '_synsets_for_pos no longer starts from wordnet.synsets(pos=pos)')


def ont_subset(ctx, res, modshort, prefix):
    from .c16 import r1_ont
    from ..runtime import Result
    tmp = Result('tmp')
    r1_ont(ctx, tmp)
    n = 0
    for i in tmp.instances:
        if i.key.startswith(f'fn:{modshort}.'):
            n += 1
            res.inst(f'{prefix}:{i.key}', i.loc, i.desc)
    for fd in tmp.findings:
        if f'{modshort}.' in fd.key:
            res.find(f'{prefix}:{fd.key}', fd.loc, fd.message)
    return n


def r4_determinism(ctx, res):
    n = ont_subset(ctx, res, 'taxonomy', 'ont')
    if n < 10:
        raise AnalysisError('taxonomy functions not found by the ONT analysis')


def r5_anchors(ctx, res):
    T = lambda name: ctx.repo.func('taxonomy', name)   # noqa: E731

    def ret_of(f):
        rets = [n for n in walk_no_nested(f.node) if isinstance(n, ast.Return)]
        return [Frag(r.value) for r in rets if r.value is not None]

    def chk(key, f, ok, msg):
        res.inst(key, f.module.loc(f.node), 'anchor')
        if not ok:
            res.find(key, f.module.loc(f.node), msg)
    f = T('roots')
    chk('anchor:roots', f, ret_of(f) == ['[ss for ss in _synsets_for_pos(wordnet, pos) if not ss.hypernyms()]'],
        f'roots() returns {ret_of(f)}; roots are the synsets of the part of speech without hypernyms')
    f = T('leaves')
    chk('anchor:leaves', f, ret_of(f) == ['[ss for ss in _synsets_for_pos(wordnet, pos) if not ss.hyponyms()]'],
        f'leaves() returns {ret_of(f)}; leaves are the synsets of the part of speech without hyponyms')
    hp = T('_hypernym_paths')
    src = Frag(hp.node)
    chk('anchor:hypernym-relations', hp, "synset.relation_paths('hypernym', 'instance_hypernym')" in src,
        '_hypernym_paths no longer follows exactly the relations hypernym and instance_hypernym')
    hy = ctx.repo.func('_core', 'Synset.hypernyms')
    chk('anchor:hypernyms-method', hy, "self.get_related('hypernym', 'instance_hypernym')" in norm(hy.node),
        'Synset.hypernyms no longer traverses exactly hypernym and instance_hypernym (roots()/IC would disagree with the paths)')
    ho = ctx.repo.func('_core', 'Synset.hyponyms')
    chk('anchor:hyponyms-method', ho, "self.get_related('hyponym', 'instance_hyponym')" in norm(ho.node),
        'Synset.hyponyms no longer traverses exactly hyponym and instance_hyponym')
    chk('anchor:include-self', hp, 'paths = [[synset] + path for path in paths] or [[synset]]' in src,
        '_hypernym_paths(include_self=True) no longer prepends the synset itself (ancestor sets must include it)')
    chk('anchor:fake-root', hp, 'paths = [path + [root] for path in paths] or [[root]]' in src and 'synset.id != _FAKE_ROOT' in src,
        'simulate_root no longer appends the fake root to every path (and a lone [root] path for root synsets)')
    for name in ('_shortest_hyp_paths', 'common_hypernyms'):
        f = T(name)
        s = Frag(f.node)
        chk(f'anchor:{name}:ancestors-include-self', f,
            '_hypernym_paths(synset, simulate_root, True)' in s and '_hypernym_paths(other, simulate_root, True)' in s,
            f'{name} no longer computes both ancestor sets with include_self=True')
        chk(f'anchor:{name}:intersection', f, 'set(flatten(from_self)).intersection(flatten(from_other))' in s,
            f'{name} no longer intersects the two ancestor sets')
    f = T('hypernym_paths')
    chk('anchor:hypernym_paths', f, ret_of(f) == ['_hypernym_paths(synset, simulate_root, False)'],
        f'hypernym_paths returns {ret_of(f)}')
    for name, fn in (('min_depth', 'min'), ('max_depth', 'max')):
        f = T(name)
        want = f'{fn}((len(path) for path in synset.hypernym_paths(simulate_root=simulate_root)), default=0)'
        chk(f'anchor:{name}', f, ret_of(f) == [want], f'{name} returns {ret_of(f)}; expected {want}')
    f = T('shortest_path')
    s = Frag(f.node)
    chk('anchor:shortest_path:error', f, any(isinstance(n, ast.Raise) and 'wn.Error' in norm(n) for n in walk_no_nested(f.node))
        and 'if key is None' in s, 'shortest_path no longer raises wn.Error when the synsets share nothing')
    chk('anchor:shortest_path:min', f, 'min(pathmap, key=lambda key: len(pathmap[key]), default=None)' in s,
        'shortest_path no longer picks the pivot with the minimal combined path length')
    chk('anchor:shortest_path:drops-start', f, ret_of(f) == ['pathmap[key][1:]'], f'shortest_path returns {ret_of(f)}; expected the '
        f'combined path without the start synset')
    f = T('_shortest_hyp_paths')
    s = Frag(f.node)
    chk('anchor:shortest:identity', f, 'if synset == other' in s and 'return {(synset, 0): []}' in s,
        '_shortest_hyp_paths no longer returns the empty path for identical synsets')
    chk('anchor:shortest:subpaths', f, 'min(from_self_subpaths, key=len)' in s and 'min(from_other_subpaths, key=len)[-2::-1]' in s,
        '_shortest_hyp_paths no longer joins the shortest sub-path from each side (other side reversed, pivot dropped)')
    chk('anchor:shortest:depth', f, 'depth = len(path) - dist - 1' in s and 'depths[ss] < depth' in s,
        '_shortest_hyp_paths no longer records the maximum depth of each common hypernym')
    f = T('lowest_common_hypernyms')
    s = Frag(f.node)
    chk('anchor:lch', f, 'max([depth for _, depth in pathmap], default=-1)' in s and '[ss for ss, d in pathmap if d == max_depth]' in s,
        'lowest_common_hypernyms no longer returns the common hypernyms of greatest depth')
    f = T('taxonomy_depth')
    s = Frag(f.node)
    chk('anchor:taxonomy_depth', f, 'depth = max(depth, max((len(path) for path in paths)))' in s and 'ss.hypernym_paths()' in s,
        'taxonomy_depth is no longer the longest hypernym path of the part of speech')


RULES = [
    ('C13-R1', r1_termination, 5),
    ('C13-R2', r2_forwarding, 10),
    ('C13-R3', r3_as_merge, 1),
    ('C13-R4', r4_determinism, 10),
    ('C13-R5', r5_anchors, 20),
]
