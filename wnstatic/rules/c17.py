"""C17 — Morphy returns only valid lemmas when initialized and all candidates otherwise (structural clauses)."""
from __future__ import annotations
import ast
from ..pat import Frag
from ..src import norm, walk_no_nested, AnalysisError
from ..consts import const, Unknown
from ..pyutil import parents

META = {
    'title': 'Morphy returns only valid lemmas when initialized and all candidates otherwise',
    'technique': 'effect summaries of Morphy.__init__/__call__/_morphstr: everything added to the candidate set with its exact guards; folded rule table',
    'explanation': (
        'String rewriting over all queries is value-level and not decided. Decided: R1 provenance in Morphy._morphstr - when '
        'initialized, everything added to `candidates` is the query under a `form in all_lemmas` guard, a value of the exception '
        'map of that part of speech, or a rule output under `candidate in all_lemmas`; when not initialized every rule output is '
        'added and __call__ always adds the original form; R2 a detachment is dominated by `form.endswith(suffix) and len(suffix) '
        '< len(form)` (never the whole word) and the output is the stem plus the replacement; R3 the rule table (folded literal): '
        'the rules used are exactly those flagged for the WN system, n v a r s all have entries and s shares the rules of a; '
        'R4 initialisation builds the lemma inventory and the exception map from wordnet.words(): the first form is the lemma, '
        'every other form maps to it, per part of speech; R5 __call__ dispatches over all parts of speech for pos=None, over the '
        'given one if it has rules, over none otherwise, and does not repeat the unfiltered original under a part of speech; '
        'R6 a Wordnet queries the union over the returned (pos, forms) items (C09-R3). R7 results are de-duplicated by entity, not by public id (C09-R4).'),
    'decides': ['candidate provenance', 'no full suppletion', 'rule table consistency', 'initialisation', 'dispatch', 'consumption by _find_helper'],
    'not_decided': ['soundness/completeness over all query strings (value level)'],
    'assumptions': [],
}


_CAND = "f'{form[:-len($1[0])]}{$1[1]}'"


_CAND_ALT = "form[:-len($1[0])] + $1[1]"


def _cand_of(v):
    """the spelling of the rule output used by this tree: f'{stem}{repl}' or stem + repl (both strings)"""
    for r in v.rows:
        if r[0] == 'call' and r[1] == f'#1.add({_CAND_ALT})':
            return _CAND_ALT
    return _CAND


def r1_provenance(ctx, res):
    """what _morphstr puts into its result, under which conditions (effect summary: locals inlined, so `initialized`,
    `all_lemmas`, `candidate`, `suffix`... may be named, introduced or removed freely)"""
    from ..speccheck import view, expect
    v = view(ctx, 'morphy', 'Morphy._morphstr')
    _CAND = _cand_of(v)
    inv = f'not self._initialized or {_CAND} in (self._all_lemmas[pos] if self._initialized else set())'
    expect(res, 'candidates', v, [
        ('new', '#1'),
        ('call', '#1.add(form)', ('form in self._all_lemmas[pos]', 'self._initialized'), (), 'exact'),
        ('call', '#1.update(self._exceptions[pos].get(form, set()))', ('self._initialized',), (), 'exact'),
        ('call', f'#1.add({_CAND})', ('form.endswith($1[0])', 'len($1[0]) < len(form)', inv), ('for self._rules[pos]',), 'exact'),
        ('return', '#1'),
    ], 'an initialized Morphy returns the query if it is a lemma of the part of speech, every lemma of a word listing the query as an '
       'additional form (unconditionally), and the rule outputs that are lemmas; an uninitialized one returns every rule output; a rule '
       'applies only to a proper suffix (no full suppletion)')
    key = 'candidates:nothing-else'
    others = [r for r in v.rows if r[0] in ('call', 'store', 'aug') and r[1].startswith('#1') and r[1] not in
              ('#1.add(form)', '#1.update(self._exceptions[pos].get(form, set()))', f'#1.add({_CAND})')]
    res.inst(key, v.loc(), f'{len(others)} other writes to the result')
    for r in others:
        res.find(key, v.loc(r[4]), f'Morphy._morphstr also does `{r[1][:80]}` when {sorted(r[2])}: not the query, an exception-map entry or a rule output')
    c = view(ctx, 'morphy', 'Morphy.__call__')
    key = 'uninitialized-adds-original'
    hits = c.find('store', '#1[pos] = {form}', ('not self._initialized',))
    res.inst(key, c.loc(), 'result[pos] = {form} when not initialized')
    if not hits or any(h[2] != frozenset({'not self._initialized'}) for h in hits):
        res.find(key, c.loc(), 'an uninitialized Morphy no longer always (and only then) includes the original form')


def r2_no_full_suppletion(ctx, res):
    from ..speccheck import view
    v = view(ctx, 'morphy', 'Morphy._morphstr')
    key = 'rules-of-pos'
    rule_effects = [r for r in v.rows if any(c.startswith('for ') for c in r[3])]
    res.inst(key, v.loc(), f'{sorted({c for r in rule_effects for c in r[3]})}')
    if not rule_effects or any(r[3] != ('for self._rules[pos]',) for r in rule_effects):
        res.find(key, v.loc(), '_morphstr no longer iterates exactly the (suffix, replacement) rules of the requested part of speech')
    key = 'detachment-guard'
    res.inst(key, v.loc(), 'see C17-R1 `candidates` (guards form.endswith(suffix) and len(suffix) < len(form))')


def r3_rule_table(ctx, res):
    rules = const(ctx.repo, 'morphy', 'DETACHMENT_RULES')
    system = const(ctx.repo, 'morphy', '_System')
    if isinstance(rules, Unknown) or isinstance(system, Unknown):
        raise AnalysisError(f'cannot fold morphy.DETACHMENT_RULES / _System: {rules if isinstance(rules, Unknown) else system}')
    wn_flag = system['WN']
    key = 'rule-table:pos'
    res.inst(key, 'wn/morphy.py', f'{sorted(rules)}')
    if set(rules) != {'n', 'v', 'a', 'r', 's'}:
        res.find(key, 'wn/morphy.py', f'DETACHMENT_RULES has entries for {sorted(rules)}; expected n, v, a, r and s')
    key = 'rule-table:s-shares-a'
    res.inst(key, 'wn/morphy.py', 'DETACHMENT_RULES[ADJ_SAT] is DETACHMENT_RULES[ADJ]')
    if rules.get('s') is not rules.get('a'):
        res.find(key, 'wn/morphy.py', 'satellite adjectives no longer share the rule list of adjectives')
    n = 0
    for pos, lst in rules.items():
        for r in lst:
            n += 1
            key = f'rule:{pos}:{r[0]}->{r[1]}'
            res.inst(key, 'wn/morphy.py', f'flags {int(r[2])}')
            if len(r) != 3 or not isinstance(r[0], str) or not isinstance(r[1], str) or r[0] == '':
                res.find(key, 'wn/morphy.py', f'malformed rule {r!r}')
    used = sum(1 for lst in rules.values() for r in lst if int(r[2]) & int(wn_flag))
    res.inst('rule-table:count', 'wn/morphy.py', f'{n} rules, {used} flagged WN')
    if used < 20:
        res.find('rule-table:count', 'wn/morphy.py', f'only {used} rules are flagged for the WN system')


def r4_initialisation(ctx, res):
    from ..speccheck import view, expect
    v = view(ctx, 'morphy', 'Morphy.__init__')
    W = ('for wordnet.words()',)
    expect(res, 'init', v, [
        ('store', 'self._rules = {_1: [_3 for _3 in _2 if _3[2] & _System.WN] for _1, _2 in DETACHMENT_RULES.items()}'),
        ('store', '#1[$1] = {}', (), ('for PARTS_OF_SPEECH',)),
        ('store', '#2[$1] = set()', (), ('for PARTS_OF_SPEECH',)),
        ('call', '#2[$1.pos].add($1.forms()[0])', ('wordnet',), W),
        ('call', '#1[$1.pos].setdefault($2, set()).add($1.forms()[0])', ('wordnet',), W + ('for $1.forms()[1:]',)),
        ('store', 'self._initialized = True', ('wordnet',)),
        ('store', 'self._initialized = False', ('not wordnet',)),
        ('store', 'self._exceptions = #1'),
        ('store', 'self._all_lemmas = #2'),
    ], 'Morphy(wordnet) keeps the rules flagged for the WN system, records the first form of every word as a lemma of its part of '
       'speech and maps every additional form to (all of) its lemmas; inventories exist for every part of speech')


def r5_dispatch(ctx, res):
    from ..speccheck import view, expect
    v = view(ctx, 'morphy', 'Morphy.__call__')
    disp = 'for ([pos] if pos in DETACHMENT_RULES else []) if pos is not None else list(DETACHMENT_RULES)'
    cand = 'self._morphstr(form, $1) - #1.get(None, set())'
    expect(res, 'dispatch', v, [
        ('new', '#1'),
        ('call', f'#1.setdefault($1, set()).update({cand})', (cand,), (disp,)),
        ('return', '#1'),
    ], '__call__ tries every part of speech for pos=None, the given one if it has rules and none otherwise, removes the unfiltered '
       'original (listed under None) from the per-pos candidates and returns {pos: candidates} for the parts of speech with candidates')
    m = ctx.repo.mod('morphy')
    key = 'module-default'
    res.inst(key, m.relpath, 'morphy = Morphy()')
    if not any(isinstance(n, ast.Assign) and norm(n) == 'morphy = Morphy()' for n in m.tree.body):
        res.find(key, m.relpath, 'the module-level default lemmatizer is no longer an uninitialized Morphy()')


def r6_consumption(ctx, res):
    from .c09 import r3_backoff
    r3_backoff(ctx, res)


def r7_union_keeps_every_entity(ctx, res):
    """the Wordnet finds the UNION of what the proposed (pos, form) pairs find: duplicates are removed by entity, never by public
    id (two installed versions share ids) - the de-duplication analysis of C09-R4."""
    from .c09 import r4_dedupe
    r4_dedupe(ctx, res)

RULES = [
    ('C17-R1', r1_provenance, 3),
    ('C17-R2', r2_no_full_suppletion, 2),
    ('C17-R3', r3_rule_table, 25),
    ('C17-R4', r4_initialisation, 1),
    ('C17-R5', r5_dispatch, 2),
    ('C17-R6', r6_consumption, 10),
    ('C17-R7', r7_union_keeps_every_entity, 2),
]
