"""C17 — Morphy returns only valid lemmas when initialized and all candidates otherwise (structural clauses)."""
from __future__ import annotations
import ast
from ..pat import Frag
from ..src import norm, walk_no_nested, AnalysisError
from ..consts import const, Unknown
from ..pyutil import parents

META = {
    'title': 'Morphy returns only valid lemmas when initialized and all candidates otherwise',
    'technique': 'provenance of everything added to the candidate set under its dominating guards; folded rule table',
    'explanation': (
        'String rewriting over all queries is value-level and not decided. Decided: R1 provenance in Morphy._morphstr - when '
        'initialized, everything added to `candidates` is the query under a `form in all_lemmas` guard, a value of the exception '
        'map of that part of speech, or a rule output under `candidate in all_lemmas`; when not initialized every rule output is '
        'added and __call__ always adds the original form; R2 a detachment is dominated by `form.endswith(suffix) and len(suffix) '
        '< len(form)` (never the whole word) and the output is the stem plus the replacement; R3 the rule table (folded literal): '
        'the rules used are exactly those flagged for the WN system, n v a r s all have entries and s shares the rules of a; '
        'R4 initialisation builds the lemma inventory and the exception map from wordnet.words(): the first form is the lemma, '
        'every other form maps to it, per part of speech; R5 __call__ dispatches over all parts of speech for pos=None, over the '
        'given one if it has rules, over none otherwise, and does not repeat the unfiltered original under a part of speech; '
        'R6 a Wordnet queries the union over the returned (pos, forms) items (C09-R3).'),
    'decides': ['candidate provenance', 'no full suppletion', 'rule table consistency', 'initialisation', 'dispatch', 'consumption by _find_helper'],
    'not_decided': ['soundness/completeness over all query strings (value level)'],
    'assumptions': [],
}


def r1_provenance(ctx, res):
    f = ctx.repo.func('morphy', 'Morphy._morphstr')
    loc = f.module.loc(f.node)
    adds = [n for n in walk_no_nested(f.node) if isinstance(n, ast.Call) and isinstance(n.func, ast.Attribute)
            and norm(n.func.value) == 'candidates' and n.func.attr in ('add', 'update')]
    if len(adds) < 3:
        raise AnalysisError('anchor vanished: candidate accumulation in Morphy._morphstr')
    for a in adds:
        arg = norm(a.args[0])
        guards = []
        for p in parents(a):
            if isinstance(p, ast.If):
                pol = any(a is x for b in p.body for x in ast.walk(b))
                guards.append((norm(p.test), pol))
            if p is f.node:
                break
        key = f'candidate:{arg}'
        res.inst(key, f.module.loc(a), f'guards {guards}')
        gt = [g for g, pol in guards if pol]
        if arg == 'form':
            ok = 'form in all_lemmas' in gt and 'initialized' in gt
            msg = 'the query itself is added as a lemma without the `form in all_lemmas` test (initialized Morphy must return only lemmas it knows)'
        elif arg.startswith('self._exceptions[pos].get(form'):
            ok = 'initialized' in gt
            msg = 'exception-map lemmas are added outside the initialized branch'
        elif arg == 'candidate':
            ok = 'not initialized or candidate in all_lemmas' in gt and any('form.endswith(suffix)' in g for g in gt)
            msg = 'a rule output is added without `not initialized or candidate in all_lemmas`: an initialized Morphy returns strings that are ' \
                  'not lemmas of the wordnet'
        else:
            ok = False
            msg = f'`{arg}` is added to the candidates: not the query, an exception-map entry or a rule output'
        if not ok:
            res.find(key, f.module.loc(a), f'Morphy._morphstr: {msg} (guards: {gt})')
    src = Frag(f.node)
    key = 'lemma-inventory-per-pos'
    res.inst(key, loc, 'all_lemmas = self._all_lemmas[pos] when initialized, empty otherwise')
    if 'all_lemmas = self._all_lemmas[pos]' not in src or 'initialized = self._initialized' not in src:
        res.find(key, loc, '_morphstr no longer filters against the lemma inventory of the requested part of speech')
    c = ctx.repo.func('morphy', 'Morphy.__call__')
    key = 'uninitialized-adds-original'
    s2 = Frag(c.node)
    ifs = [n for n in walk_no_nested(c.node) if isinstance(n, ast.If) and norm(n.test) == 'not self._initialized']
    res.inst(key, c.module.loc(c.node), 'result[pos] = {form} when not initialized')
    if len(ifs) != 1 or [norm(x) for x in ifs[0].body] != ['result[pos] = {form}']:
        res.find(key, c.module.loc(c.node), 'an uninitialized Morphy no longer always includes the original form')


def r2_no_full_suppletion(ctx, res):
    f = ctx.repo.func('morphy', 'Morphy._morphstr')
    key = 'detachment-guard'
    ifs = [n for n in walk_no_nested(f.node) if isinstance(n, ast.If) and 'endswith' in norm(n.test)]
    res.inst(key, f.module.loc(f.node), f'{[norm(i.test) for i in ifs]}')
    ok = len(ifs) == 1 and sorted(norm(v) for v in ifs[0].test.values) == ['form.endswith(suffix)', 'len(suffix) < len(form)'] \
        if ifs and isinstance(ifs[0].test, ast.BoolOp) and isinstance(ifs[0].test.op, ast.And) else False
    if not ok:
        res.find(key, f.module.loc(f.node), 'a rule is applied without `form.endswith(suffix) and len(suffix) < len(form)`: a suffix that is the whole '
                                            'word would be detached (full suppletion)')
    key = 'detachment-output'
    outs = [n for n in walk_no_nested(f.node) if isinstance(n, ast.Assign) and norm(n.targets[0]) == 'candidate']
    res.inst(key, f.module.loc(f.node), f'{[norm(o.value) for o in outs]}')
    if len(outs) != 1 or norm(outs[0].value) != "f'{form[:-len(suffix)]}{repl}'":
        res.find(key, f.module.loc(f.node), 'a rule output is no longer the form without the suffix plus the replacement')
    key = 'rules-of-pos'
    loops = [n for n in walk_no_nested(f.node) if isinstance(n, ast.For) and norm(n.iter) == 'self._rules[pos]']
    res.inst(key, f.module.loc(f.node), 'for suffix, repl, _ in self._rules[pos]')
    if len(loops) != 1 or norm(loops[0].target) != '(suffix, repl, _)':
        res.find(key, f.module.loc(f.node), '_morphstr no longer iterates the (suffix, replacement) rules of the requested part of speech')


def r3_rule_table(ctx, res):
    rules = const(ctx.repo, 'morphy', 'DETACHMENT_RULES')
    system = const(ctx.repo, 'morphy', '_System')
    if isinstance(rules, Unknown) or isinstance(system, Unknown):
        raise AnalysisError(f'cannot fold morphy.DETACHMENT_RULES / _System: {rules if isinstance(rules, Unknown) else system}')
    wn_flag = system['WN']
    key = 'rule-table:pos'
    res.inst(key, 'wn/morphy.py', f'{sorted(rules)}')
    if set(rules) != {'n', 'v', 'a', 'r', 's'}:
        res.find(key, 'wn/morphy.py', f'DETACHMENT_RULES has entries for {sorted(rules)}; expected n, v, a, r and s')
    key = 'rule-table:s-shares-a'
    res.inst(key, 'wn/morphy.py', 'DETACHMENT_RULES[ADJ_SAT] is DETACHMENT_RULES[ADJ]')
    if rules.get('s') is not rules.get('a'):
        res.find(key, 'wn/morphy.py', 'satellite adjectives no longer share the rule list of adjectives')
    n = 0
    for pos, lst in rules.items():
        for r in lst:
            n += 1
            key = f'rule:{pos}:{r[0]}->{r[1]}'
            res.inst(key, 'wn/morphy.py', f'flags {int(r[2])}')
            if len(r) != 3 or not isinstance(r[0], str) or not isinstance(r[1], str) or r[0] == '':
                res.find(key, 'wn/morphy.py', f'malformed rule {r!r}')
    init = ctx.repo.func('morphy', 'Morphy.__init__')
    key = 'rules-filtered-to-WN'
    s = Frag(init.node)
    res.inst(key, init.module.loc(init.node), 'rule[2] & _System.WN')
    if 'pos: [rule for rule in rules if rule[2] & _System.WN] for pos, rules in DETACHMENT_RULES.items()' not in s:
        res.find(key, init.module.loc(init.node), 'Morphy no longer keeps exactly the rules flagged for the WN system')
    used = sum(1 for lst in rules.values() for r in lst if int(r[2]) & int(wn_flag))
    res.inst('rule-table:count', 'wn/morphy.py', f'{n} rules, {used} flagged WN')
    if used < 20:
        res.find('rule-table:count', 'wn/morphy.py', f'only {used} rules are flagged for the WN system')


def r4_initialisation(ctx, res):
    init = ctx.repo.func('morphy', 'Morphy.__init__')
    s = Frag(init.node)
    loc = init.module.loc(init.node)

    def chk(key, ok, msg):
        res.inst(key, loc, 'anchor')
        if not ok:
            res.find(key, loc, msg)
    chk('init:words', 'for word in wordnet.words()' in s, 'the lemma inventory is no longer built from wordnet.words()')
    chk('init:first-form-is-lemma', 'lemma, *others = word.forms()' in s, 'the first form of a word is no longer taken as its lemma')
    chk('init:per-pos', 'pos = word.pos' in s and 'pos_exc = exceptions[pos]' in s and 'all_lemmas[pos].add(lemma)' in s,
        'lemmas / exceptions are no longer recorded under the part of speech of their word')
    loops = [n for n in walk_no_nested(init.node) if isinstance(n, ast.For) and norm(n.iter) == 'others']
    ok = len(loops) == 1 and 'pos_exc[other].add(lemma)' in norm(loops[0]) and 'pos_exc[other] = {lemma}' in norm(loops[0])
    chk('init:exception-map', ok, 'every additional form no longer maps to (all of) its lemmas in the exception map')
    chk('init:flag', 'self._initialized = True' in s and 'self._initialized = False' in s and 'self._exceptions = exceptions' in s
        and 'self._all_lemmas = all_lemmas' in s, 'the initialized flag / inventories are no longer stored')
    chk('init:all-pos', 'pos: {} for pos in PARTS_OF_SPEECH' in s and 'pos: set() for pos in PARTS_OF_SPEECH' in s,
        'inventories are no longer created for every part of speech (a word of an unlisted pos raises KeyError)')


def r5_dispatch(ctx, res):
    c = ctx.repo.func('morphy', 'Morphy.__call__')
    s = Frag(c.node)
    loc = c.module.loc(c.node)

    def chk(key, ok, msg):
        res.inst(key, loc, 'anchor')
        if not ok:
            res.find(key, loc, msg)
    ifs = [n for n in walk_no_nested(c.node) if isinstance(n, ast.If) and norm(n.test) == 'pos is None']
    ok = len(ifs) == 1 and [norm(x) for x in ifs[0].body] == ['pos_list = list(DETACHMENT_RULES)'] and len(ifs[0].orelse) == 1 \
        and isinstance(ifs[0].orelse[0], ast.If) and norm(ifs[0].orelse[0].test) == 'pos in DETACHMENT_RULES' \
        and [norm(x) for x in ifs[0].orelse[0].body] == ['pos_list = [pos]'] and [norm(x) for x in ifs[0].orelse[0].orelse] == ['pos_list = []']
    chk('dispatch', ok, '__call__ no longer tries every part of speech for pos=None, the given one if it has rules, and none otherwise')
    chk('no-duplicate-original', 'no_pos_forms = result.get(None, set())' in s and 'candidates = self._morphstr(form, _pos) - no_pos_forms' in s,
        '__call__ no longer removes the unfiltered original (listed under None) from the per-pos candidates')
    chk('result-accumulation', 'result.setdefault(_pos, set()).update(candidates)' in s and 'return result' in s,
        '__call__ no longer returns {pos: set of candidates} for the parts of speech with candidates')
    m = ctx.repo.mod('morphy')
    key = 'module-default'
    res.inst(key, m.relpath, 'morphy = Morphy()')
    if not any(isinstance(n, ast.Assign) and norm(n) == 'morphy = Morphy()' for n in m.tree.body):
        res.find(key, m.relpath, 'the module-level default lemmatizer is no longer an uninitialized Morphy()')


def r6_consumption(ctx, res):
    from .c09 import r3_backoff
    r3_backoff(ctx, res)


RULES = [
    ('C17-R1', r1_provenance, 5),
    ('C17-R2', r2_no_full_suppletion, 3),
    ('C17-R3', r3_rule_table, 25),
    ('C17-R4', r4_initialisation, 6),
    ('C17-R5', r5_dispatch, 4),
    ('C17-R6', r6_consumption, 10),
]
