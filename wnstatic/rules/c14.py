"""C14 — similarity metrics (narrow: error discipline, subsumer choice, forwarding, formula anchors)."""
from __future__ import annotations
import ast
from ..pat import Frag
from ..src import norm, walk_no_nested, AnalysisError
from .c13 import forwarding, ont_subset

META = {
    'title': 'Similarity metrics equal their formulas, are symmetric and bounded',
    'technique': 'sibling rule over the six metrics (first-statement dominance), error-path shape, ONT subset, formula anchors',
    'explanation': (
        'Formula values, symmetry and numeric bounds over all graphs are runtime floats and are NOT decided. Decided clauses: '
        'R1 each of the six public metrics calls _check_if_pos_compatible(synset1.pos, synset2.pos) before anything else, and the '
        'helper folds s into a for both arguments and raises wn.Error on a mismatch; R2 wup, res, jcn and lin obtain their '
        'subsumer through _least_common_subsumers, which raises wn.Error on an empty list, and path() turns exactly wn.Error into '
        'distance infinity; R3 simulate_root is forwarded to shortest_path / lowest_common_hypernyms (lcs.max_depth() exempt as '
        'documented); R4 no order-selected element (lcs_list[0], max(key=)) is taken from a hash-seed-ordered sequence; '
        'R5 formula anchors: the return expressions are the documented formulas.'),
    'decides': ['POS check first in all six metrics', 'LCS error discipline', 'simulate_root forwarding', 'no seed-selected subsumer',
                'formula anchors'],
    'not_decided': ['numeric values, symmetry and bounds for all graphs'],
    'assumptions': [],
}

METRICS = ('path', 'wup', 'lch', 'res', 'jcn', 'lin')


def _body(f):
    b = list(f.node.body)
    if b and isinstance(b[0], ast.Expr) and isinstance(b[0].value, ast.Constant) and isinstance(b[0].value.value, str):
        b = b[1:]
    return b


def r1_pos_check_first(ctx, res):
    for m in METRICS:
        f = ctx.repo.func('similarity', m)
        key = f'pos-check-first:{m}'
        b = _body(f)
        first = norm(b[0]) if b else ''
        res.inst(key, f.module.loc(f.node), first)
        if first != '_check_if_pos_compatible(synset1.pos, synset2.pos)':
            res.find(key, f.module.loc(f.node), f'similarity.{m} does not start with _check_if_pos_compatible(synset1.pos, synset2.pos) '
                                                f'(first statement: `{first[:60]}`): synsets of incompatible parts of speech are scored '
                                                f'instead of raising wn.Error')
    h = ctx.repo.func('similarity', '_check_if_pos_compatible')
    src = Frag(h.node, fixed=('pos1', 'pos2', '_pos1', '_pos2'))
    key = 'pos-check-helper'
    res.inst(key, h.module.loc(h.node), 'folds s into a for both arguments, raises wn.Error')
    ok = '_pos1 = ADJ if pos1 == ADJ_SAT else pos1' in src and '_pos2 = ADJ if pos2 == ADJ_SAT else pos2' in src \
        and 'if _pos1 != _pos2' in src and any(isinstance(n, ast.Raise) and 'wn.Error' in norm(n) for n in walk_no_nested(h.node))
    if not ok:
        res.find(key, h.module.loc(h.node), '_check_if_pos_compatible no longer folds ADJ_SAT into ADJ for both arguments and raises wn.Error '
                                            'when the folded values differ')


def r2_error_discipline(ctx, res):
    lcs = ctx.repo.func('similarity', '_least_common_subsumers')
    key = 'lcs-raises-on-empty'
    src = Frag(lcs.node)
    res.inst(key, lcs.module.loc(lcs.node), 'raise wn.Error when there is no common hypernym')
    ok = 'if not lcs' in src and any(isinstance(n, ast.Raise) and 'wn.Error' in norm(n) for n in walk_no_nested(lcs.node))
    if not ok:
        res.find(key, lcs.module.loc(lcs.node), '_least_common_subsumers no longer raises wn.Error when the synsets share no hypernym')
    for m, via in (('wup', '_least_common_subsumers'), ('res', '_most_informative_lcs'), ('jcn', '_most_informative_lcs'),
                   ('lin', '_most_informative_lcs')):
        f = ctx.repo.func('similarity', m)
        key = f'subsumer-source:{m}'
        calls = [norm(n.func) for n in walk_no_nested(f.node) if isinstance(n, ast.Call)]
        res.inst(key, f.module.loc(f.node), f'via {via}')
        if via not in calls:
            res.find(key, f.module.loc(f.node), f'similarity.{m} no longer obtains its subsumer through {via} (which raises wn.Error when '
                                                f'nothing is shared)')
        direct = [c for c in calls if c.endswith('lowest_common_hypernyms') or c.endswith('common_hypernyms')]
        if direct:
            res.find(key + ':direct', f.module.loc(f.node), f'similarity.{m} calls {direct[0]} directly, bypassing the empty-list check')
    mi = ctx.repo.func('similarity', '_most_informative_lcs')
    key = 'subsumer-source:_most_informative_lcs'
    res.inst(key, mi.module.loc(mi.node), 'via _least_common_subsumers(synset1, synset2, False)')
    if '_least_common_subsumers(synset1, synset2, False)' not in norm(mi.node):
        res.find(key, mi.module.loc(mi.node), '_most_informative_lcs no longer goes through _least_common_subsumers')
    p = ctx.repo.func('similarity', 'path')
    key = 'path-catches-wn-error'
    tries = [n for n in walk_no_nested(p.node) if isinstance(n, ast.Try)]
    res.inst(key, p.module.loc(p.node), f'{[norm(h.type) if h.type else None for t in tries for h in t.handlers]}')
    ok = len(tries) == 1 and len(tries[0].handlers) == 1 and tries[0].handlers[0].type is not None \
        and norm(tries[0].handlers[0].type) == 'wn.Error' and "float('inf')" in norm(tries[0].handlers[0])
    if not ok:
        res.find(key, p.module.loc(p.node), 'path() no longer turns exactly wn.Error (no connecting path) into an infinite distance')
    for m in ('wup', 'lch', 'res', 'jcn', 'lin'):
        f = ctx.repo.func('similarity', m)
        key = f'no-swallow:{m}'
        tries = [n for n in walk_no_nested(f.node) if isinstance(n, ast.Try)]
        res.inst(key, f.module.loc(f.node), f'{len(tries)} try statements')
        if tries:
            res.find(key, f.module.loc(f.node), f'similarity.{m} catches exceptions: the documented wn.Error for unconnected synsets may be '
                                                f'swallowed')


def r3_forwarding(ctx, res):
    n = forwarding(ctx, res, ('similarity',), 'forward')
    if n < 5:
        raise AnalysisError(f'only {n} simulate_root call sites in similarity.py')


def r4_no_seed_selected(ctx, res):
    n = ont_subset(ctx, res, 'similarity', 'ont')
    if n < 8:
        raise AnalysisError('similarity functions not found by the ONT analysis')


def r5_anchors(ctx, res):
    def F(name):
        return ctx.repo.func('similarity', name)

    def rets(f):
        rs = [r for r in walk_no_nested(f.node) if isinstance(r, ast.Return) and r.value is not None]
        return [Frag(r.value) for r in sorted(rs, key=lambda r: r.lineno)]

    def chk(key, f, ok, msg):
        res.inst(key, f.module.loc(f.node), 'anchor')
        if not ok:
            res.find(key, f.module.loc(f.node), msg)
    f = F('path')
    s = Frag(f.node)
    chk('formula:path', f, rets(f) == ['1 / (distance + 1)'] and 'distance = len(path)' in s
        and 'synset1.shortest_path(synset2, simulate_root=simulate_root)' in s,
        f'path() returns {rets(f)}; documented: 1 / (shortest path length + 1)')
    f = F('wup')
    s = Frag(f.node)
    chk('formula:wup', f, rets(f) == ['2 * k / (i + j + 2 * k)'] and 'k = lcs.max_depth() + 1' in s
        and 'i = len(synset1.shortest_path(lcs, simulate_root=simulate_root))' in s
        and 'j = len(synset2.shortest_path(lcs, simulate_root=simulate_root))' in s,
        f'wup() returns {rets(f)}; documented: 2k / (i + j + 2k) with k = depth(lcs) + 1')
    f = F('lch')
    s = Frag(f.node)
    chk('formula:lch', f, rets(f) == ['-math.log((distance + 1) / (2 * max_depth))']
        and 'distance = len(synset1.shortest_path(synset2, simulate_root=simulate_root))' in s and 'if max_depth <= 0' in s,
        f'lch() returns {rets(f)}; documented: -log((distance + 1) / (2 * max_depth)), error for max_depth <= 0')
    f = F('res')
    chk('formula:res', f, rets(f) == ['information_content(lcs, ic)'], f'res() returns {rets(f)}; documented: IC(lcs)')
    f = F('jcn')
    s = Frag(f.node)
    chk('formula:jcn', f, rets(f) == ['0', "float('inf')", '1 / (ic1 + ic2 - 2 * ic_lcs)'] and 'if ic1 == ic2 == ic_lcs == 0' in s
        and 'elif ic1 + ic2 == 2 * ic_lcs' in s, f'jcn() returns {rets(f)}; documented: 1 / (IC1 + IC2 - 2 IC(lcs)) with the two special cases')
    f = F('lin')
    s = Frag(f.node)
    chk('formula:lin', f, rets(f) == ['0.0', '2 * information_content(lcs, ic) / (ic1 + ic2)'] and 'if ic1 == 0 or ic2 == 0' in s,
        f'lin() returns {rets(f)}; documented: 2 IC(lcs) / (IC1 + IC2)')
    f = F('_most_informative_lcs')
    s = Frag(f.node)
    chk('formula:most-informative', f, 'max(lcs, key=lambda ss: pos_ic[ss.id])' in s and 'pos_ic = ic[synset1.pos]' in s,
        '_most_informative_lcs no longer selects the subsumer with the greatest IC weight... (see source)')


RULES = [
    ('C14-R1', r1_pos_check_first, 7),
    ('C14-R2', r2_error_discipline, 10),
    ('C14-R3', r3_forwarding, 5),
    ('C14-R4', r4_no_seed_selected, 8),
    ('C14-R5', r5_anchors, 7),
]
