"""C14 — similarity metrics (narrow: error discipline, subsumer choice, forwarding, formula anchors)."""
from __future__ import annotations
import ast
from ..pat import Frag
from ..src import norm, walk_no_nested, AnalysisError
from .c13 import forwarding, ont_subset

META = {
    'title': 'Similarity metrics equal their formulas, are symmetric and bounded',
    'technique': 'sibling rule over the six metrics (first-statement dominance), error-path shape, ONT subset, documented formulas as effect specifications, raising calls evaluated on every returning path (outcome tables)',
    'explanation': (
        'Formula values, symmetry and numeric bounds over all graphs are runtime floats and are NOT decided. Decided clauses: '
        'R1 each of the six public metrics calls _check_if_pos_compatible(synset1.pos, synset2.pos) before anything else, and the '
        'helper folds s into a for both arguments and raises wn.Error on a mismatch; R2 wup, res, jcn and lin obtain their '
        'subsumer through _least_common_subsumers, which raises wn.Error on an empty list, and path() turns exactly wn.Error into '
        'distance infinity; R3 simulate_root is forwarded to shortest_path / lowest_common_hypernyms (lcs.max_depth() exempt as '
        'documented); R4 no order-selected element (lcs_list[0], max(key=)) is taken from a hash-seed-ordered sequence; '
        'R5 formula anchors: the return expressions are the documented formulas. R7 nothing in similarity/taxonomy/ic is '
        'memoised or kept in module-level state. R8 the taxonomy anchors behind path / wup / lch (C13-R5).'),
    'decides': ['POS check first in all six metrics', 'LCS error discipline', 'simulate_root forwarding', 'no seed-selected subsumer',
                'formula anchors', 'no memoisation across Wordnet configurations'],
    'not_decided': ['numeric values, symmetry and bounds for all graphs'],
    'assumptions': [],
}

METRICS = ('path', 'wup', 'lch', 'res', 'jcn', 'lin')


def _body(f):
    b = list(f.node.body)
    if b and isinstance(b[0], ast.Expr) and isinstance(b[0].value, ast.Constant) and isinstance(b[0].value.value, str):
        b = b[1:]
    return b


def r1_pos_check_first(ctx, res):
    for m in METRICS:
        f = ctx.repo.func('similarity', m)
        key = f'pos-check-first:{m}'
        b = _body(f)
        first = norm(b[0]) if b else ''
        res.inst(key, f.module.loc(f.node), first)
        if first != '_check_if_pos_compatible(synset1.pos, synset2.pos)':
            res.find(key, f.module.loc(f.node), f'similarity.{m} does not start with _check_if_pos_compatible(synset1.pos, synset2.pos) '
                                                f'(first statement: `{first[:60]}`): synsets of incompatible parts of speech are scored '
                                                f'instead of raising wn.Error')
    from ..speccheck import view, expect
    expect(res, 'pos-check-helper', view(ctx, 'similarity', '_check_if_pos_compatible'), [
        ('raise', "wn.Error('synsets must have the same part of speech')", ('(ADJ if pos1 == ADJ_SAT else pos1) != (ADJ if pos2 == ADJ_SAT else pos2)',)),
    ], '_check_if_pos_compatible folds ADJ_SAT into ADJ for both arguments and raises wn.Error exactly when the folded values differ')


def r2_error_discipline(ctx, res):
    from ..speccheck import view, expect
    lch = 'synset1.lowest_common_hypernyms(synset2, simulate_root=simulate_root)'
    expect(res, 'lcs-raises-on-empty', view(ctx, 'similarity', '_least_common_subsumers'), [
        ('raise', "wn.Error(f'no common hypernyms for {synset1!r} and {synset2!r}')", (f'not {lch}',)),
        ('return', lch, (lch,)),
    ], '_least_common_subsumers returns the lowest common hypernyms and raises wn.Error when there are none')
    for m, via in (('wup', '_least_common_subsumers'), ('res', '_most_informative_lcs'), ('jcn', '_most_informative_lcs'),
                   ('lin', '_most_informative_lcs')):
        f = ctx.repo.func('similarity', m)
        key = f'subsumer-source:{m}'
        calls = [norm(n.func) for n in walk_no_nested(f.node) if isinstance(n, ast.Call)]
        res.inst(key, f.module.loc(f.node), f'via {via}')
        if via not in calls:
            res.find(key, f.module.loc(f.node), f'similarity.{m} no longer obtains its subsumer through {via} (which raises wn.Error when '
                                                f'nothing is shared)')
        direct = [c for c in calls if c.endswith('lowest_common_hypernyms') or c.endswith('common_hypernyms')]
        if direct:
            res.find(key + ':direct', f.module.loc(f.node), f'similarity.{m} calls {direct[0]} directly, bypassing the empty-list check')
    mi = ctx.repo.func('similarity', '_most_informative_lcs')
    key = 'subsumer-source:_most_informative_lcs'
    res.inst(key, mi.module.loc(mi.node), 'via _least_common_subsumers(synset1, synset2, False)')
    if '_least_common_subsumers(synset1, synset2, False)' not in norm(mi.node):
        res.find(key, mi.module.loc(mi.node), '_most_informative_lcs no longer goes through _least_common_subsumers')
    pv = view(ctx, 'similarity', 'path')
    p = pv.f
    key = 'path-catches-wn-error'
    exc = sorted({g for r in pv.rows for g in r[2] if g.startswith('<except ')})
    res.inst(key, pv.loc(), f'{exc}')
    inf_rets = [r for r in pv.rows if r[0] == 'return' and '<except wn.Error>' in r[2]]
    if exc != ['<except wn.Error>'] or len(inf_rets) != 1 or "float('inf')" not in inf_rets[0][1]:
        res.find(key, pv.loc(), f'path() no longer turns exactly wn.Error (no connecting path) into an infinite distance: handlers {exc}, '
                                f'{[r[1][:50] for r in inf_rets]}')
    for m in ('wup', 'lch', 'res', 'jcn', 'lin'):
        f = ctx.repo.func('similarity', m)
        key = f'no-swallow:{m}'
        tries = [n for n in walk_no_nested(f.node) if isinstance(n, ast.Try)]
        res.inst(key, f.module.loc(f.node), f'{len(tries)} try statements')
        if tries:
            res.find(key, f.module.loc(f.node), f'similarity.{m} catches exceptions: the documented wn.Error for unconnected synsets may be '
                                                f'swallowed')


def r3_forwarding(ctx, res):
    n = forwarding(ctx, res, ('similarity',), 'forward')
    if n < 5:
        raise AnalysisError(f'only {n} simulate_root call sites in similarity.py')


def r4_no_seed_selected(ctx, res):
    n = ont_subset(ctx, res, 'similarity', 'ont')
    if n < 8:
        raise AnalysisError('similarity functions not found by the ONT analysis')


_ABBR = {
    'IC1': 'information_content(synset1, ic)',
    'IC2': 'information_content(synset2, ic)',
    'ICL': 'information_content(MIL, ic)',
    'MIL': '_most_informative_lcs(synset1, synset2, ic)',
    'LCS0': '_least_common_subsumers(synset1, synset2, simulate_root)[0]',
    'DIST': 'len(synset1.shortest_path(synset2, simulate_root=simulate_root))',
}


def _x(t):
    for k in ('IC1', 'IC2', 'ICL', 'MIL', 'LCS0', 'DIST'):
        t = t.replace(k, _ABBR[k])
    return t


# documented formulas as effect specs (kind, text, guards): every local is inlined and simple private helpers are expanded,
# so the table is insensitive to introducing / removing / renaming locals and helpers, to if/elif vs early returns and to the
# order of independent statements
FORMULAS = {
    'path': [('return', '1 / (DIST + 1)'),
             ('return', "1 / (float('inf') + 1)", ('<except wn.Error>',))],
    'wup': [('return', '2 * (LCS0.max_depth() + 1) / (len(synset1.shortest_path(LCS0, simulate_root=simulate_root)) + '
                       'len(synset2.shortest_path(LCS0, simulate_root=simulate_root)) + 2 * (LCS0.max_depth() + 1))')],
    'lch': [('raise', "wn.Error('max_depth must be greater than 0')", ('max_depth <= 0',)),
            ('return', '-math.log((DIST + 1) / (2 * max_depth))', ('max_depth > 0',))],
    'res': [('return', 'ICL')],
    'jcn': [('return', '0', ('IC1 == IC2 == ICL == 0',)),
            ('return', "float('inf')", ('not IC1 == IC2 == ICL == 0', 'IC1 + IC2 == 2 * ICL')),
            ('return', '1 / (IC1 + IC2 - 2 * ICL)', ('not IC1 == IC2 == ICL == 0', 'IC1 + IC2 != 2 * ICL'))],
    'lin': [('return', '0.0', ('IC1 == 0 or IC2 == 0',)),
            ('return', '2 * ICL / (IC1 + IC2)', ('IC1 != 0', 'IC2 != 0'))],
}
DOC = {
    'path': '1 / (shortest path length + 1), infinite distance when no path connects the synsets',
    'wup': '2k / (i + j + 2k) with k = depth(lcs) + 1',
    'lch': '-log((distance + 1) / (2 * max_depth)), wn.Error for max_depth <= 0',
    'res': 'IC(lcs) of the most informative common subsumer',
    'jcn': '1 / (IC1 + IC2 - 2 IC(lcs)) with 0 when all are 0 and inf when the denominator is 0',
    'lin': '2 IC(lcs) / (IC1 + IC2), 0 when IC1 or IC2 is 0',
}


def r5_anchors(ctx, res):
    from ..speccheck import view, expect
    for m, want in FORMULAS.items():
        v = view(ctx, 'similarity', m)
        specs = [(sp[0], _x(sp[1]), tuple(_x(g) for g in (sp[2] if len(sp) > 2 else ()))) for sp in want]
        expect(res, f'formula:{m}', v, specs, f'documented: {DOC[m]}')
    expect(res, 'formula:most-informative', view(ctx, 'similarity', '_most_informative_lcs'),
           [('return', 'max(_least_common_subsumers(synset1, synset2, False), key=lambda _1: ic[synset1.pos][_1.id])')],
           'the most informative subsumer is the common subsumer (no simulated root) with the greatest IC weight')


# calls that raise the documented wn.Error; each must have been evaluated on every path that returns a value
RAISERS = {
    'path': ['_check_if_pos_compatible(synset1.pos, synset2.pos)'],
    'wup': ['_check_if_pos_compatible(synset1.pos, synset2.pos)', '_least_common_subsumers(synset1, synset2, simulate_root)'],
    'lch': ['_check_if_pos_compatible(synset1.pos, synset2.pos)', 'synset1.shortest_path(synset2, simulate_root=simulate_root)'],
    'res': ['_check_if_pos_compatible(synset1.pos, synset2.pos)', '_most_informative_lcs(synset1, synset2, ic)'],
    'jcn': ['_check_if_pos_compatible(synset1.pos, synset2.pos)', '_most_informative_lcs(synset1, synset2, ic)'],
    'lin': ['_check_if_pos_compatible(synset1.pos, synset2.pos)', '_most_informative_lcs(synset1, synset2, ic)'],
}


def r6_errors_before_values(ctx, res):
    """a metric raises wn.Error for incompatible / unconnected synsets whatever the other values are: the raising calls are
    evaluated on every path that returns a value (a special-case return placed before them turns the error into a score)."""
    from ..inline import outcomes, Opaque
    for m, need in RAISERS.items():
        f = ctx.repo.func('similarity', m)
        try:
            outs = [o for o in outcomes(f.node) if o.kind == 'return']
        except Opaque:
            continue   # reported by R5
        for r in need:
            key = f'raises-before-return:{m}:{r.split("(")[0]}'
            res.inst(key, f.module.loc(f.node), f'{len(outs)} returning paths')
            for o in outs:
                if r not in o.before:
                    res.find(key, f.module.loc(o.node),
                             f'similarity.{m} can return `{o.value[:50]}` (when {" and ".join(o.guards)[:120] or "always"}) without having '
                             f'evaluated `{r}`: for synsets without a common hypernym / of incompatible parts of speech a value is '
                             f'returned instead of the documented wn.Error')
                    break


def r7_no_memo(ctx, res):
    """the metrics are functions of the taxonomy as seen through the Wordnet of their arguments: nothing in similarity /
    taxonomy / ic is memoised or kept in module-level state (a Synset hashes by row identity, not by the lexicon selection
    and expand set of its Wordnet, so a memo keyed by synsets returns the depth / paths of another configuration)."""
    from .c16 import hidden_state_subset
    n = hidden_state_subset(ctx, res, ('similarity', 'taxonomy', 'ic'), 'no-memo')
    if n < 25:
        raise AnalysisError(f'only {n} functions of similarity / taxonomy / ic examined for memoisation')


def r8_paths_behind_the_metrics(ctx, res):
    """path, wup and lch are formulas over taxonomy.shortest_path / lowest_common_hypernyms / depths: the anchors of C13-R5 (the
    pivot ranges over ALL common hypernyms, the shortest combined path wins) are part of what the metrics compute."""
    from .c13 import r5_anchors as c13_anchors
    c13_anchors(ctx, res)

RULES = [
    ('C14-R1', r1_pos_check_first, 7),
    ('C14-R2', r2_error_discipline, 10),
    ('C14-R3', r3_forwarding, 5),
    ('C14-R4', r4_no_seed_selected, 8),
    ('C14-R5', r5_anchors, 7),
    ('C14-R6', r6_errors_before_values, 11),
    ('C14-R7', r7_no_memo, 25),
    ('C14-R8', r8_paths_behind_the_metrics, 10),
]
