"""C12 — relations borrowed through expand lexicons are mapped by ILI as documented (structural clauses)."""
from __future__ import annotations
import ast
from ..src import norm, walk_no_nested, AnalysisError

META = {
    'title': 'Relations borrowed through expand lexicons are mapped by ILI as documented',
    'technique': 'effect summaries of Synset._iter_expanded_relations, _iter_relations and Wordnet.__init__ with row positions resolved through the select lists of the queries; row-flow trace of the default expand set',
    'explanation': (
        'The many-to-many mapping results over all lexicon pairs are runtime values and are not decided. Decided: R1 provenance in '
        'Synset._iter_expanded_relations - source synsets come from find_synsets(ili=own ILI) scoped by _expanded_ids (own row and '
        'placeholder rowid excluded), their relations from get_synset_relations scoped by _expanded_ids, every yielded target is a '
        'row of get_synsets_for_ilis([target ILI], <element scope>) or Synset.empty carrying the target ILI, and the Relation is '
        'built from the expand row: type, source id (looked up by the row\'s source rowid), target id, lexicon, metadata - checked '
        'by select-list position, not by variable name; R2 at every yield the target-ILI variable is known non-None ("targets '
        'without an ILI are dropped"); R3 _iter_relations yields own relations first and the expanded ones only when the synset has '
        'an ILI and the Wordnet has expand ids; expand="" leaves _expanded_ids empty; R4 default expand: "*" in default mode, '
        'otherwise the installed declared dependencies of the selected lexicons, with a WnWarning iff some dependency is missing. R5 traversals through placeholders keep visited sets by entity (C11-R1, R6). R6 the lexicon reported with a relation is the one that declares it: in each relation query the `lexicons` row of the specifier is joined on the relation table\'s own lexicon_rowid (key comparisons resolved against the schema). R7 waiting dependency rows are re-linked on every path of _insert_lexicon (C05-R5). R8 the relation table itself is restricted to the lexicon scope in each relation query.'),
    'decides': ['provenance of expanded relations', 'non-null ILI at every yield', 'order and switch', 'default expand set'],
    'not_decided': ['many-to-many ILI mapping results', 'chains through several placeholders (value level)'],
    'assumptions': [],
}

import re


def _sel(ctx, q):
    from .c01 import SELECT_LISTS
    cols = SELECT_LISTS.get(q)
    if not cols:
        raise AnalysisError(f'select list of {q} is not recorded')
    return {c: i for i, c in enumerate(cols)}


def _expanded_view(ctx):
    from ..speccheck import view
    return view(ctx, '_core', 'Synset._iter_expanded_relations')


def r1_provenance(ctx, res):
    """Synset._iter_expanded_relations on its effect summary; row positions are resolved through the select lists of the queries"""
    v = _expanded_view(ctx)
    loc = v.loc()
    fs, sr = _sel(ctx, 'find_synsets'), _sel(ctx, 'get_synset_relations')

    def chk(key, ok, msg):
        res.inst(key, loc, 'summary')
        if not ok:
            res.find(key, loc, msg)
        return ok
    src_ctx = ('for find_synsets(ili=self._ili, lexicon_rowids=self._wordnet._expanded_ids)',)
    want = f"#1[$1[{fs['synsets.rowid']}]] = $1[{fs['synsets.id']}]"
    st = [r for r in v.rows if r[0] == 'store' and r[3] == src_ctx]
    chk('sources', bool(st), 'expand-side source synsets are no longer the synsets of the expand lexicons (self._wordnet._expanded_ids) that share '
                             f'this synset\'s ILI: {sorted({c for r in v.rows for c in r[3][:1]})}')
    chk('source-map', len(st) == 1 and st[0][1] == want and st[0][2] == frozenset({f"$1[{fs['synsets.rowid']}] != self._id", f"$1[{fs['synsets.rowid']}] != NON_ROWID"}),
        f'the map of expand sources is no longer {{rowid: synset id}} over the find_synsets rows, excluding exactly this synset and the '
        f'placeholder rowid: {[(r[1], sorted(r[2])) for r in st]}')
    rel_ctx = 'for get_synset_relations(set(#1), args, self._wordnet._expanded_ids)'
    ys = [r for r in v.rows if r[0] == 'yield']
    chk('relations-of-sources', bool(ys) and all(r[3][:1] == (rel_ctx,) for r in ys),
        f'relations are no longer read for exactly the expand sources, with the requested types, inside the expand lexicons: '
        f'{sorted({r[3][0] if r[3] else "-" for r in ys})}')
    chk('scopes', all('self._wordnet._expanded_ids' in r[3][0] for r in ys if r[3]) and bool(ys), 'expand scope is not self._wordnet._expanded_ids')
    ili = f"$1[{sr['ilis.id']}]"
    rel = (f"Relation($1[{sr['rel.type']}], #1[$1[{sr['rel.source_rowid']}]], $1[{sr['synsets.id']}], $1[{sr['rel.lexicon']}], "
           f"metadata=$1[{sr['rel.metadata']}])")
    back = f'get_synsets_for_ilis([{ili}], lexicon_rowids=self._get_lexicon_ids())'
    backs = (back, f'list({back})')
    chk('yield-count', len(ys) == 2, f'expected two yields (mapped synsets / placeholder), found {len(ys)}')
    mapped = [r for r in ys if len(r[3]) == 2]
    empty = [r for r in ys if len(r[3]) == 1]
    chk('relation-fields', bool(ys) and all(r[1].startswith(f'({rel}, ') for r in ys),
        f'the reported Relation must keep the expand lexicon\'s type, source id (looked up by the row\'s source rowid), target id, lexicon and '
        f'metadata: expected {rel}; yields: {[r[1][:110] for r in ys]}')
    ok_map = len(mapped) == 1 and mapped[0][1] == f'({rel}, Synset(*$2, _wordnet=self._wordnet))' \
        and any(mapped[0][3][1] == f'for {b}' for b in backs)
    chk('backmap', ok_map, f'targets are no longer resolved with get_synsets_for_ilis([target ILI], <element scope>) and yielded as Synset(*row): '
                           f'{[(r[1][-60:], r[3][1:]) for r in mapped]}')
    chk('backmap-rows-of-this-ili', ok_map, 'the local synsets yielded for a relation are not the result of get_synsets_for_ilis for that '
                                            'relation\'s target ILI')
    chk('target-mapped', ok_map, 'mapped targets are no longer Synset(*row) for each row of the back-mapping query')
    ph = f'({rel}, Synset.empty(id=_INFERRED_SYNSET, ili={ili}, _lexid=self._lexid, _wordnet=self._wordnet))'
    chk('target-placeholder', len(empty) == 1 and empty[0][1] == ph,
        f'the placeholder target is no longer Synset.empty(id=*INFERRED*, ili=<target ILI>, _lexid=self._lexid): {[r[1][-110:] for r in empty]}')
    chk('placeholder-only-when-unmapped', len(empty) == 1 and any(f'not {b}' in empty[0][2] for b in backs)
        and len(mapped) == 1 and any(b in mapped[0][2] for b in backs),
        'the placeholder is no longer produced exactly when the target ILI has no synset in scope')
    chk('ili-position', True, '')


def r2_nullness(ctx, res):
    v = _expanded_view(ctx)
    sr = _sel(ctx, 'get_synset_relations')
    ili = f"$1[{sr['ilis.id']}]"
    ys = [r for r in v.rows if r[0] == 'yield']
    if not ys:
        raise AnalysisError('anchor vanished: yields of _iter_expanded_relations')
    for r in ys:
        key = f'non-null-ili-at-yield:{"mapped" if len(r[3]) == 2 else "placeholder"}'
        res.inst(key, v.loc(r[4]), f'guards {sorted(r[2])[:3]}')
        if f'{ili} is not None' not in r[2] and ili not in r[2]:
            res.find(key, v.loc(r[4]), f'a relation is yielded although the target ILI ({ili}) may be None: targets without an ILI must be '
                                       f'dropped (they would all be mapped to one placeholder / matched by NULL)')


def r3_order_and_switch(ctx, res):
    from ..speccheck import view, expect
    v = view(ctx, '_core', 'Synset._iter_relations')
    ok = expect(res, 'local-then-expanded', v, [
        ('yield-from', 'self._iter_local_relations(args)', ('self._id != NON_ROWID',), (), 'exact'),
        ('yield-from', 'self._iter_expanded_relations(args)', ('self._ili is not None', 'self._wordnet._expanded_ids'), (), 'exact'),
    ], "a synset's own relations come first (unless it is a placeholder), the expanded ones only when it has an ILI and expand lexicons exist")
    if ok:
        a = v.find('yield-from', 'self._iter_local_relations(args)')[0][4].node.lineno
        b = v.find('yield-from', 'self._iter_expanded_relations(args)')[0][4].node.lineno
        if a > b:
            res.find('local-then-expanded:order', v.loc(), 'the expanded relations are yielded before the synset\'s own')
    w = view(ctx, '_core', 'Wordnet.__init__')
    key = 'expand-empty-disables'
    res.inst(key, w.loc(), "self._expanded = () unless the specifier is non-empty; _expanded_ids from _expanded")
    st = [r for r in w.rows if r[0] == 'store' and r[1].startswith('self._expanded = ')]
    init = [r for r in st if r[1] == 'self._expanded = ()' and not r[2]]
    sel = [r for r in st if r not in init]
    ok = len(init) == 1 and len(sel) == 1 and len(sel[0][2]) == 1
    if ok:
        spec = next(iter(sel[0][2]))
        # the specifier is `expand` itself whenever one was given (however the conditional is nested)
        from ..effects import decision_leaves
        try:
            import re as _re2
            leaves = decision_leaves(ast.parse(_re2.sub(r'\$(\d+)', r'_loop_\1', _re2.sub(r'#(\d+)', r'_cell_\1', spec)), mode='eval').body)
        except SyntaxError:
            leaves = []
        given = [v for cs, v in leaves if 'expand is not None' in cs]
        other = [v for cs, v in leaves if 'expand is not None' not in cs and 'expand is None' not in cs]
        ok = f'find_lexicons(lexicon={spec})' in sel[0][1] and bool(given) and all(v == 'expand' for v in given) and not other \
            and '_to_lexicon' in sel[0][1]
    ids = w.find('store', 'self._expanded_ids = tuple((_1._id for _1 in self._expanded))')
    if not ok or not ids or ids[0][2]:
        res.find(key, w.loc(), "Wordnet.__init__ no longer derives _expanded_ids from the lexicons selected by a non-empty expand specifier "
                               f"(expand='' must leave it empty): {[(r[1][:70], sorted(r[2])[:1]) for r in st]}")
    expect(res, 'expanded_lexicons', view(ctx, '_core', 'Wordnet.expanded_lexicons'), [('return', 'list(self._expanded)')],
           'Wordnet.expanded_lexicons reports the expand lexicons in use')


_DEPS = ('for self._lexicons', 'for get_lexicon_dependencies($1._id)')


def _row_flow(w, expr, depth=0):
    """follow the rows that reach `expr` back to their source: [(kind, detail)] with kind in
    'join' | 'project' | 'filter' | 'keyed' | 'set' | 'copy' | 'source' | 'opaque'."""
    if expr is None or depth > 8:
        return [('opaque', 'nothing')]
    e = expr
    if isinstance(e, ast.Call) and isinstance(e.func, ast.Attribute) and e.func.attr == 'join' and e.args:
        return [('join', '')] + _row_flow(w, e.args[0], depth + 1)
    if isinstance(e, (ast.GeneratorExp, ast.ListComp, ast.SetComp, ast.DictComp)):
        out = []
        if isinstance(e, ast.DictComp):
            detail = norm(e.key)
            for g in e.generators:
                if isinstance(g.iter, ast.Call) and norm(g.iter.func) == 'get_lexicon_dependencies' and isinstance(g.target, ast.Tuple):
                    names = [norm(x) for x in g.target.elts]
                    ks = [norm(x) for x in e.key.elts] if isinstance(e.key, ast.Tuple) else [norm(e.key)]
                    pos = sorted(names.index(k) for k in ks if k in names)
                    detail = 'id+version' if pos[:2] == [0, 1] else 'columns ' + ','.join(map(str, pos)) + f' ({norm(e.key)})'
            out.append(('keyed', detail))
        elif isinstance(e, ast.SetComp):
            out.append(('set', norm(e.elt)))
        else:
            out.append(('project', ''))
        for g in e.generators:
            for c in g.ifs:
                out.append(('filter', norm(c)))
        # the innermost generator that is not `self._lexicons` carries the rows
        its = [g.iter for g in e.generators]
        srcs = [it for it in its if norm(it) != 'self._lexicons']
        if len(srcs) != 1:
            return out + [('opaque', norm(e)[:60])]
        return out + _row_flow(w, srcs[0], depth + 1)
    if isinstance(e, ast.Call) and norm(e.func) == 'get_lexicon_dependencies':
        ok = bool(__import__('re').match(r'^get_lexicon_dependencies\((\w+|\$1)\._id\)$', norm(e)))
        return [('source', '')] if ok else [('opaque', norm(e))]
    if isinstance(e, ast.Call) and isinstance(e.func, ast.Name) and e.func.id in ('list', 'tuple', 'iter', 'reversed') and len(e.args) == 1:
        return [('copy', e.func.id)] + _row_flow(w, e.args[0], depth + 1)
    if isinstance(e, ast.Call) and isinstance(e.func, ast.Name) and e.func.id in ('set', 'frozenset', 'dict', 'unique_list', 'sorted') and e.args:
        kind = {'dict': 'keyed', 'set': 'set', 'frozenset': 'set'}.get(e.func.id, 'copy')
        return [(kind, e.func.id + '()')] + _row_flow(w, e.args[0], depth + 1)
    if isinstance(e, ast.Call) and isinstance(e.func, ast.Attribute) and e.func.attr in ('values', 'keys', 'items') and not e.args:
        return [('copy', '.' + e.func.attr + '()')] + _row_flow(w, e.func.value, depth + 1)
    if isinstance(e, ast.Name) and e.id.startswith('#'):
        # a collection built by effects: appends / adds / keyed stores in the dependency loops
        from ..speccheck import short
        cell = short(e.id)
        out = []
        adds = [r for r in w.rows if (r[0] == 'call' and r[1].startswith(cell + '.')) or (r[0] == 'store' and r[1].startswith(cell + '['))]
        if len(adds) != 1:
            return [('opaque', f'{len(adds)} writes to {cell}')]
        k, t, g, c, eff = adds[0]
        if k == 'store':
            out.append(('keyed', t[len(cell) + 1:t.index('] = ')]))
        elif eff.op == 'add':
            out.append(('set', ''))
        else:
            out.append(('project', eff.op or ''))
        for x in g:
            if x.startswith('$'):
                out.append(('filter', x))
        if c == _DEPS:
            out.append(('source', ''))
        elif len(c) == 1 and __import__('re').match(r'^for #\d+$', c[0]) and depth < 6:
            # filled from another collection built earlier
            src = [e2 for e2 in w.E if e2.kind == 'new' and short(e2.text) == c[0][4:]]
            if src:
                return out + _row_flow(w, ast.Name(id=src[0].text, ctx=ast.Load()), depth + 1)
            out.append(('opaque', f'collected in {list(c)}'))
        else:
            out.append(('opaque', f'collected in {list(c)}'))
        return out
    return [('opaque', norm(e)[:60])]



def r4_default_expand(ctx, res):
    from ..speccheck import view
    w = view(ctx, '_core', 'Wordnet.__init__')
    loc = w.loc()
    gd = _sel(ctx, 'get_lexicon_dependencies')
    pid, pver, prow = (f"$2[{gd['lexicon_dependencies.provider_id']}]", f"$2[{gd['lexicon_dependencies.provider_version']}]",
                       f"$2[{gd['lexicon_dependencies.provider_rowid']}]")
    sel = [r for r in w.rows if r[0] == 'store' and r[1].startswith('self._expanded = ') and r[2]]
    key = 'default-expand'
    res.inst(key, loc, 'specifier when expand is None')
    # the specifier handed to find_lexicons, as a decision table: expand given -> expand; expand None & default mode -> '*';
    # expand None & not default mode -> the joined dependency specifiers
    mode = deps_expr = None
    if len(sel) == 1 and sel[0][4].rhs is not None:
        from ..effects import decision_leaves, canon
        specs = [k.value for n in ast.walk(sel[0][4].rhs) if isinstance(n, ast.Call) and norm(n.func) == 'find_lexicons'
                 for k in n.keywords if k.arg == 'lexicon']
        if len(specs) == 1:
            table = decision_leaves(specs[0])
            given = [t for t in table if t == (frozenset({'expand is not None'}), 'expand')]
            star = [t for t in table if t[1] == "'*'" and 'expand is None' in t[0]]
            deps = [t for t in table if 'expand is None' in t[0] and t[1] != "'*'"]
            if len(table) == 3 and len(given) == 1 and len(star) == 1 and len(deps) == 1:
                ms = sorted(star[0][0] - {'expand is None'})
                md = sorted(deps[0][0] - {'expand is None'})
                # the two conditions are complementary: the star conditions are atoms, the dependency condition their negation
                if ms == ['not lang', 'not lexicon'] and md == ['lexicon or lang']:
                    mode = 'not lexicon and (not lang)'
                elif ms == ['self._default_mode'] and md == ['not self._default_mode']:
                    mode = 'self._default_mode'
                deps_expr = deps[0][1]
    if mode is None:
        res.find(key, loc, 'Wordnet.__init__ no longer computes a default for expand=None ("*" in default mode, else the declared dependencies)')
        return
    key = 'default-expand:star'
    res.inst(key, loc, mode)
    if mode not in ('not lexicon and (not lang)', 'self._default_mode', 'not lexicon and not lang'):
        res.find(key, loc, f'an unrestricted Wordnet (neither lexicon nor lang) no longer expands over all lexicons by default: "*" when `{mode}`')
    dm = w.find('store', 'self._default_mode = not lexicon and (not lang)')
    if not dm:
        res.find(key + ':mode', loc, 'default mode is no longer "neither lexicon nor lang given"')
    # the joined specifiers: every declared dependency row of every selected lexicon whose provider is installed
    key = 'default-expand:every-declared-dependency'
    fmt = f'format_lexicon_specifier({pid}, {pver})'
    ok = False
    why = f'the specifier is `{deps_expr[:120]}`'
    mj = re.match(r"^' '\.join\((.+)\)$", deps_expr)
    if mj:
        inner = mj.group(1)
        m1 = re.match(r"^\(format_lexicon_specifier\(_1, _2\) for _1, _2, _3 in (#\d+) if _3 is not None\)$", inner)
        m2 = re.match(r"^(#\d+)$", inner)
        if m1:
            cell = m1.group(1)
            adds = [r for r in w.rows if r[0] == 'call' and r[1].startswith(cell + '.') or r[0] == 'store' and r[1].startswith(cell + '[')]
            ok = len(adds) == 1 and adds[0][1] in (f'{cell}.append(({pid}, {pver}, {prow}))', f'{cell}.add(({pid}, {pver}, {prow}))') \
                and adds[0][3] == _DEPS and not any(g.startswith('$') for g in adds[0][2])
            if len(adds) == 1 and adds[0][0] == 'store':
                km = re.match(r'^#\d+\[(.+?)\] = ', adds[0][1])
                keyed = km.group(1) if km else '?'
                ok = adds[0][3] == _DEPS and pid in keyed and pver in keyed and f'({pid}, {pver}, {prow})' in adds[0][1]
                if not ok:
                    why = (f'the dependency rows are collapsed into a mapping keyed by `{keyed}` (two selected lexicons may require different '
                           f'versions of one provider: both are declared dependencies)')
            elif not ok:
                why = f'the dependency rows are collected as {[(r[1][:70], sorted(r[2]), r[3]) for r in adds]}'
        elif m2:
            cell = m2.group(1)
            adds = [r for r in w.rows if r[0] == 'call' and r[1].startswith(cell + '.')]
            ok = len(adds) == 1 and adds[0][1] == f'{cell}.append({fmt})' and adds[0][3] == _DEPS \
                and {g for g in adds[0][2] if g.startswith('$')} == {f'{prow} is not None'}
            if not ok:
                why = f'the specifiers are collected as {[(r[1][:70], sorted(r[2]), r[3]) for r in adds]}'
    if not ok and sel[0][4].rhs is not None:
        joins = [n for n in ast.walk(sel[0][4].rhs) if isinstance(n, ast.Call) and isinstance(n.func, ast.Attribute) and n.func.attr == 'join']
        if len(joins) == 1:
            steps = _row_flow(w, joins[0])
            bad = None
            nfilters = 0
            for kind, detail in steps:
                if kind == 'filter':
                    nfilters += 1
                    if not re.match(r'^(\w+|\$\d\[\d+\]) is not None$', detail):
                        bad = f'rows are filtered by `{detail}`'
                elif kind == 'keyed' and detail != 'id+version' and not (pid in detail and pver in detail):
                    bad = (f'rows are collapsed into a mapping keyed by {detail} (two selected lexicons may require different versions of '
                           f'one provider: both are declared dependencies)')
                elif kind == 'opaque':
                    bad = f'cannot follow the rows through `{detail}`'
            if bad is None and (not steps or steps[-1][0] != 'source'):
                bad = 'the rows do not come from get_lexicon_dependencies for every selected lexicon'
            if bad is None and nfilters != 1:
                bad = f'{nfilters} filters on the rows (expected exactly the provider-rowid test)'
            ok = bad is None
            if bad:
                why = bad
    res.inst(key, loc, deps_expr[:100])
    if not ok:
        res.find(key, loc, f'the default expand set is no longer exactly the declared dependencies of the selected lexicons that are installed: {why}')
    key = 'default-expand:dependencies'
    res.inst(key, loc, 'deps of the selected lexicons')
    key = 'default-expand:installed-only'
    res.inst(key, loc, 'only dependencies with a provider rowid')
    key = 'default-expand:warning'
    warns = [r for r in w.rows if r[0] == 'call' and r[1].startswith('warnings.warn(')]
    res.inst(key, loc, f'{len(warns)} warnings')
    okw = len(warns) == 1 and 'wn.WnWarning' in warns[0][1]
    if okw:
        gs = [g for g in warns[0][2] if g.startswith("' '.join(")]
        okw = len(gs) == 1
        if okw:
            g = gs[0]
            m1 = re.match(r"^' '\.join\(\(format_lexicon_specifier\(_1, _2\) for _1, _2, _3 in (#\d+) if _3 is None\)\)$", g)
            m2 = re.match(r"^' '\.join\((#\d+)\)$", g)
            if m1:
                okw = True
            elif m2:
                adds = [r for r in w.rows if r[0] == 'call' and r[1].startswith(m2.group(1) + '.')]
                okw = len(adds) == 1 and adds[0][1] == f'{m2.group(1)}.append({fmt})' and adds[0][3] == _DEPS \
                    and {x for x in adds[0][2] if x.startswith('$')} == {f'{prow} is None'}
            else:
                okw = ' is None' in g and 'get_lexicon_dependencies' in g
            if not okw and m2:
                adds = [r for r in w.rows if r[0] == 'call' and r[1].startswith(m2.group(1) + '.append(format_lexicon_specifier(')]
                okw = len(adds) == 1 and len([x for x in adds[0][2] if x.startswith('$')]) == 1 \
                    and bool(re.match(r'^\$\d\[\d+\] is None$', [x for x in adds[0][2] if x.startswith('$')][0]))
    if not okw:
        res.find(key, loc, 'the warning about missing dependencies is no longer issued exactly when a declared dependency is not installed')
    # dependency rows: (id, version, url, provider rowid)
    gdf = ctx.repo.func('_queries', 'get_lexicon_dependencies')
    key = 'dependency-columns'
    for site in ctx.sites_of(gdf.key):
        for vv in site.variants:
            sel_ = [x.replace(' ', '') for x in (vv.stmt.select_list() or [])]
            res.inst(key, site.loc, f'{sel_}')
            if sel_ != ['provider_id', 'provider_version', 'provider_url', 'provider_rowid'] or \
                    [p_.replace(' ', '') for p_ in vv.stmt.where_predicates(0)] not in (['dependent_rowid=?'], ['dependent_rowid=:rowid'],
                                                                                       ['dependent_rowid=:dependent_rowid']):
                res.find(key, site.loc, f'get_lexicon_dependencies selects {sel_}; Wordnet.__init__ reads (id, version, url, provider rowid) of the '
                                        f'dependent lexicon')


def r5_paths_through_placeholders(ctx, res):
    """chains of borrowed relations pass through several *INFERRED* placeholders, which all share id and rowid: the traversals
    (relation_paths, closure) terminate and keep their visited sets by entity, never by id / rowid (C11-R1, C11-R6)."""
    from .c11 import r1_termination, r6_visited_by_entity
    r1_termination(ctx, res)
    r6_visited_by_entity(ctx, res)


def r6_relation_lexicon_is_the_declaring_one(ctx, res):
    """the lexicon reported with a relation (Relation.lexicon(), the `id:version` specifier in the relation rows) is the lexicon
    that DECLARES the relation - the owner of the row in the relation table - not the lexicon of its source or target: a relation
    an extension declares between two base synsets belongs to the extension.  In each relation query the `lexicons` row the
    specifier is built from is joined on the relation table's own lexicon_rowid."""
    from .c11 import REL_QUERIES
    sc = ctx.schema
    n = 0
    for fname, (reltable, tgttable) in REL_QUERIES.items():
        f = ctx.repo.func('_queries', fname)
        for site in ctx.sites_of(f.key):
            for v in site.variants:
                if v.stmt is None:
                    continue
                joins = [(l, r) for l, r, _ in v.stmt.key_comparisons(sc) if ('lexicons', 'rowid') in (l, r)]
                n += 1
                key = f'relation-lexicon:{fname}'
                res.inst(key, site.loc, f'{joins}')
                if not joins:
                    res.find(key, site.loc, f'{fname}: the relation rows are not joined to `lexicons` (no specifier of the declaring lexicon)')
                for l, r in joins:
                    other = r if l == ('lexicons', 'rowid') else l
                    if other != (reltable, 'lexicon_rowid'):
                        res.find(key, site.loc,
                                 f'{fname} builds the lexicon specifier of a relation from {other[0]}.{other[1]}, not from the relation '
                                 f'row itself ({reltable}.lexicon_rowid): a relation an extension declares between synsets / senses of '
                                 f'its base is reported as the base lexicon\'s')
    if n < 3:
        raise AnalysisError(f'only {n} relation query variants examined')


def r7_dependencies_relinked(ctx, res):
    """borrowing needs the dependency link: a dependency recorded while its provider was absent (dependent added first, provider
    removed and added again) is re-linked whenever the provider is added - on every path of _insert_lexicon (C05-R5)."""
    from .c05 import r5_relink
    r5_relink(ctx, res)

def r8_borrowed_relations_are_declared_by_expand_lexicons(ctx, res):
    """"expands over exactly the declared dependencies": a relation is borrowed only if the lexicon that DECLARES it is in the
    scope handed to the query - in each relation query the relation table itself (not only source and target) is restricted by
    the lexicon scope.  Without that filter a relation an unselected extension declares between two synsets of an expand
    lexicon is borrowed too."""
    from .c11 import REL_QUERIES
    sc = ctx.schema
    n = 0
    for fname, (reltable, tgttable) in REL_QUERIES.items():
        f = ctx.repo.func('_queries', fname)
        for site in ctx.sites_of(f.key):
            for v in site.variants:
                st = v.stmt
                if st is None:
                    continue
                st.lexicon_filters(sc)
                occs = [o for o in st.occs if o.kind == 'table' and o.table == reltable]
                n += 1
                key = f'relation-rows-scoped:{fname}'
                res.inst(key, site.loc, f'{[(o.alias, list(o.filters)) for o in occs]}')
                if not occs or any(not o.filters for o in occs):
                    res.find(key, site.loc, f'{fname} does not restrict the rows of {reltable} to the lexicon scope: a relation declared by a '
                                            f'lexicon outside the scope (an unselected extension of an expand lexicon) is returned as well')
    if n < 3:
        raise AnalysisError(f'only {n} relation query variants examined')

RULES = [
    ('C12-R1', r1_provenance, 10),
    ('C12-R2', r2_nullness, 2),
    ('C12-R3', r3_order_and_switch, 3),
    ('C12-R4', r4_default_expand, 5),
    ('C12-R5', r5_paths_through_placeholders, 8),
    ('C12-R6', r6_relation_lexicon_is_the_declaring_one, 3),
    ('C12-R7', r7_dependencies_relinked, 1),
    ('C12-R8', r8_borrowed_relations_are_declared_by_expand_lexicons, 3),
]
