"""C12 — relations borrowed through expand lexicons are mapped by ILI as documented (structural clauses)."""
from __future__ import annotations
import ast
from ..src import norm, walk_no_nested, AnalysisError
from ..pyutil import parents

META = {
    'title': 'Relations borrowed through expand lexicons are mapped by ILI as documented',
    'technique': 'provenance of yielded values by select-list position; nullness dominance at every yield; shape of the default-expand computation',
    'explanation': (
        'The many-to-many mapping results over all lexicon pairs are runtime values and are not decided. Decided: R1 provenance in '
        'Synset._iter_expanded_relations - source synsets come from find_synsets(ili=own ILI) scoped by _expanded_ids (own row and '
        'placeholder rowid excluded), their relations from get_synset_relations scoped by _expanded_ids, every yielded target is a '
        'row of get_synsets_for_ilis([target ILI], <element scope>) or Synset.empty carrying the target ILI, and the Relation is '
        'built from the expand row: type, source id (looked up by the row\'s source rowid), target id, lexicon, metadata - checked '
        'by select-list position, not by variable name; R2 at every yield the target-ILI variable is known non-None ("targets '
        'without an ILI are dropped"); R3 _iter_relations yields own relations first and the expanded ones only when the synset has '
        'an ILI and the Wordnet has expand ids; expand="" leaves _expanded_ids empty; R4 default expand: "*" in default mode, '
        'otherwise the installed declared dependencies of the selected lexicons, with a WnWarning iff some dependency is missing.'),
    'decides': ['provenance of expanded relations', 'non-null ILI at every yield', 'order and switch', 'default expand set'],
    'not_decided': ['many-to-many ILI mapping results', 'chains through several placeholders (value level)'],
    'assumptions': [],
}

SEL = ['rel.type', 'rel.lexicon', 'rel.metadata', 'rel.source_rowid', 'synsets.id', 'synsets.pos', 'ilis.id', 'synsets.lexicon_rowid',
       'synsets.rowid']


def r1_provenance(ctx, res):
    f = ctx.repo.func('_core', 'Synset._iter_expanded_relations')
    loc = f.module.loc(f.node)
    src = norm(f.node)

    def chk(key, ok, msg):
        res.inst(key, loc, 'provenance')
        if not ok:
            res.find(key, loc, msg)
    chk('scopes', 'lexids = self._get_lexicon_ids()' in src and 'expids = self._wordnet._expanded_ids' in src,
        '_iter_expanded_relations no longer takes its two scopes from self._get_lexicon_ids() and self._wordnet._expanded_ids')
    chk('sources', 'find_synsets(ili=self._ili, lexicon_rowids=expids)' in src,
        'expand-side source synsets are no longer the synsets of the expand lexicons that share this synset\'s ILI')
    # srcids maps rowid -> id, excluding the synset itself
    dc = [n for n in walk_no_nested(f.node) if isinstance(n, ast.DictComp)]
    ok = False
    for d in dc:
        tgt = d.generators[0].target
        if isinstance(tgt, ast.Tuple) and len(tgt.elts) == 5 and norm(d.key) == norm(tgt.elts[4]) and norm(d.value) == norm(tgt.elts[0]):
            conds = [norm(c) for c in d.generators[0].ifs]
            ok = conds == [f'{norm(tgt.elts[4])} not in (self._id, NON_ROWID)']
    chk('source-map', ok, 'the map of expand sources is no longer {rowid: synset id} over the find_synsets rows, excluding this synset and the '
                          'placeholder rowid')
    chk('relations-of-sources', 'get_synset_relations(set(srcids), args, expids)' in src,
        'relations are no longer read for exactly the expand sources, with the requested types, inside the expand lexicons')
    # the loop that unpacks relation rows
    loops = [n for n in walk_no_nested(f.node) if isinstance(n, ast.For) and isinstance(n.target, ast.Tuple) and len(n.target.elts) >= 7]
    if len(loops) != 1:
        chk('relation-loop', False, 'cannot find the loop that unpacks the relation rows')
        return
    lp = loops[0]
    names = []
    for e in lp.target.elts:
        names.append(norm(e.value) if isinstance(e, ast.Starred) else norm(e))
    pos = {nm: i for i, nm in enumerate(names)}
    rels = [n for n in ast.walk(lp) if isinstance(n, ast.Call) and norm(n.func) == 'Relation']
    chk('relation-built-once', len(rels) == 1, 'expected exactly one Relation(...) construction per expand row')
    if rels:
        r = rels[0]
        def col(e):
            nm = norm(e)
            return SEL[pos[nm]] if nm in pos and pos[nm] < len(SEL) else nm
        got = [col(a) for a in r.args]
        # source id: srcids[<source rowid variable>]
        if len(r.args) > 1 and isinstance(r.args[1], ast.Subscript) and norm(r.args[1].value) == 'srcids':
            got[1] = f'srcids[{col(r.args[1].slice)}]'
        kw = {k.arg: col(k.value) for k in r.keywords}
        want = ['rel.type', 'srcids[rel.source_rowid]', 'synsets.id', 'rel.lexicon']
        chk('relation-fields', got == want and kw == {'metadata': 'rel.metadata'},
            f'the reported Relation is built from {got} {kw}; it must keep the expand lexicon\'s type, source id, target id and lexicon '
            f'({want}, metadata=rel.metadata)')
    ili_var = names[6] if len(names) > 6 else None
    chk('ili-position', ili_var is not None and ili_var != '_', 'the target ILI (select-list position 7) is no longer unpacked')
    # targets
    backs = [n for n in ast.walk(lp) if isinstance(n, ast.Call) and norm(n.func) == 'get_synsets_for_ilis']
    chk('backmap', len(backs) == 1 and norm(backs[0]) == f'get_synsets_for_ilis([{ili_var}], lexicon_rowids=lexids)',
        f'targets are no longer resolved with get_synsets_for_ilis([target ILI], <element scope>): {[norm(b) for b in backs]}')
    # the rows that are yielded are the result of *this* row's back-mapping (a cache must be keyed by the target ILI)
    rows_src = [s2 for s2 in ast.walk(lp) if isinstance(s2, ast.Assign) and norm(s2.targets[0]) == 'local_ss_rows']
    ok_rows = False
    for s2 in rows_src:
        v = s2.value
        if any(isinstance(x, ast.Call) and norm(x.func) == 'get_synsets_for_ilis' for x in ast.walk(v)):
            ok_rows = True
        elif isinstance(v, ast.Subscript) and norm(v.slice) == ili_var:
            ok_rows = True
        else:
            ok_rows = False
            break
    chk('backmap-rows-of-this-ili', bool(rows_src) and ok_rows,
        'the local synsets yielded for a relation are not (directly, or through a cache keyed by the target ILI) the result of '
        'get_synsets_for_ilis for that relation\'s target ILI')
    yields = [n for n in ast.walk(lp) if isinstance(n, ast.Yield)]
    chk('yield-count', len(yields) == 2, f'expected two yields (mapped synsets / placeholder), found {len(yields)}')
    ok_map = ok_empty = False
    for y in yields:
        if isinstance(y.value, ast.Tuple) and len(y.value.elts) == 2:
            t = y.value.elts[1]
            tt = norm(t)
            if tt == 'Synset(*row, _wordnet=_wn)':
                for p in parents(y):
                    if isinstance(p, ast.For) and norm(p.target) == 'row' and norm(p.iter) == 'local_ss_rows':
                        ok_map = True
            v = t
            if isinstance(t, ast.Name):
                for s in ast.walk(lp):
                    if isinstance(s, ast.Assign) and norm(s.targets[0]) == t.id:
                        v = s.value
            if isinstance(v, ast.Call) and norm(v.func) == 'Synset.empty':
                kws = {k.arg: norm(k.value) for k in v.keywords}
                if kws == {'id': '_INFERRED_SYNSET', 'ili': ili_var, '_lexid': 'self._lexid', '_wordnet': '_wn'}:
                    ok_empty = True
    chk('target-mapped', ok_map, 'mapped targets are no longer Synset(*row) for each row of the back-mapping query')
    chk('target-placeholder', ok_empty, 'the placeholder target is no longer Synset.empty(id=*INFERRED*, ili=<target ILI>, _lexid=self._lexid)')
    ifs = [n for n in ast.walk(lp) if isinstance(n, ast.If) and norm(n.test) == 'local_ss_rows']
    chk('placeholder-only-when-unmapped', len(ifs) == 1 and ifs[0].orelse != [], 'the placeholder is no longer produced exactly when the target ILI has no '
                                                                                  'synset in scope')


def r2_nullness(ctx, res):
    f = ctx.repo.func('_core', 'Synset._iter_expanded_relations')
    loops = [n for n in walk_no_nested(f.node) if isinstance(n, ast.For) and isinstance(n.target, ast.Tuple) and len(n.target.elts) >= 7]
    if len(loops) != 1:
        raise AnalysisError('anchor vanished: relation-row loop of _iter_expanded_relations')
    lp = loops[0]
    ili_var = norm(lp.target.elts[6])
    guard_idx = None
    for i, st in enumerate(lp.body):
        if isinstance(st, ast.If) and norm(st.test) in (f'{ili_var} is None', f'not {ili_var}') and st.body \
                and isinstance(st.body[-1], ast.Continue) and not st.orelse:
            guard_idx = i
            break
    for y in [n for n in ast.walk(lp) if isinstance(n, ast.Yield)]:
        key = f'non-null-ili-at-yield:{norm(y)[:50]}'
        top = y
        while getattr(top, '_parent', None) is not lp:
            top = top._parent
        idx = lp.body.index(top)
        res.inst(key, f.module.loc(y), f'guard at statement {guard_idx}, yield in statement {idx}')
        ok = guard_idx is not None and guard_idx < idx
        if not ok:
            # alternative: the yield sits inside `if ili is not None:`
            for p in parents(y):
                if isinstance(p, ast.If) and norm(p.test) in (f'{ili_var} is not None', ili_var):
                    ok = True
        if not ok:
            res.find(key, f.module.loc(y), f'a relation is yielded although the target ILI `{ili_var}` may be None: targets without an ILI must '
                                           f'be dropped (they would all be mapped to one placeholder / matched by NULL)')


def r3_order_and_switch(ctx, res):
    f = ctx.repo.func('_core', 'Synset._iter_relations')
    body = [s for s in f.node.body if not (isinstance(s, ast.Expr) and isinstance(s.value, ast.Constant))]
    key = 'local-then-expanded'
    res.inst(key, f.module.loc(f.node), f'{[norm(s)[:60] for s in body]}')
    ok = len(body) == 2 and all(isinstance(s, ast.If) for s in body) \
        and norm(body[0].test) == 'self._id != NON_ROWID' and norm(body[0].body[0]) == 'yield from self._iter_local_relations(args)' \
        and norm(body[1].test) == 'self._ili is not None and self._wordnet._expanded_ids' \
        and norm(body[1].body[0]) == 'yield from self._iter_expanded_relations(args)'
    if not ok:
        res.find(key, f.module.loc(f.node), '_iter_relations no longer yields the synset\'s own relations first and the expanded ones only when it '
                                            'has an ILI and expand lexicons exist')
    wi = ctx.repo.func('_core', 'Wordnet.__init__')
    s = norm(wi.node)
    key = 'expand-empty-disables'
    res.inst(key, wi.module.loc(wi.node), "if expand: self._expanded = ...; _expanded_ids from _expanded")
    ok = 'self._expanded: tuple[Lexicon, ...] = ()' in s and 'self._expanded = tuple(map(_to_lexicon, find_lexicons(lexicon=expand)))' in s \
        and 'self._expanded_ids: tuple[int, ...] = tuple((lx._id for lx in self._expanded))' in s
    ifs = [n for n in walk_no_nested(wi.node) if isinstance(n, ast.If) and norm(n.test) == 'expand']
    if not ok or len(ifs) != 1:
        res.find(key, wi.module.loc(wi.node), "Wordnet.__init__ no longer derives _expanded_ids from the lexicons selected by a non-empty expand "
                                              "specifier (expand='' must leave it empty)")
    el = ctx.repo.func('_core', 'Wordnet.expanded_lexicons')
    key = 'expanded_lexicons'
    res.inst(key, el.module.loc(el.node), 'list(self._expanded)')
    if 'return list(self._expanded)' not in norm(el.node):
        res.find(key, el.module.loc(el.node), 'Wordnet.expanded_lexicons no longer reports the expand lexicons in use')


def _row_flow(func, expr, scope_stmts, depth=0):
    """follow the rows that reach `expr` back to their source: [(kind, detail)] with kind in
    'join' | 'project' | 'filter' | 'keyed' | 'set' | 'copy' | 'source' | 'opaque'."""
    if expr is None or depth > 8:
        return [('opaque', 'nothing')]
    e = expr
    if isinstance(e, ast.Call) and isinstance(e.func, ast.Attribute) and e.func.attr == 'join' and e.args:
        return [('join', '')] + _row_flow(func, e.args[0], scope_stmts, depth + 1)
    if isinstance(e, (ast.GeneratorExp, ast.ListComp, ast.SetComp, ast.DictComp)):
        out = []
        if isinstance(e, ast.DictComp):
            out.append(('keyed', norm(e.key)))
        elif isinstance(e, ast.SetComp):
            out.append(('set', norm(e.elt)))
        else:
            out.append(('project', ''))
        for g in e.generators:
            for c in g.ifs:
                out.append(('filter', norm(c)))
        # the innermost generator that is not `self._lexicons` carries the rows
        its = [g.iter for g in e.generators]
        srcs = [it for it in its if norm(it) != 'self._lexicons']
        if len(srcs) != 1:
            return out + [('opaque', norm(e)[:60])]
        return out + _row_flow(func, srcs[0], scope_stmts, depth + 1)
    if isinstance(e, ast.Call) and norm(e.func) == 'get_lexicon_dependencies':
        ok = norm(e) == 'get_lexicon_dependencies(lex._id)'
        return [('source', '')] if ok else [('opaque', norm(e))]
    if isinstance(e, ast.Call) and isinstance(e.func, ast.Name) and e.func.id in ('list', 'tuple', 'iter', 'reversed') and len(e.args) == 1:
        return [('copy', e.func.id)] + _row_flow(func, e.args[0], scope_stmts, depth + 1)
    if isinstance(e, ast.Call) and isinstance(e.func, ast.Name) and e.func.id in ('set', 'frozenset', 'dict', 'unique_list', 'sorted') and e.args:
        kind = {'dict': 'keyed', 'set': 'set', 'frozenset': 'set'}.get(e.func.id, 'copy')
        return [(kind, e.func.id + '()')] + _row_flow(func, e.args[0], scope_stmts, depth + 1)
    if isinstance(e, ast.Call) and isinstance(e.func, ast.Attribute) and e.func.attr in ('values', 'keys', 'items') and not e.args:
        return [('copy', '.' + e.func.attr + '()')] + _row_flow(func, e.func.value, scope_stmts, depth + 1)
    if isinstance(e, ast.Name):
        assigns = [n for st in scope_stmts for n in ast.walk(st) if isinstance(n, (ast.Assign, ast.AnnAssign)) and n.value is not None
                   and any(isinstance(t, ast.Name) and t.id == e.id for t in (n.targets if isinstance(n, ast.Assign) else [n.target]))]
        if len(assigns) == 1:
            return _row_flow(func, assigns[0].value, scope_stmts, depth + 1)
        return [('opaque', f'{len(assigns)} assignments to {e.id}')]
    return [('opaque', norm(e)[:60])]


def r4_default_expand(ctx, res):
    wi = ctx.repo.func('_core', 'Wordnet.__init__')
    loc = wi.module.loc(wi.node)
    s = norm(wi.node)
    outer = [n for n in walk_no_nested(wi.node) if isinstance(n, ast.If) and norm(n.test) == 'expand is None']
    key = 'default-expand'
    res.inst(key, loc, 'if expand is None: default mode -> "*", else installed dependencies')
    if len(outer) != 1:
        res.find(key, loc, 'Wordnet.__init__ no longer computes a default for expand=None')
        return
    o = outer[0]
    inner = o.body[0] if o.body and isinstance(o.body[0], ast.If) else None
    if inner is None or norm(inner.test) != 'self._default_mode' or [norm(x) for x in inner.body] != ["expand = '*'"]:
        res.find(key + ':star', loc, 'an unrestricted Wordnet no longer expands over all lexicons ("*") by default')
        return
    els = norm(ast.Module(body=inner.orelse, type_ignores=[]))
    key = 'default-expand:dependencies'
    res.inst(key, loc, 'deps of the selected lexicons')
    if 'for lex in self._lexicons' not in els or 'get_lexicon_dependencies(lex._id)' not in els:
        res.find(key, loc, 'a restricted Wordnet no longer takes its default expand set from the declared dependencies of the selected lexicons')
    key = 'default-expand:installed-only'
    res.inst(key, loc, 'only dependencies with a provider rowid')
    joins = [n for n in ast.walk(ast.Module(body=inner.orelse, type_ignores=[])) if isinstance(n, ast.Assign) and norm(n.targets[0]) == 'expand']
    ok = len(joins) == 1 and '_id is not None' in norm(joins[0].value) and 'format_lexicon_specifier(id, ver)' in norm(joins[0].value)
    if not ok:
        res.find(key, loc, 'the default expand specifier is no longer built from exactly the dependencies that are installed '
                           '(provider rowid not None)')
    # row flow: every (id, version) row of get_lexicon_dependencies reaches the join; the only filter is the provider rowid
    key = 'default-expand:every-declared-dependency'
    steps = _row_flow(wi, joins[0].value if joins else None, inner.orelse)
    res.inst(key, loc, ' <- '.join(st[0] + (f'[{st[1]}]' if st[1] else '') for st in steps))
    src_ok = bool(steps) and steps[-1][0] == 'source'
    bad = None
    for kind, detail in steps:
        if kind == 'filter' and detail.replace(' ', '') not in ('_idisnotNone', 'notNoneis_id'):
            bad = f'rows are filtered by `{detail}`'
        elif kind == 'keyed' and not ('id' in detail.replace('_id', '').replace(' ', '').strip('()').split(',') and 'ver' in detail):
            bad = f'rows are collapsed into a mapping keyed by `{detail}` (two selected lexicons may require different versions of one provider: both are declared dependencies)'
        elif kind == 'opaque':
            bad = f'cannot follow the rows through `{detail}`'
    if not src_ok and bad is None:
        bad = 'the rows joined into the specifier do not come from get_lexicon_dependencies(lex._id) for lex in self._lexicons'
    if bad:
        res.find(key, loc, f'the default expand set is no longer exactly the declared dependencies of the selected lexicons that are installed: {bad}')
    key = 'default-expand:warning'
    res.inst(key, loc, 'WnWarning iff some dependency is missing')
    warns = [n for n in ast.walk(ast.Module(body=inner.orelse, type_ignores=[])) if isinstance(n, ast.Call) and norm(n.func) == 'warnings.warn']
    ok = len(warns) == 1 and 'wn.WnWarning' in norm(warns[0])
    if ok:
        g = None
        for p in parents(warns[0]):
            if isinstance(p, ast.If) and norm(p.test) == 'missing':
                g = p
        ms = [n for n in ast.walk(ast.Module(body=inner.orelse, type_ignores=[])) if isinstance(n, ast.Assign) and norm(n.targets[0]) == 'missing']
        ok = g is not None and len(ms) == 1 and '_id is None' in norm(ms[0].value)
    if not ok:
        res.find(key, loc, 'the warning about missing dependencies is no longer issued exactly when a declared dependency is not installed')
    # dependency rows: (id, version, url, provider rowid)
    gd = ctx.repo.func('_queries', 'get_lexicon_dependencies')
    key = 'dependency-columns'
    for site in ctx.sites_of(gd.key):
        for v in site.variants:
            sel = [x.replace(' ', '') for x in (v.stmt.select_list() or [])]
            res.inst(key, site.loc, f'{sel}')
            if sel != ['provider_id', 'provider_version', 'provider_url', 'provider_rowid'] or \
                    [p.replace(' ', '') for p in v.stmt.where_predicates(0)] != ['dependent_rowid=?']:
                res.find(key, site.loc, f'get_lexicon_dependencies selects {sel}; Wordnet.__init__ unpacks (id, version, url, provider rowid) of the '
                                        f'dependent lexicon')
    if 'for id, ver, _, _id in get_lexicon_dependencies(lex._id)' not in s:
        res.find(key + ':unpack', loc, 'Wordnet.__init__ no longer unpacks dependency rows as (id, version, url, provider rowid)')


RULES = [
    ('C12-R1', r1_provenance, 13),
    ('C12-R2', r2_nullness, 2),
    ('C12-R3', r3_order_and_switch, 3),
    ('C12-R4', r4_default_expand, 5),
]
