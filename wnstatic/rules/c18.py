"""C18 — the validator always produces a report and each check is exact (structural clauses)."""
from __future__ import annotations
import ast
import re
from ..src import norm, walk_no_nested, AnalysisError
from ..model import SubscriptChecker
from ..consts import const, Unknown, module_consts
from ..rowshape import insert_bindings
from ..pyutil import binding_sites, parents

META = {
    'title': 'The validator always produces a report and each check is exact',
    'technique': 'model-typed subscript safety + membership-dominance for data-dependent keys; registry vs documented table; literal folding of the relation tables; effect summaries of the reference / blank checks',
    'explanation': (
        'Exactness of each of the eighteen predicates against their informal description is value-level; R7 decides agreement with a reviewed reference. Decided: R1 totality - in wn/validate.py no '
        'function reachable from validate() can raise KeyError/TypeError on a loadable lexicon: (S1) x[k] on a model-typed value '
        'only for keys the model requires, (S2) a subscript with a data-dependent key on a locally built or constant mapping is '
        'dominated by a membership test on the same key, (S3) the result of .get(k) without default is never used as receiver or '
        'iterable without an or-fallback, constant keys of `ids` exist in the display that builds it; R2 the _codes registry has '
        'exactly the codes of the documented table, each bound to a distinct (lex, ids) function with a docstring, _select_checks '
        'keeps a check iff its code or category letter is selected, and the report is built by one loop over the selected checks; '
        'R3 REVERSE_RELATIONS is an involution inside the relation inventories and each inventory is closed under it; R4 the four '
        'reference columns behind E204/E401 are NOT NULL and filled by a bare id->rowid sub-select in a plain INSERT, and the '
        'sense-relation splitter raises for unknown targets, so add() rejects what these checks report; R7 for every check '
        'registered in _codes and the helpers they share, the effects that decide the reported item set (stores into the result with '
        'their conditions and loops, auxiliary collections with their initial values, returns) equal the reference table '
        'wnstatic/rules/c18_checks.py, which was confirmed by reading each predicate against the check\'s description. R8 the exit status of `wn validate`: the verdict starts true, is only cleared by a lexicon with findings, and decides sys.exit.'),
    'decides': ['validator cannot raise KeyError / None errors', 'registry = documented table', 'reverse-relation involution',
                'NOT NULL reference columns => add rejects', 'blank-text predicates', 'each check predicate = reviewed reference'],
    'not_decided': ['that the reviewed reference predicates themselves match the informal descriptions (confirmed by reading, not by analysis)'],
    'assumptions': ['load() guarantees the required keys of the model (C20-R3)'],
}


# ---------------------------------------------------------------------------
# membership facts for S2

def _mem_facts(test, positive=True):
    """set of (item text, container text) known `item in container` when test is truthy/falsy."""
    out = set()
    if isinstance(test, ast.BoolOp) and isinstance(test.op, ast.And) and positive:
        for v in test.values:
            out |= _mem_facts(v, True)
    elif isinstance(test, ast.BoolOp) and isinstance(test.op, ast.Or) and not positive:
        for v in test.values:
            out |= _mem_facts(v, False)
    elif isinstance(test, ast.UnaryOp) and isinstance(test.op, ast.Not):
        out |= _mem_facts(test.operand, not positive)
    elif isinstance(test, ast.Compare) and len(test.ops) == 1:
        if (isinstance(test.ops[0], ast.In) and positive) or (isinstance(test.ops[0], ast.NotIn) and not positive):
            out.add((norm(test.left), norm(test.comparators[0])))
    return out


class KeyWalker:
    """visits every Subscript load with a non-constant key together with the membership facts that dominate it."""

    def __init__(self, func, on_sub):
        self.func, self.on_sub = func, on_sub

    def run(self):
        self.block(self.func.node.body, set())

    def expr(self, e, facts):
        if isinstance(e, ast.BoolOp):
            f = set(facts)
            for v in e.values:
                self.expr(v, f)
                f |= _mem_facts(v, isinstance(e.op, ast.And))
            return
        if isinstance(e, ast.IfExp):
            self.expr(e.test, facts)
            self.expr(e.body, facts | _mem_facts(e.test, True))
            self.expr(e.orelse, facts | _mem_facts(e.test, False))
            return
        if isinstance(e, (ast.ListComp, ast.SetComp, ast.GeneratorExp, ast.DictComp)):
            f = set(facts)
            for g in e.generators:
                self.expr(g.iter, f)
                for c in g.ifs:
                    self.expr(c, f)
                    f |= _mem_facts(c, True)
            if isinstance(e, ast.DictComp):
                self.expr(e.key, f)
                self.expr(e.value, f)
            else:
                self.expr(e.elt, f)
            return
        if isinstance(e, ast.Lambda):
            return
        if isinstance(e, ast.Subscript) and isinstance(e.ctx, ast.Load) and not isinstance(e.slice, (ast.Constant, ast.Slice)):
            self.on_sub(e, facts)
        for c in ast.iter_child_nodes(e):
            if isinstance(c, ast.expr):
                self.expr(c, facts)

    def block(self, stmts, facts):
        facts = set(facts)
        for s in stmts:
            if isinstance(s, ast.If):
                self.expr(s.test, facts)
                self.block(s.body, facts | _mem_facts(s.test, True))
                self.block(s.orelse, facts | _mem_facts(s.test, False))
                leaves = (ast.Continue, ast.Return, ast.Raise, ast.Break)
                if s.body and isinstance(s.body[-1], leaves):
                    facts |= _mem_facts(s.test, False)
                elif s.orelse and isinstance(s.orelse[-1], leaves):
                    facts |= _mem_facts(s.test, True)
            elif isinstance(s, (ast.For, ast.AsyncFor)):
                self.expr(s.iter, facts)
                self.block(s.body, facts)
                self.block(s.orelse, facts)
            elif isinstance(s, ast.While):
                self.expr(s.test, facts)
                self.block(s.body, facts)
            elif isinstance(s, (ast.With, ast.AsyncWith)):
                for it in s.items:
                    self.expr(it.context_expr, facts)
                self.block(s.body, facts)
            elif isinstance(s, ast.Try):
                self.block(s.body, facts)
                for h in s.handlers:
                    self.block(h.body, facts)
                self.block(s.finalbody, facts)
            elif isinstance(s, (ast.FunctionDef, ast.AsyncFunctionDef, ast.ClassDef)):
                pass
            elif isinstance(s, ast.Assert):
                self.expr(s.test, facts)
                facts |= _mem_facts(s.test, True)
            else:
                for c in ast.iter_child_nodes(s):
                    if isinstance(c, ast.expr):
                        self.expr(c, facts)


def _reachable_validate_funcs(ctx):
    v = ctx.repo.func('validate', 'validate')
    mod = ctx.repo.mod('validate')
    funcs = {f.key: f for f in mod.funcs.values() if '.' not in f.qualname}   # the checks are reached through the _codes registry
    return v, mod, funcs


def r1_totality(ctx, res):
    v, mod, funcs = _reachable_validate_funcs(ctx)
    model = ctx.model
    n1 = n2 = n3 = 0
    consts = module_consts(mod, ctx.repo)
    for f in funcs.values():
        # S1
        def on(node, t, st, guarded, f=f):
            nonlocal n1
            n1 += 1
            key = f'S1:{f.key}:{norm(node)}'
            res.inst(key, f.module.loc(node), f'{st} on {t!r}')
            if st in ('opt', 'absent') and not guarded:
                res.find(key, f.module.loc(node), f'`{norm(node)}` in validate.{f.qualname}: key {node.slice.value!r} is not guaranteed by the '
                                                  f'model ({t!r}): a loadable lexicon without it makes validate() raise KeyError instead '
                                                  f'of reporting')
        SubscriptChecker(model, ctx, f, on).run()

        # S2
        def on2(node, facts, f=f):
            nonlocal n2
            base = node.value
            if not isinstance(base, ast.Name):
                return
            is_map = False
            cv = consts.get(base.id)
            if isinstance(cv, dict):
                is_map = True
            imp = mod.imports.get(base.id)
            if imp and imp[0] == 'obj' and imp[1] in ctx.repo.modules:
                ov = module_consts(ctx.repo.modules[imp[1]], ctx.repo).get(imp[2])
                if isinstance(ov, dict):
                    is_map = True
            for s in binding_sites(f.node, base.id):
                if s[0] == 'assign' and isinstance(s[1], (ast.Dict, ast.DictComp)):
                    is_map = True
                if s[0] == 'assign' and isinstance(s[1], ast.Call) and norm(s[1].func) in ('dict', 'Counter', 'defaultdict'):
                    is_map = norm(s[1].func) == 'dict'
            if not is_map:
                return
            n2 += 1
            key = f'S2:{f.key}:{norm(node)}'
            res.inst(key, f.module.loc(node), f'facts {sorted(facts)[:3]}')
            if (norm(node.slice), base.id) not in facts:
                res.find(key, f.module.loc(node),
                         f'`{norm(node)}` in validate.{f.qualname}: the key comes from the document and nothing on this path guarantees '
                         f'`{norm(node.slice)} in {base.id}`: a dangling reference makes validate() raise KeyError instead of producing '
                         f'its report')
        KeyWalker(f, on2).run()
        # S3
        for node in walk_no_nested(f.node):
            if isinstance(node, ast.Call) and isinstance(node.func, ast.Attribute) and node.func.attr == 'get' and len(node.args) == 1 \
                    and not node.keywords:
                par = getattr(node, '_parent', None)
                used = None
                if isinstance(par, ast.Attribute) and par.value is node:
                    used = 'receiver'
                elif isinstance(par, ast.Subscript) and par.value is node:
                    used = 'subscripted'
                elif isinstance(par, (ast.For, ast.comprehension)) and par.iter is node:
                    used = 'iterated'
                if used:
                    n3 += 1
                    key = f'S3:{f.key}:{norm(node)}'
                    res.inst(key, f.module.loc(node), used)
                    res.find(key, f.module.loc(node), f'`{norm(node)}` may be None but is {used} directly in validate.{f.qualname}')
                elif isinstance(par, ast.BoolOp) and isinstance(par.op, ast.Or):
                    n3 += 1
                    res.inst(f'S3:{f.key}:{norm(node)}', f.module.loc(node), 'or-fallback')
    # constant keys of ids
    disp = None
    for n in [x for g in mod.funcs.values() for x in walk_no_nested(g.node)]:
        if isinstance(n, ast.Return) and isinstance(n.value, ast.Dict) or isinstance(n, (ast.Assign, ast.AnnAssign)) and isinstance(n.value, ast.Dict):
            ks = {k.value for k in n.value.keys if isinstance(k, ast.Constant)}
            if ks and all(isinstance(x, ast.Call) and norm(x.func) == 'Counter' for x in n.value.values):
                disp = ks
    if disp is None:
        raise AnalysisError('anchor vanished: the display of id Counters in validate()')
    for f in funcs.values():
        for node in walk_no_nested(f.node):
            if isinstance(node, ast.Subscript) and isinstance(node.value, ast.Name) and node.value.id == 'ids' \
                    and isinstance(node.slice, ast.Constant):
                key = f'ids-key:{f.key}:{node.slice.value}'
                res.inst(key, f.module.loc(node), 'key of the ids table')
                if node.slice.value not in disp:
                    res.find(key, f.module.loc(node), f"`ids[{node.slice.value!r}]` but validate() builds ids with keys {sorted(disp)}")
    res.note(f'S1 {n1} model subscripts, S2 {n2} data-keyed lookups, S3 {n3} .get() uses in {len(funcs)} functions')
    if n1 < 60:
        raise AnalysisError(f'only {n1} model-typed subscripts resolved in wn/validate.py')


# ---------------------------------------------------------------------------

def r2_registry(ctx, res):
    mod = ctx.repo.mod('validate')
    doc = ast.get_docstring(mod.tree) or ''
    documented = dict(re.findall(r'^([EW]\d{3})\s+(.+?)\s*$', doc, flags=re.M))
    codes_node = None
    for n in mod.tree.body:
        if isinstance(n, (ast.Assign, ast.AnnAssign)):
            tg = n.targets[0] if isinstance(n, ast.Assign) else n.target
            if isinstance(tg, ast.Name) and tg.id == '_codes' and isinstance(n.value, ast.Dict):
                codes_node = n.value
    if codes_node is None:
        raise AnalysisError('anchor vanished: validate._codes')
    reg = {}
    for k, v in zip(codes_node.keys, codes_node.values):
        if isinstance(k, ast.Constant):
            reg[k.value] = norm(v)
    key = 'registry-codes'
    res.inst(key, mod.relpath, f'{len(reg)} registered, {len(documented)} documented')
    if set(reg) != set(documented):
        res.find(key, mod.relpath, f'registered check codes differ from the documented table: only registered {sorted(set(reg) - set(documented))}, '
                                   f'only documented {sorted(set(documented) - set(reg))}')
    if len(set(reg.values())) != len(reg):
        dup = sorted(v for v in set(reg.values()) if list(reg.values()).count(v) > 1)
        res.find(key + ':distinct', mod.relpath, f'several codes are bound to the same function: {dup}')
    for code, fname in sorted(reg.items()):
        k2 = f'registry:{code}'
        f = mod.funcs.get(fname)
        res.inst(k2, mod.relpath, fname)
        if f is None:
            res.find(k2, mod.relpath, f'{code} is bound to `{fname}`, which is not a function of wn/validate.py')
            continue
        if [p for p in f.params] != ['lex', 'ids']:
            res.find(k2, mod.loc(f.node), f'check {fname} has parameters {f.params}, the registry calls func(lex, ids)')
        if not ast.get_docstring(f.node):
            res.find(k2, mod.loc(f.node), f'check {fname} has no docstring: its report message is empty')
        else:
            # the message documented for the code and the docstring describe the same check (first word match, case-insensitive)
            d = ast.get_docstring(f.node).strip().lower().rstrip('.')
            want = documented.get(code, '').strip().lower().rstrip('.')
            if want and d != want:
                res.find(k2 + ':message', mod.loc(f.node), f'{code} is documented as "{documented.get(code)}" but bound to the check '
                                                            f'"{ast.get_docstring(f.node)}"')
    from ..speccheck import view, expect
    expect(res, 'select-checks', view(ctx, 'validate', '_select_checks'), [
        ('call', "#1.append(($1[0], $1[1], $1[1].__doc__ or ''))", ('$1[0] in set(select) or $1[0][0] in set(select)',), ('for _codes.items()',), 'exact'),
        ('return', '#1'),
    ], '_select_checks keeps a check iff its code or its category letter is selected, with its docstring as the message')
    vv = view(ctx, 'validate', 'validate')
    key = 'report-loop'
    stores = [r for r in vv.rows if r[0] == 'store' and r[1].startswith("#2[$1[0]] = {'message': $1[2], 'items': $1[1](")]
    res.inst(key, vv.loc(), f'{len(stores)} report stores')
    if len(stores) != 1 or stores[0][3] != ('for _select_checks(select)',) or stores[0][2] != frozenset({"not lex.get('extends')"}) \
            or not vv.find('return', '#2', ("not lex.get('extends')",)):
        res.find(key, vv.loc(), 'validate() no longer builds report[code] = {message, items: check(lex, ids)} for every selected check '
                                '(_select_checks(select)) and returns that report')
    v = ctx.repo.func('validate', 'validate')
    for t in [n for n in walk_no_nested(v.node) if isinstance(n, ast.Try)]:
        res.find(key + ':try', mod.loc(t), 'validate() wraps checks in try/except: failures would be hidden instead of reported')
    key = 'ids-table'
    ids = "{'entry': Counter((_1['id'] for _1 in LEX.get('entries', []))), 'sense': Counter((_3['id'] for _2 in LEX.get('entries', []) " \
          "for _3 in _2.get('senses', []))), 'synset': Counter((_4['id'] for _4 in LEX.get('synsets', [])))}"
    res.inst(key, vv.loc(), 'entry / sense / synset id counters passed to every check')
    if stores and not any(ids.replace('LEX', lx) in stores[0][1] for lx in ('cast(lmf.Lexicon, lex)', 'lex')):
        res.find(key, vv.loc(), 'the checks no longer receive {entry, sense, synset} id Counters built from the entries, their senses and '
                                'the synsets of the lexicon')


def r3_relation_tables(ctx, res):
    rev = const(ctx.repo, 'constants', 'REVERSE_RELATIONS')
    inv = {n: const(ctx.repo, 'constants', n) for n in ('SENSE_RELATIONS', 'SENSE_SYNSET_RELATIONS', 'SYNSET_RELATIONS')}
    if isinstance(rev, Unknown) or any(isinstance(v, Unknown) for v in inv.values()):
        raise AnalysisError(f'cannot fold the relation tables of wn/constants.py: {rev if isinstance(rev, Unknown) else inv}')
    allrel = set().union(*inv.values())
    for k, v in sorted(rev.items()):
        key = f'reverse:{k}'
        res.inst(key, 'wn/constants.py', f'{k} <-> {v}')
        if rev.get(v) != k:
            res.find(key, 'wn/constants.py', f'REVERSE_RELATIONS is not an involution: {k!r} -> {v!r} but {v!r} -> {rev.get(v)!r} '
                                             f'(W404 would report a missing reverse that can never be satisfied)')
        if k not in allrel or v not in allrel:
            res.find(key + ':inventory', 'wn/constants.py', f'{k!r}/{v!r} is not in any relation inventory')
    for name, s in inv.items():
        if name == 'SENSE_SYNSET_RELATIONS':
            continue
        for k in sorted(s):
            if k in rev:
                key = f'closed:{name}:{k}'
                res.inst(key, 'wn/constants.py', f'{name} closed under reversal')
                if rev[k] not in s:
                    res.find(key, 'wn/constants.py', f'{name} contains {k!r} but not its reverse {rev[k]!r}')


REF_COLUMNS = [('senses', 'synset_rowid', 'E204'), ('synset_relations', 'target_rowid', 'E401'),
               ('sense_relations', 'target_rowid', 'E401'), ('sense_synset_relations', 'target_rowid', 'E401')]


def r4_rejected_by_add(ctx, res):
    sc = ctx.schema
    for t, c, code in REF_COLUMNS:
        key = f'notnull:{t}.{c}'
        col = sc.col(t, c) if t in sc.tables else None
        res.inst(key, 'wn/schema.sql', f'{code}: {t}.{c} NOT NULL')
        if col is None or not col.notnull:
            res.find(key, 'wn/schema.sql', f'{t}.{c} is not NOT NULL: a lexicon with a dangling reference ({code}) is added with a NULL '
                                           f'reference instead of being rejected')
        found = False
        for b in insert_bindings(ctx):
            if b.table != t:
                continue
            for sl in b.slots:
                if sl.column != c:
                    continue
                found = True
                k2 = f'bare-subselect:{t}.{c}'
                res.inst(k2, b.site.loc, sl.text[:80])
                st = b.variant.stmt
                if st.or_clause is not None or st.on_conflict() is not None:
                    res.find(k2, b.site.loc, f'INSERT OR {st.or_clause} INTO {t}: rows with an unresolvable reference are skipped silently '
                                             f'instead of failing the add')
                if sl.kind != 'subselect' or re.search(r'coalesce|ifnull|\bor\b', sl.text, flags=re.I):
                    res.find(k2, b.site.loc, f'{t}.{c} is not filled by a bare id->rowid sub-select (`{sl.text[:60]}`): an unresolvable id '
                                             f'no longer yields NULL -> IntegrityError')
        if not found:
            res.find(key + ':binding', 'wn/_add.py', f'no INSERT binds {t}.{c}')
    f = ctx.repo.func('_add', '_insert_sense_relations')
    key = 'splitter-raises'
    res.inst(key, f.module.loc(f.node), 'unknown sense-relation target raises wn.Error')
    if not any(isinstance(n, ast.Raise) and 'wn.Error' in norm(n) for n in walk_no_nested(f.node)):
        res.find(key, f.module.loc(f.node), 'the sense-relation splitter no longer raises for a target that is neither a sense nor a synset')


def r5_reference_predicates(ctx, res):
    """E204 / E401 test references exactly the way the importer resolves them: a sense's synset and a synset relation's
    target must be synset ids; a sense relation's target a sense id or a synset id (the importer's three-way split)."""
    from ..speccheck import view, expect
    item = "#1[$1[0]['id']] = {'type': $1[1]['relType'], 'target': $1[1]['target']}"
    expect(res, 'E401', view(ctx, 'validate', '_missing_relation_target'), [
        ('store', item, ("$1[1]['target'] not in ids['sense']", "$1[1]['target'] not in ids['synset']"), ('for _sense_relations(lex)',), 'exact'),
        ('store', item, ("$1[1]['target'] not in ids['synset']",), ('for _synset_relations(lex)',), 'exact'),
        ('return', '#1'),
    ], 'E401 lists a sense relation whose target is neither a sense id nor a synset id, and a synset relation whose target is not a synset '
       'id (the importer resolves synset-relation targets in `synsets` only)')
    expect(res, 'E204', view(ctx, 'validate', '_missing_synset'), [
        ('store', "#1[$2['id']] = {'synset': $2['synset']}", ("$2['synset'] not in ids['synset']",),
         ("for lex.get('entries', [])", "for $1.get('senses', [])"), 'exact'),
        ('return', '#1'),
    ], 'E204 lists every sense whose synset is not a synset id of the lexicon')


BLANK_CHECKS = {'W305': ('_blank_synset_definition', 'definitions'), 'W306': ('_blank_synset_example', 'examples')}


def r6_blank_predicates(ctx, res):
    """W305 / W306 list the synsets with a *blank* definition / example: text that is empty or consists of whitespace only
    (the loader keeps whitespace verbatim under xml:space="preserve", and in-memory resources are not normalised at all).
    Necessary shape: the predicate looks at the text through a whitespace-insensitive operation (strip / isspace / split),
    over every item of the list (any), for every synset."""
    for code, (fname, lst) in BLANK_CHECKS.items():
        f = ctx.repo.func('validate', fname)
        key = f'blank-predicate:{code}'
        texts = [n for n in ast.walk(f.node) if isinstance(n, ast.Subscript) and isinstance(n.slice, ast.Constant) and n.slice.value == 'text']
        res.inst(key, f.module.loc(f.node), f'{len(texts)} uses of [\'text\']')
        if not texts:
            res.find(key, f.module.loc(f.node), f'{code} ({fname}) no longer looks at the text of the {lst}')
            continue
        for t in texts:
            par = getattr(t, '_parent', None)
            ws = isinstance(par, ast.Attribute) and par.attr in ('strip', 'isspace', 'split') and isinstance(getattr(par, '_parent', None), ast.Call) \
                and not par._parent.args
            if not ws:
                res.find(key, f.module.loc(t), f'{code} ({fname}) tests `{norm(getattr(par, "_parent", par) if par is not None else t)[:60]}`: a text that consists of '
                                               f'whitespace only is blank but is no longer reported (the condition must go through '
                                               f'strip()/isspace())')
        key = f'blank-domain:{code}'
        from ..speccheck import view
        v = view(ctx, 'validate', fname)
        st = [r for r in v.rows if r[0] == 'store' and r[1] == "#1[$1['id']] = {}"]
        res.inst(key, f.module.loc(f.node), f'{[sorted(r[2]) for r in st]}')
        if len(st) != 1 or st[0][3] != ("for lex.get('synsets', [])",) or len(st[0][2]) != 1 \
                or not next(iter(st[0][2])).startswith('any((') or f"for _1 in $1.get('{lst}', [])" not in next(iter(st[0][2])):
            res.find(key, f.module.loc(f.node), f'{code} no longer ranges over every item of `{lst}` of every synset of the lexicon')


# ---------------------------------------------------------------------------
# R7: the set of items each check reports

CHECK_HELPERS = ['_multiples', '_sense_relations', '_synset_relations', '_get_dc_type']


def check_functions(ctx):
    """names of the functions registered in _codes (in registry order) followed by the shared helpers"""
    val = ctx.repo.mod('validate')
    names = []
    for node in val.tree.body:
        tgt = node.targets[0] if isinstance(node, ast.Assign) else getattr(node, 'target', None)
        if isinstance(node, (ast.Assign, ast.AnnAssign)) and isinstance(tgt, ast.Name) and tgt.id == '_codes' and isinstance(node.value, ast.Dict):
            for v in node.value.values:
                if isinstance(v, ast.Name) and v.id not in names:
                    names.append(v.id)
    if len(names) < 15:
        raise AnalysisError(f'only {len(names)} check functions found in validate._codes')
    return names + [h for h in CHECK_HELPERS if h in val.funcs]


def decisive_rows(ctx, name):
    """the effects that decide which items a check reports: (kind, text, sorted guards, loops)"""
    from ..speccheck import view
    v = view(ctx, 'validate', name)
    out = []
    for k, t, g, c, e in v.rows:
        if k in ('store', 'aug', 'return', 'yield', 'yield-from', 'raise', 'del') or (k == 'call' and t.startswith('#')):
            out.append((k, t, tuple(sorted(g)), tuple(c)))
        elif k == 'new':
            # the initial value of a collection / record is part of what is reported
            out.append((k, e.text, tuple(sorted(g)), tuple(c)))
    return sorted(out)


def r7_check_predicates(ctx, res):
    """each check reports exactly the items its description names: the effects that decide the reported set (stores into the
    result with their conditions and loops, auxiliary collections, returns) equal the reviewed reference table."""
    from .c18_checks import PREDICATES
    from ..speccheck import view
    names = check_functions(ctx)
    for name in names:
        key = f'predicate:{name}'
        v = view(ctx, 'validate', name)
        want = PREDICATES.get(name)
        res.inst(key, v.loc(), f'{len(want)} decisive effects' if want is not None else
                 'added after the review: no reference predicate, not decided (tools/gen_c18_checks.py)')
        if want is None:
            continue
        got = decisive_rows(ctx, name)
        want = sorted(tuple(r) for r in want)
        if got != want:
            extra = [r for r in got if r not in want]
            missing = [r for r in want if r not in got]
            fmt = lambda r: f'{r[0]} {r[1][:100]}' + (f' when {list(r[2])}' if r[2] else '') + (f' in {list(r[3])}' if r[3] else '')   # noqa: E731
            res.find(key, v.loc(), f'{name} no longer reports exactly the reviewed item set: '
                                   + (f'now `{fmt(extra[0])}`' if extra else 'an effect was removed')
                                   + (f'; reviewed `{fmt(missing[0])}`' if missing else ''))
    reviewed = [n_ for n_ in PREDICATES if n_ in names]
    if len(reviewed) < 15:
        raise AnalysisError(f'anchor vanished: only {len(reviewed)} of the {len(PREDICATES)} reviewed checks are still registered in validate._codes')


def r8_cli_exit_status(ctx, res):
    """`python -m wn validate FILE` exits 0 exactly when NO lexicon of the file has a finding: the verdict variable starts true,
    is only ever cleared (under "this lexicon's report has items"), and decides the exit status.  On the effect summary of
    __main__._validate."""
    from ..speccheck import view
    import re
    v = view(ctx, '__main__', '_validate')
    key = 'cli-exit-status'
    exits = [r for r in v.rows if r[0] == 'call' and 'sys.exit' in r[1]]
    m = re.fullmatch(r'sys\.exit\(0\) if (#\d+) else sys\.exit\(1\)', exits[0][1]) if len(exits) == 1 else None
    m2 = re.fullmatch(r'sys\.exit\(0 if (#\d+) else 1\)', exits[0][1]) if len(exits) == 1 else None
    m = m or m2
    res.inst(key, v.loc(), f'{[r[1] for r in exits]}')
    if not m or exits[0][2] or exits[0][3]:
        res.find(key, v.loc(), f'_validate no longer ends with sys.exit(0 if <verdict> else 1) unconditionally: {[r[1] for r in exits]}')
        return
    cell = m.group(1)
    news = [e for e in v.E if e.kind == 'new' and e.text.startswith(cell + '<')]
    stores = [r for r in v.rows if r[0] in ('store', 'aug') and re.match(re.escape(cell) + r'\b', r[1])]
    res.inst(key + ':verdict', v.loc(), f'init {[e.text for e in news]}; stores {[(r[1], sorted(r[2])) for r in stores]}')
    ok = len(news) == 1 and news[0].text == f'{cell}<True>' and len(stores) >= 1 \
        and all(r[1] == f'{cell} = False' and len(r[2]) == 1 and 'any(' in next(iter(r[2])) and ".get('items'" in next(iter(r[2]))
                and not next(iter(r[2])).startswith('not ') for r in stores)
    if not ok:
        res.find(key + ':verdict', v.loc(), f'the exit verdict of `wn validate` is no longer "true until some lexicon has a finding": '
                                            f'init {[e.text for e in news]}, updates {[(r[1], sorted(r[2])) for r in stores]} - a file '
                                            f'whose last lexicon is clean exits 0 although an earlier one failed')

RULES = [
    ('C18-R1', r1_totality, 70),
    ('C18-R2', r2_registry, 20),
    ('C18-R3', r3_relation_tables, 80),
    ('C18-R4', r4_rejected_by_add, 9),
    ('C18-R5', r5_reference_predicates, 2),
    ('C18-R6', r6_blank_predicates, 4),
    ('C18-R7', r7_check_predicates, 20),
    ('C18-R8', r8_cli_exit_status, 2),
]
