"""C05 — database content depends only on which lexicons are installed."""
from __future__ import annotations
import ast
from ..src import norm, walk_no_nested, AnalysisError
from ..pyutil import parents, binding_sites, get_arg, resolve_value
from ..txn import write_sites

META = {
    'title': 'Database content depends only on which lexicons are installed',
    'technique': 'foreign-key graph closure of schema.sql; dominance of PRAGMA foreign_keys; who-may-write over all SQL call sites; effect summaries (name-free normal form of a function: locals inlined, positional loop variables, cells, comprehension = loop, helpers expanded) of remove(), _precheck and _add_lexical_resource (every write guarded by the skip map)',
    'explanation': (
        'History equivalence itself is not statically decidable; the check decides the mechanisms it rests on. '
        'R1: in the FK graph of the current schema every owned table is reachable from lexicons through ON DELETE '
        'CASCADE edges, every table with a lexicon_rowid cascades on it, and every FK into an owned table is '
        'CASCADE or SET NULL (explicit exception: lexicon_extensions.base_rowid). R2: PRAGMA foreign_keys = ON '
        'dominates the store of a new connection into the pool and nothing turns it off. R3: only the importer '
        '(functions of wn/_add.py reachable from add / add_lexical_resource / remove) and _db._init_db send '
        'DML/DDL; everything else is SELECT or a whitelisted PRAGMA. R4: remove() deletes all transitive '
        'extensions (unbounded depth, untruncated) and then the lexicon. R5: _insert_lexicon always re-links '
        'waiting dependencies and inserts dependency rows with the provider looked up by (id, version). '
        'R6: the skip test dominates every write of a lexicon. R10: _update_lookup_tables registers, unconditionally and '
        'unfiltered, the relation types of all synset relations (external synsets included) and all sense relations of the '
        'lexicon being added, so no later sub-select depends on lookup rows left by other lexicons. R11: no INSERT of the '
        'importer uses REPLACE conflict handling, and OR IGNORE only on the shared lookup tables. R12 a content table without an owner column receives rows only from local elements or through a parent keyed by the lexicon being added (known findings: tags, pronunciations). R13 lexicon look-ups by id also constrain the version. R14 the importer never modifies its input (C07-R3 on _add). R15 remove() deletes what the specifier means: the limit / order / match analysis of find_lexicons (C08-R2, C08-R3). R13 also: find_lexicons calls of the importer pass id and version. R16 the skip decision of _precheck depends on look-ups in `lexicons` only. R17 the SQLite progress callback of remove() returns nothing (C06-R9).'),
    'decides': ['cascade closure', 'FK enforcement per connection', 'single writer', 'remove shape', 'dependency relink',
                'skip dominance', 'no state outside the database', 'lookup tables complete for the lexicon being added'],
    'not_decided': ['equality of database images across histories', 'rowid reuse effects'],
    'assumptions': ['SQLite enforces declared foreign keys when the pragma is on'],
}

# FKs into owned tables that deliberately have no ON DELETE action
NO_ACTION_OK = {
    ('lexicon_extensions', 'base_rowid'): 'NO ACTION by design: removing a base lexicon before its extensions is blocked; '
                                         'remove() deletes the extensions first',
}
PRAGMA_OK = {'foreign_keys', 'synchronous', 'journal_mode', 'table_info', 'foreign_key_list', 'index_list'}


def r1_cascade_closure(ctx, res):
    sc = ctx.schema
    owned = sc.owned_tables()
    reach = sc.cascade_reachable()
    for t in sorted(owned - {'lexicons'}):
        key = f'cascade-reach:{t}'
        res.inst(key, 'wn/schema.sql', f'{t} reachable from lexicons through ON DELETE CASCADE')
        if t not in reach:
            res.find(key, 'wn/schema.sql', f'table {t} refers to lexicon content but is not reachable from lexicons '
                                           f'through ON DELETE CASCADE foreign keys: its rows survive their lexicon')
    for fk in sc.fks:
        if fk.ref_table not in owned:
            continue
        key = f'fk-action:{fk.table}.{fk.column}'
        res.inst(key, 'wn/schema.sql', repr(fk))
        if fk.column == 'lexicon_rowid' and fk.on_delete != 'CASCADE':
            res.find(key, 'wn/schema.sql', f'{fk.table}.lexicon_rowid is ON DELETE {fk.on_delete}: rows owned by a removed '
                                           f'lexicon are not deleted with it')
        elif fk.on_delete not in ('CASCADE', 'SET NULL') and (fk.table, fk.column) not in NO_ACTION_OK:
            res.find(key, 'wn/schema.sql', f'{fk.table}.{fk.column} -> {fk.ref_table} has ON DELETE {fk.on_delete}: removing the '
                                           f'referenced row either fails or leaves a dangling reference')
        elif fk.on_delete == 'SET NULL' and sc.col(fk.table, fk.column).notnull:
            res.find(key, 'wn/schema.sql', f'{fk.table}.{fk.column} is NOT NULL but ON DELETE SET NULL')
    # every column named *_rowid (the schema's naming convention for row references) is a declared FK
    for t in sorted(sc.tables):
        for c in sc.tables[t]:
            if c.name.endswith('_rowid'):
                key = f'fk-declared:{t}.{c.name}'
                res.inst(key, 'wn/schema.sql', 'rowid reference declared as a foreign key')
                if not any(fk.table == t and fk.column == c.name for fk in sc.fks):
                    res.find(key, 'wn/schema.sql', f'{t}.{c.name} holds a row reference but declares no foreign key: '
                                                   f'it is neither cascaded nor checked')


def r2_fk_enforcement(ctx, res):
    cf = ctx.repo.func('_db', 'connect')
    key = 'pragma-foreign-keys-on'
    res.inst(key, cf.module.loc(cf.node), 'PRAGMA foreign_keys = ON dominates the pool store')
    stores = [n for n in walk_no_nested(cf.node) if isinstance(n, ast.Assign)
              and any(isinstance(t, ast.Subscript) and norm(t.value) == 'pool' for t in n.targets)]
    if not stores:
        res.find(key, cf.module.loc(cf.node), 'connect() no longer stores connections in the pool (anchor changed)')
    for st in stores:
        block = _block_of(st)
        idx = block.index(st)
        ok = False
        for prev in block[:idx]:
            if isinstance(prev, ast.Expr) and _is_fk_on(prev.value, st):
                ok = True
        if not ok:
            res.find(key, cf.module.loc(st),
                     'a new connection is pooled without `PRAGMA foreign_keys = ON` having been executed on it on '
                     'every path: ON DELETE CASCADE silently stops working and removals leave residue')
    # nothing turns it off
    for s in ctx.sites:
        for v in s.variants:
            if v.stmt is not None and v.stmt.verb == 'PRAGMA':
                k2 = f'pragma:{s.func.key}:{" ".join(v.sql.split())[:50]}'
                res.inst(k2, s.loc, 'PRAGMA statement')
                txt = ' '.join(v.sql.split()).lower()
                if 'foreign_keys' in txt and any(x in txt.replace(' ', '') for x in ('=off', '=0', '=false', '=no')):
                    res.find(k2, s.loc, 'foreign key enforcement is switched off')
                if v.stmt.target and v.stmt.target.lower() not in PRAGMA_OK:
                    res.find(k2, s.loc, f'PRAGMA {v.stmt.target} is not in the whitelist of harmless pragmas')
                if 'defer_foreign_keys' in txt or 'ignore_check_constraints' in txt or 'writable_schema' in txt:
                    res.find(k2, s.loc, 'integrity-weakening pragma')


def _block_of(stmt):
    p = getattr(stmt, '_parent', None)
    for fld in ('body', 'orelse', 'finalbody'):
        b = getattr(p, fld, None)
        if isinstance(b, list) and stmt in b:
            return b
    return [stmt]


def _is_fk_on(e, store):
    if not (isinstance(e, ast.Call) and isinstance(e.func, ast.Attribute) and e.func.attr == 'execute' and e.args):
        return False
    a = e.args[0]
    if not (isinstance(a, ast.Constant) and isinstance(a.value, str)):
        return False
    txt = a.value.lower().replace(' ', '')
    if txt.rstrip(';') not in ('pragmaforeign_keys=on', 'pragmaforeign_keys=1', 'pragmaforeign_keys=true'):
        return False
    # executed on the object that gets pooled
    recv = norm(e.func.value)
    return recv == norm(store.value)


def r3_single_writer(ctx, res):
    entries = [ctx.repo.func('_add', n) for n in ('add', 'add_lexical_resource', 'remove')]
    reach = ctx.cg.reachable(entries)
    n = 0
    for s in ctx.sites:
        n += 1
        key = f'writer:{s.func.key}:{s.attr}:{_verbs(s)}'
        res.inst(key, s.loc, f'{_verbs(s)}')
        if s.attr == 'executescript' or (s.unresolved and not s.variants):
            if s.func.key != '_db._init_db':
                res.find(key, s.loc, f'{s.func.qualname} sends SQL that cannot be resolved / a script '
                                     f'({[repr(u) for u in s.unresolved][:2]}); only _db._init_db may run the schema script')
            continue
        if s.unresolved:
            res.find(key, s.loc, f'some statement variants of {s.func.qualname} cannot be resolved: {s.unresolved[:2]}')
        writes = [v for v in s.variants if v.stmt is not None and v.stmt.is_write]
        if not writes:
            continue
        ok = (s.func.module.short == '_add' and s.func.key in reach) or s.func.key == '_db._init_db'
        if not ok:
            res.find(key, s.loc,
                     f'{s.func.key} can modify the database ({writes[0].stmt.verb} {writes[0].stmt.target}) but is not part of '
                     f'the importer (add / add_lexical_resource / remove) nor the schema initialisation: content would no '
                     f'longer be a function of the installed lexicons, and read-only calls would not be read-only')
    if n < 40:
        raise AnalysisError(f'only {n} SQL call sites found')


def _verbs(s):
    vs = sorted({f'{v.stmt.verb} {v.stmt.target or ""}'.strip() for v in s.variants if v.stmt is not None})
    return ','.join(vs) or 'unresolved'


def r4_remove_shape(ctx, res):
    rm = ctx.repo.func('_add', 'remove')
    fae = ctx.repo.try_func('_add', '_find_all_extensions')
    key = 'remove-all-extensions'
    res.inst(key, rm.module.loc(rm.node), 'remove deletes all transitive extensions, then the lexicon')
    # locate the call of get_lexicon_extensions reachable from remove
    reach = ctx.cg.reachable([rm])
    gle = ctx.repo.func('_queries', 'get_lexicon_extensions')
    calls = [(c, call) for c, call in ctx.cg.callers_of(gle) if c.key in reach and c.module.short == '_add']
    if not calls:
        res.find(key, rm.module.loc(rm.node), 'remove() no longer queries the extensions of the lexicon it removes: '
                                              'extensions (and what they contributed) survive their base')
    for c, call in calls:
        d = get_arg(call, gle, 'depth')
        if d is not None:
            v = d
            neg = isinstance(v, ast.UnaryOp) and isinstance(v.op, ast.USub)
            if not neg:
                res.find(key, c.module.loc(call), f'extensions are looked up with depth={norm(d)}: second-level extensions are '
                                                  f'not removed with their base')
        par = getattr(call, '_parent', None)
        if isinstance(par, ast.Subscript):
            res.find(key, c.module.loc(call), f'the list of extensions is truncated: `{norm(par)}`')
    # each extension found is deleted, then the lexicon: DELETE FROM lexicons WHERE rowid = ?  (effect summary of remove();
    # a private helper that issues the statement is expanded in place)
    import re as _re
    from ..speccheck import view
    rv = view(ctx, '_add', 'remove')
    dele = [r for r in rv.rows if r[0] in ('call', 'eval') and _re.search(r"\.execute\((f?['\"])\s*DELETE\s+from\s+(\w+)", r[1], _re.I)]
    k2 = 'remove-deletes'
    res.inst(k2, rv.loc(), f'{len(dele)} DELETE effects in remove()')
    tables = {_re.search(r"DELETE\s+from\s+(\w+)", r[1], _re.I).group(1).lower() for r in dele}
    lex_loop = 'for list(find_lexicons(lexicon=lexicon))'
    ext = [r for r in dele if len([c for c in r[3] if c.startswith('for ')]) == 2]
    own = [r for r in dele if len([c for c in r[3] if c.startswith('for ')]) == 1]
    if tables != {'lexicons'} or len(ext) != 1 or len(own) != 1 or any(r[3][0] != lex_loop for r in dele):
        res.find(k2, rv.loc(), f'remove() is expected to delete every extension row and then the lexicon row from `lexicons`, once per matched '
                               f'lexicon (found {[(r[1][-60:], r[3]) for r in dele]})')
    for r in dele:
        m = _re.search(r"WHERE\s+(.+?)['\"],\s*\((.+?),\)\)$", r[1], _re.I)
        if not m or m.group(1).replace(' ', '') != 'rowid=?':
            res.find(k2 + ':where', rv.loc(r[4]), f'DELETE in remove() is not keyed by a single rowid: `{r[1][-70:]}`')
    k3 = 'remove-extension-loop'
    res.inst(k3, rv.loc(), f'{[r[3] for r in ext]}')
    if ext:
        inner = [c for c in ext[0][3] if c.startswith('for ')][1]
        m = _re.match(r'^for (reversed\()?(#\d+)\)?$', inner)
        if not m:
            res.find(k3, rv.loc(ext[0][4]), f'the loop over the extensions is truncated or altered: `{inner}`')
        else:
            cell = m.group(2)
            fill = [r for r in rv.rows if r[0] == 'call' and r[1].startswith(cell + '.append(($2, ')]
            if len(fill) != 1 or len(fill[0][3]) != 2 or fill[0][3][0] != lex_loop or fill[0][2] \
                    or fill[0][3][1] not in ('for get_lexicon_extensions($1[0])', 'for get_lexicon_extensions($1[0], depth=-1)'):
                res.find(k3, rv.loc(ext[0][4]), f'the extensions deleted are no longer all of get_lexicon_extensions(<rowid of the lexicon>): '
                                                f'{[(r[1][:40], r[3], sorted(r[2])) for r in fill]}')
            if m.group(0) and not _re.search(r"\(\$2\[0\],\)\)$", ext[0][1]):
                res.find(k3, rv.loc(ext[0][4]), f'the extension loop does not delete the extension row: `{ext[0][1][-50:]}`')
        if any(r[0] == 'break' and r[3][:len(ext[0][3])] == ext[0][3] for r in rv.rows):
            res.find(k3, rv.loc(ext[0][4]), 'the loop over the extensions is cut short by a break')
    if own and not _re.search(r"\(\$1\[0\],\)\)$", own[0][1]):
        res.find(k2 + ':own', rv.loc(own[0][4]), f'the lexicon row itself is not deleted by its rowid: `{own[0][1][-50:]}`')


def r5_relink(ctx, res):
    il = ctx.repo.func('_add', '_insert_lexicon')
    key = 'relink-waiting-dependencies'
    res.inst(key, il.module.loc(il.node), 'UPDATE lexicon_dependencies SET provider_rowid on every path')
    ups = [s for s in ctx.sites if s.func.key == il.key
           and any(v.stmt is not None and v.stmt.verb == 'UPDATE' and v.stmt.target == 'lexicon_dependencies' for v in s.variants)]
    if not ups:
        res.find(key, il.module.loc(il.node), '_insert_lexicon no longer re-links dependency rows that were waiting for this '
                                              'lexicon (provider_rowid stays NULL after the provider is added)')
    for s in ups:
        # unconditional: the statement is a direct child of the function body
        stmt = s.node
        while getattr(stmt, '_parent', None) is not il.node and getattr(stmt, '_parent', None) is not None:
            stmt = stmt._parent
            if isinstance(stmt, (ast.If, ast.For, ast.While, ast.Try)):
                res.find(key, s.loc, f'the re-link UPDATE is conditional ({type(stmt).__name__}): not executed on every path')
                break
        for v in s.variants:
            if v.stmt is None:
                continue
            if v.stmt.update_set_columns() != ['provider_rowid']:
                res.find(key + ':set', s.loc, f'UPDATE lexicon_dependencies sets {v.stmt.update_set_columns()}')
            preds = sorted(p.replace(' ', '') for p in v.stmt.where_predicates(0))
            import re as _re
            cols = sorted(_re.sub(r'=(\?|:\w+)$', '', p) for p in preds)
            if cols != ['provider_id', 'provider_version'] or not all(_re.search(r'=(\?|:\w+)$', p) for p in preds):
                res.find(key + ':where', s.loc, f're-link UPDATE matches on {preds}; expected provider_id and provider_version')
            if v.params[0] == 'named' and isinstance(s.node.args[1] if len(s.node.args) > 1 else None, ast.Dict):
                # named parameters: {<name in SET>: new rowid, <name for provider_id>: lexicon['id'], <... version>: lexicon['version']}
                d = s.node.args[1]
                val = {k.value: norm(x) for k, x in zip(d.keys, d.values) if isinstance(k, ast.Constant)}
                setn = _re.search(r'provider_rowid\s*=\s*:(\w+)', ' '.join(v.sql.split()))
                by = {}
                for p in preds:
                    mm = _re.match(r'(\w+)=:(\w+)$', p)
                    if mm:
                        by[mm.group(1)] = mm.group(2)
                got = [val.get(setn.group(1)) if setn else None, val.get(by.get('provider_id')), val.get(by.get('provider_version'))]
                if got[1:] != ["lexicon['id']", "lexicon['version']"] or got[0] is None or not _is_new_rowid(il, got[0]):
                    res.find(key + ':params', s.loc, f're-link UPDATE binds {got}; expected (new lexicon rowid, lexicon id, lexicon version)')
            if v.params[0] == 'pos':
                got = [t for _, t in v.params[1]]
                want_tail = ["lexicon['id']", "lexicon['version']"]
                if len(got) != 3 or got[1:] != want_tail or not _is_new_rowid(il, got[0]):
                    res.find(key + ':params', s.loc, f're-link UPDATE binds {got}; expected (new lexicon rowid, lexicon id, lexicon version)')
    # dependency rows: provider looked up by (id, version) of the same dependency
    ins = [s for s in ctx.sites if s.func.key == il.key
           and any(v.stmt is not None and v.stmt.verb == 'INSERT' and v.stmt.target in ('lexicon_dependencies', 'lexicon_extensions')
                   for v in s.variants)]
    seen = set()
    for s in ins:
        for v in s.variants:
            if v.stmt is None or v.stmt.verb != 'INSERT':
                continue
            seen.add(v.stmt.target)
            k2 = f'dependency-insert:{v.stmt.target}'
            res.inst(k2, s.loc, 'provider/base rowid looked up by (id, version)')
            slots = v.stmt.insert_slots() or []
            texts = [' '.join(v.stmt.toks[k] for k in idxs).replace(' ', '') for idxs in slots]
            if len(texts) != 5 or texts[:4] != [':lid', ':id', ':version', ':url'] \
                    or texts[4].lower() != '(selectrowidfromlexiconswhereid=:idandversion=:version)':
                res.find(k2, s.loc, f'dependency row is inserted as {texts}; expected (:lid, :id, :version, :url, '
                                    f'(SELECT rowid FROM lexicons WHERE id=:id AND version=:version))')
    k3 = 'dependency-inserts-present'
    res.inst(k3, il.module.loc(il.node), f'{sorted(seen)}')
    if seen != {'lexicon_dependencies', 'lexicon_extensions'}:
        res.find(k3, il.module.loc(il.node), f'_insert_lexicon writes dependency links only into {sorted(seen)}')


def _is_new_rowid(il, text):
    if text == 'cur.lastrowid':
        return True
    for n in walk_no_nested(il.node):
        if isinstance(n, ast.Assign) and any(isinstance(t, ast.Name) and t.id == text for t in n.targets):
            if norm(n.value).endswith('.lastrowid'):
                return True
    return False


def skip_reasons(ctx, res, k2):
    """_precheck marks both documented skip reasons (read off its effect summary: the local names are free)"""
    import re as _re
    from ..speccheck import view
    pv = view(ctx, '_add', '_precheck')
    res.inst(k2, pv.loc(), 'already-added and base-missing both mark the lexicon as skipped')
    rets = [r for r in pv.rows if r[0] == 'return' and _re.match(r'^#\d+$', r[1])]
    cell = rets[0][1] if rets else None
    marks = [r for r in pv.rows if r[0] == 'store' and cell and r[1].startswith(cell + '[') and not r[1].endswith('] = False')]
    blob = ' | '.join(r[1] + ' ## ' + ' & '.join(sorted(r[2])) for r in marks)
    own = _re.search(r"\.execute\([^,]+, \$1\)\.fetchone\(\)", blob)
    base = _re.search(r"\$1\.get\('extends'\)", blob) and _re.search(r"\.execute\([^,]+, \$1(\.get\('extends'\)|\['extends'\])\)\.fetchone\(\) is None", blob)
    keyed = all(_re.match(_re.escape(cell) + r"\[format_lexicon_specifier\(\$1\['id'\], \$1\['version'\]\)\] = ", r[1]) for r in marks) if cell else False
    if not marks or not own or not base or not keyed:
        res.find(k2, pv.loc(), f'_precheck no longer marks a lexicon as skipped for the two documented reasons (already added: a row with '
                               f'its id and version exists; extension whose base lexicon is missing), keyed by its specifier: '
                               f'{[(r[1][-40:], sorted(r[2])[:2]) for r in marks][:3]}')
    return pv.f


def r6_skip_dominance(ctx, res):
    import re as _re
    from ..speccheck import view
    av = view(ctx, '_add', '_add_lexical_resource')
    key = 'skip-dominates-writes'
    guard = "not skipmap[format_lexicon_specifier($1['id'], $1['version'])]"
    dml = _re.compile(r"\.(execute|executemany)\((f?['\"])\s*(INSERT|UPDATE|DELETE|REPLACE)", _re.I)
    writes = [r for r in av.rows if r[0] in ('call', 'eval') and (dml.search(r[1]) or r[1].startswith('_insert_lexicon('))]
    in_loop = [r for r in writes if any(c == "for resource['lexicons']" for c in r[3])]
    res.inst(key, av.loc(), f'{len(in_loop)} write effects inside the per-lexicon loop, {len(writes) - len(in_loop)} outside')
    if not in_loop:
        raise AnalysisError('anchor vanished: writes inside the loop over resource lexicons in _add_lexical_resource')
    for r in in_loop:
        if guard not in r[2]:
            res.find(key, av.loc(r[4]), f'a write for the lexicon (`{r[1][:70]}`) happens without the skipmap test `{guard}` (guards '
                                        f'{sorted(r[2])[:3]}): an already installed lexicon (or an extension without base) is written again')
            break
    for r in writes:
        if r not in in_loop:
            res.find(key, av.loc(r[4]), f'`{r[1][:70]}` writes outside the per-lexicon loop')
            break
    pc = skip_reasons(ctx, res, 'precheck-skip-reasons')
    k2 = 'precheck-skip-reasons'
    qs = [v for s in ctx.sites if s.func.key == pc.key for v in s.variants if v.stmt is not None]
    for v in qs:
        preds = sorted(p.replace(' ', '') for p in v.stmt.where_predicates(0))
        res.inst(k2 + ':query', pc.module.relpath, f'{preds}')
        if v.stmt.verb != 'SELECT' or preds != ['id=:id', 'version=:version']:
            res.find(k2 + ':query', pc.module.relpath, f'_precheck looks lexicons up with {v.stmt.verb} WHERE {preds}; expected id and version equality')


def r7_ownership(ctx, res):
    """every row the importer writes into a table with a lexicon_rowid column is owned by the lexicon being added."""
    from .c01 import computed_bindings
    table, sites = computed_bindings(ctx, with_sites=True)
    n = 0
    for (t, c), alts in sorted(table.items()):
        if c != 'lexicon_rowid':
            continue
        for a in sorted(alts):
            n += 1
            key = f'owner:{t}<-{a[-1]}'
            b = sites[(t, c, a)][0]
            res.inst(key, b.site.loc, f'{t}.lexicon_rowid <- {a[-1]}')
            if a[-1] != 'lexid':
                res.find(key, b.site.loc,
                         f'{b.func.qualname} writes {t}.lexicon_rowid from `{a[-1]}` instead of the rowid of the lexicon being added: rows '
                         f'contributed by this lexicon are owned by another one, so removing it leaves them behind (and removing the '
                         f'other lexicon deletes them)')
    if n < 12:
        raise AnalysisError(f'only {n} owner bindings found')
    for t, cols in ctx.schema.tables.items():
        if any(col.name == 'lexicon_rowid' for col in cols):
            key = f'owner-written:{t}'
            res.inst(key, 'wn/schema.sql', 'owner column written by the importer')
            if (t, 'lexicon_rowid') not in table:
                res.find(key, 'wn/_add.py', f'no INSERT of the importer writes {t}.lexicon_rowid')


def r8_no_stale_state(ctx, res):
    """nothing outside the database remembers content across add()/remove(): no memoised query, no module-level cache."""
    from .c16 import hidden_state_subset
    n = hidden_state_subset(ctx, res, ('_queries', '_core', '_db', '_add', '_export'), 'no-stale-state')
    if n < 200:
        raise AnalysisError(f'only {n} functions examined for hidden state')


def r9_selection_materialised(ctx, res):
    """a loop that writes must not draw its items lazily from a query generator over the tables it modifies: the
    selection has to be computed on the state before the first write (remove('a:1.5 a') otherwise re-evaluates the bare
    id after a:1.5 is gone and removes a second version)."""
    writers = {s.func.key for s in write_sites(ctx)} - {'_db._init_db'}
    conn_f = ctx.repo.func('_db', 'connect')
    reach_cache = {}

    def writes(func, node):
        for n in ast.walk(node):
            if isinstance(n, ast.Call) and isinstance(n.func, ast.Attribute) and n.func.attr in ('execute', 'executemany', 'executescript'):
                for st in ctx.sites:
                    if st.node is n and any(v.stmt is not None and v.stmt.is_write for v in st.variants):
                        return True
        for call, cal in ctx.cg.calls_in(func, node):
            for c in cal:
                if c.key == conn_f.key:
                    continue
                if c.key not in reach_cache:
                    reach_cache[c.key] = bool(set(ctx.cg.reachable([c], stop=[conn_f])) & writers)
                if reach_cache[c.key]:
                    return True
        return False
    n = 0
    for func in ctx.repo.all_funcs():
        if func.module.short not in ('_add', '_core', '_export', '_queries', '_db'):
            continue
        for lp in walk_no_nested(func.node):
            if not isinstance(lp, ast.For):
                continue
            it = lp.iter
            while isinstance(it, ast.Call) and isinstance(it.func, ast.Name) and it.func.id in ('enumerate', 'reversed', 'iter') and it.args:
                it = it.args[0]
            if not isinstance(it, ast.Call):
                continue
            cal = ctx.cg.resolve_call(func, it)
            lazy = [c for c in cal if c.module.short == '_queries'
                    and any(isinstance(x, (ast.Yield, ast.YieldFrom)) for x in walk_no_nested(c.node))]
            if not lazy:
                continue
            n += 1
            key = f'lazy-selection:{func.key}:{norm(lp.iter)[:50]}'
            w = any(writes(func, st) for st in lp.body)
            res.inst(key, func.module.loc(lp), f'loop over generator query {lazy[0].name}; body writes={w}')
            if w:
                res.find(key, func.module.loc(lp),
                         f'{func.qualname} iterates the generator query {lazy[0].name}(...) lazily while its loop body modifies the database: '
                         f'later items are selected on a state that earlier iterations already changed (a specifier list is then not the '
                         f'union of what its parts select on the original database); materialise the selection first')
    if n < 3:
        raise AnalysisError(f'only {n} loops over generator queries found')


LOOKUP_SOURCES = {
    # lookup table -> the loops (over the lexicon being added, unfiltered) whose values must all be registered before use,
    # i.e. the collections the consuming INSERTs iterate: synset relations of ALL synsets (external ones included: their
    # relations are inserted by _insert_synset_relations(_synsets(lexicon))), sense relations of all senses of all entries
    'relation_types': [
        (r"\$\d+\['relType'\]", ("for lexicon.get('synsets', [])", "for $1.get('relations', [])")),
        (r"\$\d+\['relType'\]", ("for lexicon.get('entries', [])", "for $1.get('senses', [])", "for $2.get('relations', [])")),
    ],
}


def r10_lookup_tables_complete(ctx, res):
    """add() registers in the shared lookup tables every value the lexicon being added uses, so that no id->rowid sub-select
    of a later INSERT depends on a lookup row that another (possibly removed) lexicon left behind.  On the effect summary of
    _update_lookup_tables: for each lookup table the registered set receives, unconditionally, the values of the listed
    unfiltered loops, and it is that set which is inserted."""
    import re as _re
    from ..speccheck import view
    v = view(ctx, '_add', '_update_lookup_tables')
    for table, sources in LOOKUP_SOURCES.items():
        ins = [r for r in v.rows if r[0] == 'call' and '.executemany(' in r[1] and f'INTO {table} ' in r[1]]
        key = f'lookup-complete:{table}'
        res.inst(key, v.loc(), f'{len(sources)} source loops')
        if len(ins) != 1:
            raise AnalysisError(f'anchor vanished: one executemany INSERT OR IGNORE INTO {table} in _update_lookup_tables')
        m = _re.search(r'for _1 in sorted\(#(\d+)\)\]\)$', ins[0][1])
        if not m:
            # the row list may be bound to a local first: `rows = [(x,) for x in sorted(S)]; executemany(q, rows)`
            m0 = _re.search(r', (#\d+)\)$', ins[0][1])
            if m0:
                fills = [r for r in v.rows if r[0] == 'call' and r[1].startswith(m0.group(1) + '.append(') and len(r[3]) == 1 and not r[2]]
                if len(fills) == 1:
                    m = _re.fullmatch(r'for sorted\(#(\d+)\)', fills[0][3][0])
        m = m or _re.search(r'#(\d+)', ins[0][1])
        if not m or ins[0][2] or ins[0][3]:
            res.find(key, v.loc(ins[0][4]), f'the INSERT into {table} is conditional or no longer inserts the collected set')
            continue
        cell = m.group(1)
        for pat_, loops in sources:
            k2 = f'{key}:{loops[0][4:40]}'
            hits = [r for r in v.rows if r[0] == 'call' and _re.fullmatch(rf'#{cell}\.add\({pat_}\)', r[1]) and tuple(r[3]) == tuple(loops)]
            res.inst(k2, v.loc(), f'{len(hits)} registering effect(s)')
            if not hits:
                res.find(k2, v.loc(), f'_update_lookup_tables does not register in {table} the values of the loop {list(loops)} (unfiltered): a value '
                                      f'used only there is looked up later by an INSERT sub-select and resolves to NULL - or to a row that '
                                      f'another, possibly removed, lexicon left behind')
            elif all(r[2] for r in hits):
                res.find(k2, v.loc(hits[0][4]), f'_update_lookup_tables registers the values of {list(loops)} in {table} only when {sorted(hits[0][2])}')


LOOKUP_TABLES = {'relation_types', 'lexfiles', 'ili_statuses', 'ilis'}


def r11_no_replacing_inserts(ctx, res):
    """add() never resolves a uniqueness conflict by deleting an existing row: `INSERT OR REPLACE` / `REPLACE INTO` on a content
    table removes the conflicting row - possibly one owned by another lexicon (an extension's form colliding with the base's on
    the per-entry unique key) together with its cascaded children - and remove() of the newcomer then takes the replacement away,
    so the survivor differs from a fresh add.  `OR IGNORE` is allowed only on the shared lookup tables and the presupposed ILIs."""
    n = 0
    for s in ctx.sites:
        if s.func.module.short != '_add':
            continue
        for v in s.variants:
            st = v.stmt
            if st is None or st.verb not in ('INSERT', 'REPLACE'):
                continue
            n += 1
            key = f'conflict-clause:{s.func.key}:{st.target}'
            res.inst(key, s.loc, f'{st.verb}{" OR " + st.or_clause if st.or_clause else ""} INTO {st.target}')
            if st.verb == 'REPLACE' or st.or_clause == 'REPLACE':
                res.find(key, s.loc, f'{s.func.qualname} inserts into {st.target} with REPLACE conflict handling: a row already stored (for '
                                     f'an extension: a row of the base lexicon) that collides on a unique key is deleted with its children')
            elif st.or_clause is not None and st.target not in LOOKUP_TABLES:
                res.find(key, s.loc, f'{s.func.qualname} inserts into the content table {st.target} with OR {st.or_clause}: whether the row is '
                                     f'stored depends on what other lexicons put there before')
    if n < 25:
        raise AnalysisError(f'only {n} INSERT statement variants found in wn/_add.py')


def r12_ownerless_children_on_own_parents(ctx, res):
    """a content table without a lexicon_rowid column (tags, pronunciations, adjpositions, syntactic_behaviour_senses,
    proposed_ilis) is removed with a lexicon only through its parent rows.  Rows the importer writes there must therefore hang
    on a parent the lexicon being added owns: either the rows are produced from local elements only, or one of the parent
    look-ups is keyed by the rowid of the lexicon being added.  A row attached to an *external* parent (a form of the base
    lexicon) stays behind when the extension is removed and disappears when the base is."""
    from .c01 import computed_bindings
    table = computed_bindings(ctx)
    owned = {t for t, cols in ctx.schema.tables.items() if any(col.name == 'lexicon_rowid' for col in cols)}
    n = 0
    for t, cols in sorted(ctx.schema.tables.items()):
        if t in owned or t in LOOKUP_TABLES or t in ('lexicons', 'lexicon_dependencies', 'lexicon_extensions'):
            continue
        fks = [fk for fk in ctx.schema.fks if fk.table == t and fk.ref_table in owned]
        if not fks:
            continue
        n += 1
        key = f'ownerless-child:{t}'
        rows = table.get((t, '<row produced when>'), [])
        local_rows = bool(rows) and all(any('_local_' in x for x in alt) for alt in rows)
        own_parent = any(table.get((t, fk.column)) and all('lexid' in alt for alt in table[(t, fk.column)]) for fk in fks)
        res.inst(key, 'wn/_add.py', f'parents {[fk.ref_table for fk in fks]}; local rows: {local_rows}; parent keyed by own lexicon: {own_parent}')
        if not (local_rows or own_parent):
            res.find(key, 'wn/_add.py', f'rows of {t} (no lexicon_rowid column) are attached through {[f"{fk.column}->{fk.ref_table}" for fk in fks]} to '
                                        f'parents looked up with the id map of the extension (external elements of the base lexicon included): '
                                        f'what an extension adds there survives remove(extension) and is deleted with the base')
    if n < 4:
        raise AnalysisError(f'only {n} ownerless child tables found in the schema')


def r13_lexicon_lookups_by_id_and_version(ctx, res):
    """a lexicon is identified by id AND version (several versions of one id can be installed): every statement of the importer
    that looks a lexicon row up by its id also constrains the version - the base of an extension resolved by id alone is the
    first installed version, and the extension's external ids are mapped to the wrong lexicon's rows."""
    n = 0
    for s in ctx.sites:
        if s.func.module.short != '_add':
            continue
        for v in s.variants:
            st = v.stmt
            if st is None:
                continue
            sql = ' '.join(v.sql.split())
            low = sql.lower()
            # sub-selects and selects on lexicons that filter by id
            for m in __import__('re').finditer(r'from lexicons(?: as (\w+))?\s+where (.*?)(?:\)|$| order | limit )', low):
                cond = m.group(2)
                if not __import__('re').search(r'(?<![\w.])(?:\w+\.)?id\s*(=|is|glob|like)', cond):
                    continue
                n += 1
                key = f'lexicon-lookup:{s.func.key}:{cond[:40]}'
                res.inst(key, s.loc, cond[:80])
                if not __import__('re').search(r'(?<![\w.])(?:\w+\.)?version\s*(=|is|glob|like)', cond):
                    res.find(key, s.loc, f'{s.func.qualname} looks a lexicon up with `{cond[:80]}` - by id without the version: with two installed '
                                         f'versions the first one is taken')
    # the same through the query layer: a related lexicon (base, provider) resolved with find_lexicons needs id AND version
    for f in ctx.repo.all_funcs():
        if f.module.short != '_add' or f.name == 'remove':
            continue
        for node in walk_no_nested(f.node):
            if isinstance(node, ast.Call) and norm(node.func).split('.')[-1] == 'find_lexicons':
                arg = next((k.value for k in node.keywords if k.arg == 'lexicon'), node.args[0] if node.args else None)
                n += 1
                key = f'lexicon-lookup:{f.key}:find_lexicons'
                res.inst(key, f.module.loc(node), norm(node)[:80])
                t = norm(arg) if arg is not None else ''
                if 'format_lexicon_specifier(' not in t and 'version' not in t:
                    res.find(key, f.module.loc(node), f'{f.qualname} resolves a lexicon with `{norm(node)[:80]}` - a bare id selects the most '
                                                      f'recently added version, not the version the document names')
    if n < 2:
        raise AnalysisError(f'only {n} lexicon look-ups by id found in wn/_add.py')


def r14_importer_does_not_touch_its_input(ctx, res):
    """add_lexical_resource(res) twice - with a remove() in between - must store the same thing: the importer never modifies
    the in-memory resource it is given (a list of the caller stored in a record and extended later grows the caller's data,
    and the second add writes the grown version).  Typed alias analysis of C07-R3 over wn/_add.py."""
    from .c07 import r3_input_not_modified
    r3_input_not_modified(ctx, res, scope=('_add',), floor=20)


def r15_remove_selects_what_the_specifier_means(ctx, res):
    """remove(spec) deletes the lexicons find_lexicons selects, so "removal leaves every other lexicon unchanged" holds only if
    that selection is the documented one: a bare id selects ONE version (LIMIT 1, most recently added first), a star pattern all
    matches (no limit), each specifier of a list on its own - the analysis of C08-R2 / C08-R3 on find_lexicons."""
    from .c08 import r2_limit_order, r3_match_shape
    r2_limit_order(ctx, res)
    r3_match_shape(ctx, res)


def r16_skip_depends_on_the_database_only(ctx, res):
    """whether a lexicon of a resource is skipped is decided by what is INSTALLED - already there, or (for an extension) base not
    there - never by what happens to the other lexicons of the same resource: otherwise the same file gives different results
    depending on the history (an extension removed and re-added from the file it came with its base).  On the effect summary of
    _add._precheck: the stores `skipmap[key] = True` are guarded by look-ups in `lexicons` only."""
    import re
    from ..speccheck import view
    v = view(ctx, '_add', '_precheck')
    rets = [r for r in v.rows if r[0] == 'return' and re.fullmatch(r'#\d+', r[1])]
    key = 'skip-decision:database-only'
    if len(rets) != 1:
        res.inst(key, v.loc(), 'skip map not identified')
        res.find(key, v.loc(), '_precheck no longer returns its skip map')
        return
    cell = rets[0][1]
    stores = [r for r in v.rows if r[0] == 'store' and r[1].startswith(cell + '[')]
    res.inst(key, v.loc(), f'{len(stores)} stores into the skip map')
    if not stores:
        res.find(key, v.loc(), '_precheck never fills its skip map')
    for r in stores:
        value = r[1].split('] = ', 1)[1] if '] = ' in r[1] else ''
        for g in list(r[2]) + [value]:
            if re.search(re.escape(cell) + r'(?!\d)', g):
                res.find(key, v.loc(r[4]), f'_precheck decides a skip with `{g[:100]}`, which reads the skip map itself: whether a lexicon is '
                                           f'skipped must depend only on what is installed (look-ups in `lexicons`), not on the fate of the '
                                           f'other lexicons of the resource')


def r17_removal_is_not_interrupted_by_its_own_progress_callback(ctx, res):
    """remove() registers the progress handler's update() as SQLite progress callback: it returns nothing, or the DELETE is aborted
    and the lexicon stays installed (C06-R9)."""
    from .c06 import r9_progress_callbacks_return_nothing
    r9_progress_callbacks_return_nothing(ctx, res)

RULES = [
    ('C05-R1', r1_cascade_closure, 40),
    ('C05-R2', r2_fk_enforcement, 3),
    ('C05-R3', r3_single_writer, 55),
    ('C05-R4', r4_remove_shape, 3),
    ('C05-R5', r5_relink, 4),
    ('C05-R6', r6_skip_dominance, 2),
    ('C05-R7', r7_ownership, 12),
    ('C05-R8', r8_no_stale_state, 200),
    ('C05-R9', r9_selection_materialised, 3),
    ('C05-R10', r10_lookup_tables_complete, 3),
    ('C05-R11', r11_no_replacing_inserts, 25),
    ('C05-R12', r12_ownerless_children_on_own_parents, 4),
    ('C05-R13', r13_lexicon_lookups_by_id_and_version, 2),
    ('C05-R14', r14_importer_does_not_touch_its_input, 20),
    ('C05-R15', r15_remove_selects_what_the_specifier_means, 4),
    ('C05-R16', r16_skip_depends_on_the_database_only, 1),
    ('C05-R17', r17_removal_is_not_interrupted_by_its_own_progress_callback, 1),
]
