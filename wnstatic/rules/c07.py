"""C07 — the way a resource is supplied does not change what gets stored (three structural clauses)."""
from __future__ import annotations
import ast
from ..pat import Frag
from ..src import norm, walk_no_nested, AnalysisError
from ..model import Typer, M, U, L, D, Lit, Prim, ANY, elem, Tup
from ..pyutil import parents

META = {
    'title': 'The way a resource is supplied does not change what gets stored',
    'technique': 'sibling cross-check of the two entry points on their effect summaries; skip dominance; input-alias mutation analysis (typed alias taint); open-mode census',
    'explanation': (
        'Route equivalence (decompression, tar extraction, package detection) is library behaviour over file contents and is NOT '
        'decided. Decided: R1 the two entry points add()->_add_lmf and add_lexical_resource perform the same sequence - emptiness '
        'test, _precheck, return when everything is skipped, _add_lexical_resource(resource, skipmap, progress) - and both close '
        'the progress handler in a finally; R2 the skip test precedes every write of a lexicon and _precheck marks "already '
        'added" and "base missing" (shared with C05-R6); R3 the input is not modified: in wn/_add.py, wn/validate.py and '
        'wn/_export.py no in-place mutation (subscript store/delete, append/extend/update/setdefault/pop/sort ...) goes '
        'through a reference derived from a model-typed parameter - directly, or through a fresh container that stores a mutable '
        'part of the input (typed alias analysis; fresh copies list()/dict()/sorted()/comprehensions break the alias); R4 every '
        'open() on the add route is read-only, the decompression temp file is unlinked in a finally and tar contents are '
        'extracted into a TemporaryDirectory context; R6 the package route and the single-file route recognise a resource by the '
        'same content recognisers and neither adds a condition on the file name (guard sets of the accepting effects). R7 the pre-scan that the file routes use agrees with the parser (analysis of C20-R4), so the file routes and the in-memory route decide the same skips. R8 the archive check refuses a tar member exactly when TarInfo.isfile() / isdir() both fail or its path is absolute / contains `..` (effect summary of _check_tar: old-format regular files are files). R9 a directory with the package layout is a package (tested before the collection layout); the temporary file of a decompressed resource is closed before its path is handed out. R10 _read_header decodes nothing before the XML declaration matched (is_lmf answers False through LMFError for any other file).'),
    'decides': ['sibling entry points', 'skip dominance', 'input never mutated', 'source files opened read-only / temp cleanup',
                'resources recognised by content on every route'],
    'not_decided': ['equality of stored content across supply routes'],
    'assumptions': ['annotations of model-typed parameters are truthful'],
}

MUTATORS = {'append', 'extend', 'insert', 'update', 'setdefault', 'pop', 'popitem', 'remove', 'clear', 'sort', 'reverse', 'add',
            'discard', '__setitem__', '__delitem__'}
FRESH_CALLS = {'list', 'dict', 'set', 'frozenset', 'sorted', 'tuple', 'str', 'int', 'float', 'bool', 'len', 'sum', 'Counter',
               'enumerate', 'zip', 'reversed', 'copy', 'deepcopy', 'chain', 'any', 'all', 'min', 'max', 'format_lexicon_specifier',
               'normalize_form', 'repr'}
SCOPE = ('_add', 'validate', '_export')


def _mutable(t):
    if t is ANY:
        return False
    if isinstance(t, Prim):
        return False
    if isinstance(t, Tup):
        return any(_mutable(x) for x in t.es)
    return isinstance(t, (M, U, L, D, Lit))


class AliasAnalysis:
    """kinds: 'ALIAS' (a mutable part of the input), 'HOLDS' (fresh container storing such a part), None."""

    def __init__(self, ctx, func, force=False):
        self.ctx, self.func = ctx, func
        self.typer = Typer(ctx.model, ctx, func)
        self.kinds = {}
        self.types = self.typer.param_env()
        self.findings = []
        self.force = force
        self.seeds = [p for p, t in self.types.items() if _mutable(t) and _is_model(ctx, t)]
        if force:
            self.seeds = [p for p in func.params if p not in ('self', 'cls')]
        for p in self.seeds:
            self.kinds[p] = 'ALIAS'

    def kind(self, e):
        if isinstance(e, ast.Name):
            return self.kinds.get(e.id)
        if isinstance(e, ast.Subscript):
            k = self.kind(e.value)
            if k in ('ALIAS', 'HOLDS'):
                t = self.typer.typeof(e, self.types)
                if k == 'ALIAS':
                    return 'ALIAS' if (_mutable(t) or t is ANY and False) else None
                return 'ALIAS'   # an element of a container that stores parts of the input
            return None
        if isinstance(e, ast.Call):
            f = e.func
            if isinstance(f, ast.Name) and f.id == 'cast' and len(e.args) == 2:
                return self.kind(e.args[1])
            if isinstance(f, ast.Name) and f.id in ('iter', 'islice', 'next') and e.args:
                return self.kind(e.args[0])
            if isinstance(f, ast.Name) and f.id in FRESH_CALLS:
                # a fresh container of parts of the input still HOLDS them when the parts are mutable
                if f.id in ('list', 'tuple', 'sorted', 'reversed', 'enumerate', 'zip', 'chain') and e.args:
                    inner = self.kind(e.args[0])
                    if inner in ('ALIAS', 'HOLDS'):
                        t = self.typer.typeof(e.args[0], self.types)
                        et = elem(t)
                        return 'HOLDS' if (_mutable(et) or (self.force and et is ANY)) else None
                return None
            if isinstance(f, ast.Attribute):
                rk = self.kind(f.value)
                if f.attr == 'get' and rk in ('ALIAS', 'HOLDS'):
                    t = self.typer.typeof(e, self.types)
                    if rk == 'HOLDS':
                        return 'ALIAS'
                    return 'ALIAS' if _mutable(t) else None
                if f.attr in ('values', 'items', 'keys') and rk in ('ALIAS', 'HOLDS'):
                    return 'HOLDS' if f.attr != 'keys' else None
                if f.attr in ('copy',):
                    return 'HOLDS' if rk in ('ALIAS', 'HOLDS') else None
                if f.attr == 'setdefault' and rk in ('ALIAS', 'HOLDS'):
                    return 'ALIAS'
            # repository accessor: returns (part of) its argument?
            cal = self.ctx.cg.resolve_call(self.func, e)
            if len(cal) == 1 and any(self.kind(a) in ('ALIAS', 'HOLDS') for a in e.args):
                if _returns_alias(self.ctx, cal[0]):
                    t = self.typer.typeof(e, self.types)
                    return 'ALIAS' if (_mutable(t) or t is ANY) else None
            return None
        if isinstance(e, (ast.BoolOp,)):
            ks = [self.kind(v) for v in e.values]
            return 'ALIAS' if 'ALIAS' in ks else ('HOLDS' if 'HOLDS' in ks else None)
        if isinstance(e, ast.IfExp):
            ks = [self.kind(e.body), self.kind(e.orelse)]
            return 'ALIAS' if 'ALIAS' in ks else ('HOLDS' if 'HOLDS' in ks else None)
        if isinstance(e, ast.Dict):
            for v in e.values:
                if self.kind(v) in ('ALIAS', 'HOLDS'):
                    return 'HOLDS'
            return None
        if isinstance(e, (ast.List, ast.Tuple, ast.Set)):
            for v in e.elts:
                if self.kind(v.value if isinstance(v, ast.Starred) else v) in ('ALIAS', 'HOLDS'):
                    return 'HOLDS'
            return None
        if isinstance(e, (ast.ListComp, ast.SetComp, ast.GeneratorExp, ast.DictComp)):
            saved_k, saved_t = dict(self.kinds), dict(self.types)
            for g in e.generators:
                self._bind_iter(g.target, g.iter)
            if isinstance(e, ast.DictComp):
                k = self.kind(e.value)
            else:
                k = self.kind(e.elt)
            self.kinds, self.types = saved_k, saved_t
            return 'HOLDS' if k in ('ALIAS', 'HOLDS') else None
        if isinstance(e, ast.Starred):
            return self.kind(e.value)
        return None

    def _bind_iter(self, target, it):
        k = self.kind(it)
        t = elem(self.typer.typeof(it, self.types))
        self.typer.bind(target, t, self.types)
        names = [n for n in ast.walk(target) if isinstance(n, ast.Name)]
        for n in names:
            nt = self.types.get(n.id, ANY)
            if k in ('ALIAS', 'HOLDS') and (_mutable(nt) or (k == 'HOLDS' and nt is ANY)):
                self.kinds[n.id] = 'ALIAS'
            else:
                self.kinds.pop(n.id, None)

    def run(self):
        for _ in range(3):
            before = dict(self.kinds)
            self.findings = []
            self.block(self.func.node.body)
            if before == self.kinds:
                break
        return self

    def assign(self, target, value):
        k = self.kind(value)
        t = self.typer.typeof(value, self.types)
        if isinstance(target, ast.Name):
            self.types[target.id] = t
            if k:
                self.kinds[target.id] = k
            else:
                self.kinds.pop(target.id, None)
        elif isinstance(target, (ast.Tuple, ast.List)):
            self.typer.bind(target, t, self.types)
            for n in ast.walk(target):
                if isinstance(n, ast.Name):
                    if k in ('ALIAS', 'HOLDS') and _mutable(self.types.get(n.id, ANY)):
                        self.kinds[n.id] = 'ALIAS'
                    else:
                        self.kinds.pop(n.id, None)
        elif isinstance(target, ast.Subscript):
            rk = self.kind(target.value)
            if rk == 'ALIAS':
                self.report(target, f'`{norm(target)} = ...` stores into the input')
            # storing a mutable part of the input into a fresh container makes it HOLD that part
            if k in ('ALIAS', 'HOLDS'):
                base = target.value
                while isinstance(base, ast.Subscript):
                    base = base.value
                if isinstance(base, ast.Name) and self.kinds.get(base.id) != 'ALIAS':
                    self.kinds[base.id] = 'HOLDS'

    def report(self, node, what):
        self.findings.append((node, what))

    def expr(self, e):
        for n in ast.walk(e):
            if isinstance(n, ast.Call) and isinstance(n.func, ast.Attribute) and n.func.attr in MUTATORS:
                rk = self.kind(n.func.value)
                if rk == 'ALIAS':
                    self.report(n, f'`{norm(n)[:70]}` mutates (a part of) the input in place')
                # appending a mutable part of the input to a fresh container
                if n.func.attr in ('append', 'add', 'insert', 'setdefault', 'update', 'extend') and n.args:
                    ak = self.kind(n.args[-1])
                    base = n.func.value
                    while isinstance(base, (ast.Subscript, ast.Call, ast.Attribute)):
                        base = base.value if not isinstance(base, ast.Call) else base.func
                    if ak in ('ALIAS', 'HOLDS') and isinstance(base, ast.Name) and self.kinds.get(base.id) != 'ALIAS' \
                            and n.func.attr != 'extend':
                        self.kinds[base.id] = 'HOLDS'

    def block(self, stmts):
        for s in stmts:
            if isinstance(s, ast.Assign):
                self.expr(s.value)
                for t in s.targets:
                    self.assign(t, s.value)
            elif isinstance(s, ast.AnnAssign):
                if s.value is not None:
                    self.expr(s.value)
                    self.assign(s.target, s.value)
                    at = self.ctx.model.ann(s.annotation, self.func.module)
                    if isinstance(s.target, ast.Name) and at is not ANY and self.types.get(s.target.id) is ANY:
                        self.types[s.target.id] = at
            elif isinstance(s, ast.AugAssign):
                self.expr(s.value)
                if isinstance(s.target, ast.Subscript) and self.kind(s.target.value) == 'ALIAS':
                    self.report(s, f'`{norm(s)[:60]}` modifies the input in place')
                if isinstance(s.target, ast.Name) and self.kinds.get(s.target.id) == 'ALIAS' and isinstance(s.op, ast.Add):
                    self.report(s, f'`{norm(s)[:60]}` extends (a part of) the input in place')
            elif isinstance(s, ast.Delete):
                for t in s.targets:
                    if isinstance(t, ast.Subscript) and self.kind(t.value) == 'ALIAS':
                        self.report(s, f'`{norm(s)[:60]}` deletes from the input')
            elif isinstance(s, ast.Expr):
                self.expr(s.value)
            elif isinstance(s, (ast.For, ast.AsyncFor)):
                self.expr(s.iter)
                self._bind_iter(s.target, s.iter)
                # facts established late in one iteration (a container starts to hold a part of the input) hold at the top of the
                # next one: the body is walked twice, findings are taken from the second walk
                saved = list(self.findings)
                self.block(s.body)
                self.findings = saved
                self._bind_iter(s.target, s.iter)
                self.block(s.body)
                self.block(s.orelse)
            elif isinstance(s, ast.While):
                self.expr(s.test)
                saved = list(self.findings)
                self.block(s.body)
                self.findings = saved
                self.block(s.body)
            elif isinstance(s, ast.If):
                self.expr(s.test)
                self.block(s.body)
                self.block(s.orelse)
            elif isinstance(s, (ast.With, ast.AsyncWith)):
                for it in s.items:
                    self.expr(it.context_expr)
                self.block(s.body)
            elif isinstance(s, ast.Try):
                self.block(s.body)
                for h in s.handlers:
                    self.block(h.body)
                self.block(s.finalbody)
            elif isinstance(s, ast.Return):
                if s.value is not None:
                    self.expr(s.value)
            elif isinstance(s, (ast.FunctionDef, ast.AsyncFunctionDef, ast.ClassDef)):
                pass
            else:
                for c in ast.iter_child_nodes(s):
                    if isinstance(c, ast.expr):
                        self.expr(c)


def _is_model(ctx, t):
    return bool(ctx.model.classes_of(t)) or (isinstance(t, L) and bool(ctx.model.classes_of(t.e)))


_RET_ALIAS = {}


def _returns_alias(ctx, f):
    """does the function return / yield (a part of) one of its arguments (accessor like _entries, _local_senses)?"""
    key = (id(ctx.repo), f.key)
    if key in _RET_ALIAS:
        return _RET_ALIAS[key]
    _RET_ALIAS[key] = False
    a = AliasAnalysis(ctx, f)
    if not a.seeds:
        # generic helpers (_batch(sequence: Iterable[T])): assume every argument may be part of the input
        a = AliasAnalysis(ctx, f, force=True)
        if not a.seeds:
            return False
    a.run()
    out = False
    for n in walk_no_nested(f.node):
        if isinstance(n, (ast.Return, ast.Yield, ast.YieldFrom)) and n.value is not None:
            if a.kind(n.value) in ('ALIAS', 'HOLDS'):
                out = True
    # loop variables: re-run kinds at the end of the analysis are flow-insensitive approximations
    _RET_ALIAS[key] = out
    return out


def r1_sibling_entry_points(ctx, res):
    """the two ways of supplying a resource do the same things in the same order (read off their effect summaries):
    nothing-to-do test, pre-check of the lexicon headers, return when everything is skipped, import with that skip map"""
    import re as _re
    from ..speccheck import view
    specs = {
        '_add_lmf': ('lmf.scan_lexicons(source)', 'lmf.load(source, progress_handler)'),
        'add_lexical_resource': ("resource['lexicons']", 'resource'),
    }
    seqs = {}
    for fname, (heads, resource) in specs.items():
        v = view(ctx, '_add', fname)
        key = f'entry-sequence:{fname}'
        pre = [r for r in v.rows if r[0] in ('eval', 'call') and r[1].startswith('_precheck(')]
        imp = [r for r in v.rows if r[0] in ('eval', 'call') and r[1].startswith('_add_lexical_resource(')]
        seq = []
        if any(r[0] == 'return' and f'not {heads}' in r[2] for r in v.rows):
            seq.append('empty-test')
        pc_text = None
        if len(pre) == 1 and pre[0][1].startswith(f'_precheck({heads}, ') and heads in pre[0][2]:
            seq.append('precheck')
            pc_text = pre[0][1]
        if pc_text and any(r[0] == 'return' and f'all({pc_text}.values())' in r[2] for r in v.rows):
            seq.append('all-skipped-return')
        if pc_text and len(imp) == 1 and imp[0][1].startswith(f'_add_lexical_resource({resource}, {pc_text}, ') \
                and f'not all({pc_text}.values())' in imp[0][2]:
            seq.append('import')
        seqs[fname] = seq
        res.inst(key, v.loc(), f'{seq}')
        want = ['empty-test', 'precheck', 'all-skipped-return', 'import']
        if seq != want:
            res.find(key, v.loc(), f'{fname} performs {seq}; both ways of supplying a resource must do {want}: test for an empty resource, '
                                   f'_precheck of its lexicon headers, return when all are skipped, _add_lexical_resource(resource, that skip '
                                   f'map, progress): {[r[1][:70] for r in pre + imp]}')
    for fname in ('add', 'add_lexical_resource'):
        v = view(ctx, '_add', fname)
        key = f'progress-closed:{fname}'
        news = [r for r in v.rows if r[0] == 'eval' and "(message='Database')" in r[1]]
        closes = [r for r in v.rows if r[0] == 'call' and r[1].endswith('.close()') and 'finally' in r[3]]
        res.inst(key, v.loc(), 'progress handler closed in a finally block')
        if not news or not any('<exception propagates>' in r[2] for r in closes) or not all(r[1] == news[0][1] + '.close()' for r in closes):
            res.find(key, v.loc(), f'{fname} does not close its progress handler in a finally block')
    key = 'precheck-input'
    res.inst(key, 'wn/_add.py', 'precheck over scan_lexicons(source) / resource["lexicons"] (part of the entry sequences)')
    # add() dispatches on the package type
    av = view(ctx, '_add', 'add')
    key = 'add-dispatch'
    res.inst(key, av.loc(), 'for package in iterpackages(source): wordnet -> _add_lmf, ili -> _add_ili')
    lm = [r for r in av.rows if r[0] in ('call', 'eval') and r[1].startswith('_add_lmf($1.resource_file(), ')]
    ok_direct = len(lm) == 1 and lm[0][3][:1] == ('for iterpackages(source)',) and '$1.type == _WORDNET' in lm[0][2]
    if not ok_direct:
        # the dispatch may live in a helper that add() calls for every package
        for r in av.rows:
            if r[0] in ('call', 'eval') and r[3][:1] == ('for iterpackages(source)',) and not {g for g in r[2] if g.startswith('$1')}:
                import re as _re
                m = _re.match(r'^(\w+)\(\$1, ', r[1])
                if m and m.group(1) in av.f.module.funcs:
                    hv = view(ctx, '_add', m.group(1))
                    p0 = hv.f.params[0] if hv.f.params else '?'
                    hl = [x for x in hv.rows if x[0] in ('call', 'eval', 'return') and f'_add_lmf({p0}.resource_file(), ' in x[1]]
                    if len(hl) == 1 and f'{p0}.type == _WORDNET' in hl[0][2]:
                        ok_direct = True
    if not ok_direct:
        res.find(key, av.loc(), f'add() no longer adds every wordnet package found by iterpackages(source) through _add_lmf: '
                                f'{[(r[1][:50], sorted(r[2]), r[3]) for r in lm]}')


def r2_skip_dominance(ctx, res):
    from .c05 import r6_skip_dominance
    r6_skip_dominance(ctx, res)


def r3_input_not_modified(ctx, res, scope=None, floor=40):
    n = 0
    nf = 0
    for ms in (scope or SCOPE):
        mod = ctx.repo.mod(ms)
        for f in mod.funcs.values():
            a = AliasAnalysis(ctx, f)
            if not a.seeds:
                continue
            nf += 1
            a.run()
            key = f'no-mutation:{f.key}'
            res.inst(key, mod.loc(f.node), f'model-typed parameters {a.seeds}')
            for node, what in a.findings:
                n += 1
                res.find(f'{key}:{norm(node)[:60]}', mod.loc(node),
                         f'{f.qualname}: {what} (reached from parameter(s) {a.seeds}): adding, validating or exporting must not modify '
                         f'the in-memory resource - a second add of the same object, or its later dump, sees different data')
    if nf < floor:
        raise AnalysisError(f'only {nf} functions with model-typed parameters analysed')


def r4_files(ctx, res):
    add = ctx.repo.func('_add', 'add')
    reach = ctx.cg.reachable([add, ctx.repo.func('_add', 'add_lexical_resource')])
    n = 0
    for f in reach.values():
        if f.module.short not in ('_add', 'lmf', 'project', '_ili', '_util'):
            continue
        for node in walk_no_nested(f.node):
            if isinstance(node, ast.Call) and (norm(node.func) == 'open' or (isinstance(node.func, ast.Attribute) and node.func.attr == 'open'
                                                                             and norm(node.func.value) not in ('tarfile', 'gzip', 'lzma'))):
                n += 1
                key = f'open:{f.key}:{norm(node)[:50]}'
                mode = None
                args = node.args[1:] if norm(node.func) == 'open' else node.args
                if args and isinstance(args[0], ast.Constant):
                    mode = args[0].value
                for kw in node.keywords:
                    if kw.arg == 'mode' and isinstance(kw.value, ast.Constant):
                        mode = kw.value.value
                res.inst(key, f.module.loc(node), f'mode {mode!r}')
                if mode is not None and any(c in str(mode) for c in 'wax+'):
                    res.find(key, f.module.loc(node), f'{f.qualname} opens a file with mode {mode!r} on the add route: the input may be modified')
    from ..speccheck import view
    gv = view(ctx, 'project', '_get_decompressed')
    gd = gv.f
    key = 'decompress-temp-cleanup'
    tmp = "tempfile.NamedTemporaryFile(suffix='.xml', delete=False)"
    unl = [r for r in gv.rows if r[0] == 'call' and r[1].endswith('.unlink()')]
    ok = bool(unl) and all(r[1] == f'Path({tmp}.name).unlink()' and 'finally' in r[3] for r in unl) \
        and any('<exception propagates>' in r[2] for r in unl) \
        and any(r[0] == 'yield' and r[1] == f'Path({tmp}.name)' for r in gv.rows) \
        and not any(r[0] == 'call' and ('source.unlink' in r[1] or r[1].startswith('os.remove(source') or r[1].startswith('os.unlink(source')) for r in gv.rows)
    res.inst(key, gd.module.loc(gd.node), 'temp copy unlinked in finally; source only read')
    s = Frag(gd.node)
    if not ok:
        res.find(key, gd.module.loc(gd.node), '_get_decompressed no longer decompresses into a named temporary file that is unlinked in a '
                                              'finally block (the unlink must target the temp path, never the source)')
    if 'source.unlink' in s or 'os.remove(source' in s:
        res.find(key + ':source', gd.module.loc(gd.node), '_get_decompressed deletes the source file')
    # every open of the source (gzip.open / lzma.open, called directly or through a local chosen between the two) is read-only
    opens = [c for c in walk_no_nested(gd.node) if isinstance(c, ast.Call) and c.args and norm(c.args[0]) == 'source'
             and ('open' in norm(c.func) or isinstance(c.func, ast.Name))
             and norm(c.func) not in ('is_gzip', 'is_lzma', 'Path', 'str')]
    src_text = norm(gd.node)
    for opener in ('gzip.open', 'lzma.open'):
        k2 = f'decompress-read-only:{opener}'
        res.inst(k2, gd.module.loc(gd.node), f"{opener}(source, 'rb')")
        modes_ok = bool(opens) and all((len(c.args) > 1 and norm(c.args[1]) == "'rb'") or any(k.arg == 'mode' and norm(k.value) == "'rb'" for k in c.keywords)
                                       for c in opens)
        if opener not in src_text or not modes_ok:
            res.find(k2, gd.module.loc(gd.node), f"_get_decompressed no longer opens the compressed source read-only ({opener}(source, 'rb'))")
    ip = ctx.repo.func('project', 'iterpackages')
    key = 'tar-tempdir'
    s = Frag(ip.node)
    res.inst(key, ip.module.loc(ip.node), 'tar extracted into a TemporaryDirectory context after _check_tar')
    if 'with tempfile.TemporaryDirectory() as tmpdir' not in s or 'tar.extractall(path=tmpdir)' not in s or '_check_tar(tar)' not in s:
        res.find(key, ip.module.loc(ip.node), 'iterpackages no longer checks the tar members and extracts them into a TemporaryDirectory context')
    if n < 5:
        raise AnalysisError(f'only {n} open() calls found on the add route')


def _loop_carried(func, lp):
    """names that are assigned somewhere in the body of loop `lp` but can be read in an iteration before being assigned
    in that same iteration (definite-assignment analysis over the body): their value leaks from the previous item."""
    stores = {x.id for st in lp.body for x in ast.walk(st) if isinstance(x, ast.Name) and isinstance(x.ctx, ast.Store)}
    stores -= {x.id for x in ast.walk(lp.target) if isinstance(x, ast.Name)}
    # comprehension variables live in their own scope
    comp_names = {t.id for st in lp.body for c in ast.walk(st) if isinstance(c, ast.comprehension)
                  for t in ast.walk(c.target) if isinstance(t, ast.Name)}
    plain = set()
    for st in lp.body:
        for x in ast.walk(st):
            if isinstance(x, (ast.Assign, ast.AnnAssign, ast.AugAssign, ast.For, ast.With, ast.NamedExpr)):
                tg = x.targets if isinstance(x, ast.Assign) else ([x.target] if hasattr(x, 'target') else
                                                               [i.optional_vars for i in x.items if i.optional_vars is not None])
                for t in tg:
                    plain |= {y.id for y in ast.walk(t) if isinstance(y, ast.Name) and isinstance(y.ctx, ast.Store)}
    stores = (stores & plain) | (stores - comp_names)
    stores &= plain
    carried = set()
    LEAVES = (ast.Continue, ast.Return, ast.Raise, ast.Break)

    def reads(e, defined):
        if isinstance(e, (ast.ListComp, ast.SetComp, ast.GeneratorExp, ast.DictComp)):
            own = {t.id for g in e.generators for t in ast.walk(g.target) if isinstance(t, ast.Name)}
            for x in ast.walk(e):
                if isinstance(x, ast.Name) and isinstance(x.ctx, ast.Load) and x.id in stores and x.id not in defined and x.id not in own:
                    carried.add(x.id)
            return
        for x in ast.walk(e):
            if isinstance(x, ast.Name) and isinstance(x.ctx, ast.Load) and x.id in stores and x.id not in defined:
                carried.add(x.id)

    def block(stmts, defined):
        """returns the set definitely assigned at the end, or None if the block always leaves the iteration"""
        defined = set(defined)
        for st in stmts:
            if isinstance(st, (ast.Assign, ast.AnnAssign, ast.AugAssign)):
                if getattr(st, 'value', None) is not None:
                    reads(st.value, defined)
                tg = st.targets if isinstance(st, ast.Assign) else [st.target]
                if isinstance(st, ast.AugAssign):
                    reads(st.target, defined)
                for t in tg:
                    if isinstance(t, ast.Name):
                        if not isinstance(st, ast.AnnAssign) or st.value is not None:
                            defined.add(t.id)
                    else:
                        for x in ast.walk(t):
                            if isinstance(x, ast.Name) and isinstance(x.ctx, ast.Store):
                                defined.add(x.id)
                            elif isinstance(x, ast.Name):
                                reads(x, defined)
            elif isinstance(st, ast.If):
                reads(st.test, defined)
                a = block(st.body, defined)
                b = block(st.orelse, defined)
                if a is None and b is None:
                    return None
                defined = (a if b is None else b if a is None else a & b)
            elif isinstance(st, (ast.For, ast.AsyncFor)):
                reads(st.iter, defined)
                inner = set(defined) | {x.id for x in ast.walk(st.target) if isinstance(x, ast.Name)}
                block(st.body, inner)
            elif isinstance(st, ast.While):
                reads(st.test, defined)
                block(st.body, defined)
            elif isinstance(st, (ast.With, ast.AsyncWith)):
                for it in st.items:
                    reads(it.context_expr, defined)
                    if it.optional_vars is not None:
                        defined |= {x.id for x in ast.walk(it.optional_vars) if isinstance(x, ast.Name)}
                r = block(st.body, defined)
                if r is None:
                    return None
                defined = r
            elif isinstance(st, ast.Try):
                r = block(st.body, defined)
                for h in st.handlers:
                    block(h.body, defined)
                if r is not None:
                    defined = r & defined | (r if not st.handlers else defined)
                block(st.finalbody, defined)
            elif isinstance(st, LEAVES):
                for c in ast.iter_child_nodes(st):
                    if isinstance(c, ast.expr):
                        reads(c, defined)
                return None
            else:
                for c in ast.iter_child_nodes(st):
                    if isinstance(c, ast.expr):
                        reads(c, defined)
        return defined
    block(lp.body, set())
    return sorted(carried)


def r5_per_item_state(ctx, res):
    """the skip decision of one lexicon depends on that lexicon only: no variable read in the per-item loops of _precheck /
    _add_lexical_resource keeps a conditionally assigned value from the previous item."""
    n = 0
    for fname in ('_precheck', '_add_lexical_resource'):
        f = ctx.repo.func('_add', fname)
        for lp in walk_no_nested(f.node):
            if not isinstance(lp, ast.For):
                continue
            if any(isinstance(p, ast.For) for p in parents(lp) if p is not f.node):
                continue
            n += 1
            key = f'per-item-state:{f.key}:for {norm(lp.target)}'
            names = _loop_carried(f, lp)
            res.inst(key, f.module.loc(lp), f'carried: {names}')
            for nm in names:
                res.find(f'{key}:{nm}', f.module.loc(lp),
                         f'in the loop over `{norm(lp.iter)[:40]}` of {f.qualname} the variable `{nm}` is only assigned under a condition but '
                         f'read in every iteration: an item for which the condition is false inherits the value of the previous item '
                         f'(e.g. an ordinary lexicon is treated as an extension of the preceding extension\'s base and skipped)')
    if n < 2:
        raise AnalysisError('anchor vanished: per-item loops of _precheck / _add_lexical_resource')


def r6_recognition_by_content(ctx, res):
    """a resource is recognised by its content on every route: the package route (files of a directory) and the single-file
    route apply the same recognisers and no route adds a condition on the file name.  Decided on the effect summaries of
    wn/project.py: the guard sets of the effects that accept a file / a directory are exactly the content tests."""
    import re as _re
    from ..speccheck import view
    recog = lambda txt: set(_re.findall(r'\b(\w+\.is_\w+)\(', txt)) - {'tarfile.is_tarfile'}   # noqa: E731
    # single-file route: the branch of iterpackages that yields _ResourceOnlyPackage
    iv = view(ctx, 'project', 'iterpackages')
    ys = [r for r in iv.rows if r[0] == 'yield' and r[1].startswith('_ResourceOnlyPackage(')]
    key = 'recognisers:single-file'
    res.inst(key, iv.loc(), f'{len(ys)} accepting yield(s)')
    if len(ys) != 1:
        raise AnalysisError('anchor vanished: iterpackages no longer yields one _ResourceOnlyPackage for a plain file')
    arg = ys[0][1][len('_ResourceOnlyPackage('):-1]
    single = set()
    for g in ys[0][2]:
        if 'is_dir()' in g or 'is_tarfile(' in g:
            continue
        r = recog(g)
        if not r or not all(_re.fullmatch(r'(?:[\w.]+\(' + _re.escape(arg) + r'\))(?: or [\w.]+\(' + _re.escape(arg) + r'\))*', g) for _ in [0]):
            res.find(key, iv.loc(ys[0][4]), f'the single-file route accepts a file under `{g[:80]}`, which is not a disjunction of content '
                                            f'recognisers applied to the (decompressed) file')
        single |= r
    # package route: files of a directory
    tv = view(ctx, 'project', '_resource_file_type')
    key = 'recognisers:package-file'
    rets = [r for r in tv.rows if r[0] == 'return']
    res.inst(key, tv.loc(), f'{len(rets)} returns')
    pkg = set()
    for k, t, g, c, e in rets:
        for x in g:
            if not _re.fullmatch(r'(?:not )?[\w.]+\.is_\w+\(path\)', x):
                res.find(key, tv.loc(e), f'_resource_file_type decides under `{x[:80]}`, which is not a content recogniser applied to the path')
            pkg |= recog(x)
    key = 'recognisers:agree'
    res.inst(key, tv.loc(), f'single file: {sorted(single)}; package file: {sorted(pkg)}')
    if single != pkg or not single:
        res.find(key, tv.loc(), f'the single-file route recognises resources with {sorted(single)} but the package route with {sorted(pkg)}: '
                                f'the same file is accepted on one route and rejected on the other')
    # the ILI recogniser looks at the first TAB-separated field of the first line - the delimiter the ILI loader splits by
    # (C19-R6): a recogniser that splits differently accepts files the loader reads differently, and any text file that
    # starts with the word makes a package "have two resources"
    sv = view(ctx, '_ili', 'is_ili')
    key = 'ili-recogniser:first-tab-field'
    pos = [r for r in sv.rows if r[0] == 'return' and r[1] not in ('False', 'True')]
    res.inst(key, sv.loc(), f'{[r[1][:70] for r in pos]}')
    ok = len(pos) == 1 and _re.fullmatch(r"next\(.+\)\.split\(b'\\t'\)\[0\] in \(b'ili', b'ILI'\)", pos[0][1]) is not None \
        and not any(r[0] == 'return' and r[1] == 'True' for r in sv.rows)
    if not ok:
        res.find(key, sv.loc(), f'_ili.is_ili no longer accepts exactly the files whose first line starts with the TAB-delimited field ili / ILI: '
                                f'{[r[1][:90] for r in pos]}')
    lv = view(ctx, '_ili', 'load')
    key = 'ili-recogniser:same-delimiter-as-loader'
    hdr = [r for r in lv.rows if r[0] in ('eval', 'yield') and ".split('\\t')" in r[1]]
    res.inst(key, lv.loc(), f'{len(hdr)} tab splits in the loader')
    if not hdr:
        res.find(key, lv.loc(), '_ili.load no longer splits its lines at tabs while is_ili sniffs the first tab-delimited field')
    # every file of a package directory is classified, with no other filter
    pv = view(ctx, 'project', '_package_directory_types')
    apps = [r for r in pv.rows if r[0] == 'call' and _re.match(r'#\d+\.append\(', r[1])]
    key = 'package-files:unfiltered'
    res.inst(key, pv.loc(), f'{len(apps)} collecting effect(s)')
    if len(apps) != 1 or not any(c.startswith('for ') and c.endswith('.iterdir()') for c in apps[0][3]):
        raise AnalysisError('anchor vanished: _package_directory_types no longer collects the classified files of path.iterdir()')
    for g in apps[0][2]:
        if _re.fullmatch(r'[\w.]+\.is_dir\(\)', g) or _re.fullmatch(r'\(?.*\)? is not None', g) and ('is_lmf($1)' in g or '_resource_file_type($1)' in g):
            continue
        res.find(key, pv.loc(apps[0][4]), f'_package_directory_types only considers a file when `{g[:80]}`: files are filtered by something other '
                                         f'than their content, so a package route can reject a resource the single-file route accepts')
    for k, t, g, c, e in pv.rows:
        if k in ('eval', 'call') and t.startswith('continue') or k == 'break':
            res.find(key, pv.loc(e), '_package_directory_types leaves the directory loop early')
    # packages of a collection: exactly the package directories
    cv = view(ctx, 'project', 'Collection.packages')
    apps = [r for r in cv.rows if r[0] == 'call' and _re.match(r'#\d+\.append\(Package\(\$1\)\)', r[1])]
    key = 'collection-packages:unfiltered'
    res.inst(key, cv.loc(), f'{len(apps)} collecting effect(s)')
    if len(apps) != 1:
        raise AnalysisError('anchor vanished: Collection.packages no longer collects Package(path) over the directory')
    if set(apps[0][2]) != {'is_package_directory($1)'}:
        res.find(key, cv.loc(apps[0][4]), f'Collection.packages keeps a directory when {sorted(apps[0][2])}; expected exactly is_package_directory(path)')


def r7_prescan_agrees_with_parser(ctx, res):
    """the file routes (add of .xml/.gz/.xz/package/tar) decide what to skip from scan_lexicons(), the in-memory route
    (lmf.load + add_lexical_resource) from the parsed document: the routes store the same thing only if the pre-scan sees
    what the parser sees - quoting, entities, comments (also across lines), element kinds (analysis of C20-R4)."""
    from .c20 import r4_scan_equals_load
    r4_scan_equals_load(ctx, res)


def r8_archive_members(ctx, res):
    """the tar routes store what the other routes store only if the archive check refuses nothing a valid archive contains: a
    member is refused exactly when it is neither a file nor a directory by TarInfo.isfile() / isdir() - which also accept the
    regular-file type flags of old archives (AREGTYPE of V7 tars, CONTTYPE, GNU sparse) - or when its path is absolute or
    contains `..`.  On the effect summary of project._check_tar: exactly these two ways out."""
    from ..speccheck import view, expect
    v = view(ctx, 'project', '_check_tar')
    expect(res, 'archive-members:_check_tar', v, [
        ('raise', "wn.Error(f'tarfile member is not a regular file or directory: {$1.name}')", ('not $1.isdir()', 'not $1.isfile()'),
         ('for tar.getmembers()',)),
        ('raise', "wn.Error(f'tarfile member paths may not be absolute or contain ..: {$1.name}')",
         ('$1.isfile() or $1.isdir()', "$1.name.startswith('/') or '..' in $1.name"), ('for tar.getmembers()',)),
    ], 'a tar member is refused exactly when it is neither file nor directory (TarInfo.isfile / isdir) or its path is absolute / contains ..')


def r9_directory_dispatch_and_decompression(ctx, res):
    """(a) a directory is a PACKAGE when it has the package layout, whatever else it contains - the package test comes first, a
    directory is taken as a collection only when it is not a package (a package that keeps an older release in a sub-directory
    satisfies both tests);  (b) a compressed resource is read from a temporary file that is CLOSED (flushed) before its path is
    handed to the reader: the last buffer of the decompressed data is otherwise missing for the consumer, while the plain
    route reads everything.  Both on the effect summaries of wn.project."""
    from ..speccheck import view, expect
    v = view(ctx, 'project', 'iterpackages')
    P = 'Path(path).expanduser()'
    expect(res, 'dispatch:iterpackages', v, [
        ('yield', f'Package({P})', (f'{P}.is_dir()', f'is_package_directory({P})')),
        ('yield-from', f'Collection({P}).packages()', (f'{P}.is_dir()', f'is_collection_directory({P})', f'not is_package_directory({P})')),
    ], 'a directory with the package layout is a package; only other directories are looked at as collections', exact=())
    d = view(ctx, 'project', '_get_decompressed')
    key = 'decompressed:closed-before-handed-out'
    ys = [(i, r) for i, r in enumerate(d.rows) if r[0] == 'yield' and 'NamedTemporaryFile' in r[1]]
    closes = [(i, r) for i, r in enumerate(d.rows) if r[0] == 'call' and r[1].endswith('.close()') and 'NamedTemporaryFile' in r[1]
              and 'finally' not in r[3]]
    res.inst(key, d.loc(), f'{len(ys)} temp-file yields, {len(closes)} close() calls outside finally')
    if not ys:
        res.find(key, d.loc(), '_get_decompressed no longer yields the path of its temporary file')
    for i, y in ys:
        if not any(j < i and set(c[2]) <= set(y[2]) for j, c in closes):
            res.find(key, d.loc(y[4]), '_get_decompressed hands out the path of the temporary file before closing it: the tail of the '
                                       'decompressed data is still in the write buffer when the reader opens the path (a compressed ILI / '
                                       'LMF file of the wrong size is read short, the same file uncompressed is not)')

def r10_recogniser_rejects_before_decoding(ctx, res):
    """the package / collection routes sniff EVERY file of a directory with is_lmf(): it answers False for anything that is not
    WN-LMF by way of LMFError - so in _read_header nothing is decoded before the XML declaration matched (a Latin-1 XML file in
    a package directory would otherwise raise UnicodeDecodeError out of the recogniser and fail the whole add, while the same
    lexicon given as a plain file is stored)."""
    from ..speccheck import view
    v = view(ctx, 'lmf', '_read_header')
    key = 'recogniser:decode-after-declaration-check'
    dec = [r for r in v.rows if '.decode(' in r[1] or any('.decode(' in g for g in r[2])]
    res.inst(key, v.loc(), f'{len(dec)} effects involving a decode')
    for r in dec:
        if not any('== _XMLDECL' in g for g in r[2]):
            res.find(key, v.loc(r[4]), f'_read_header decodes (`{r[1][:60]}`) on a path where the XML declaration has not been matched yet: '
                                       f'for a non-UTF-8 file UnicodeDecodeError escapes is_lmf() instead of the LMFError it turns into False')
    if not dec:
        res.find(key, v.loc(), '_read_header no longer decodes the DOCTYPE line')

RULES = [
    ('C07-R1', r1_sibling_entry_points, 5),
    ('C07-R2', r2_skip_dominance, 2),
    ('C07-R3', r3_input_not_modified, 40),
    ('C07-R4', r4_files, 8),
    ('C07-R5', r5_per_item_state, 2),
    ('C07-R6', r6_recognition_by_content, 7),
    ('C07-R7', r7_prescan_agrees_with_parser, 7),
    ('C07-R8', r8_archive_members, 1),
    ('C07-R9', r9_directory_dispatch_and_decompression, 2),
    ('C07-R10', r10_recogniser_rejects_before_decoding, 1),
]
