"""C06 — a failed add or remove leaves the database exactly as it was."""
from __future__ import annotations
import ast
from ..src import norm, walk_no_nested, AnalysisError
from ..pyutil import parents, binding_sites
from ..txn import write_sites, connection_withs, lexically_inside, extent, covered_functions, is_connection_expr

META = {
    'title': 'A failed add or remove leaves the database exactly as it was',
    'technique': 'call-graph extent of `with <connection>` blocks; commit-point and exception-swallowing search',
    'explanation': (
        'Decides the transaction structure on which atomicity rests, for all inputs and failure points: R1 every '
        'DML statement reachable from add / add_lexical_resource lies in the dynamic extent (call-graph closure) of '
        'one `with connect()` block that contains the loop over the lexicons of the resource, and no commit point '
        '(.commit/.rollback, executescript, nested `with <connection>`, autocommit / isolation_level settings, '
        'COMMIT/BEGIN/SAVEPOINT/DDL text) occurs in that extent; R2 no try/except in the extent swallows an '
        'exception and no finally returns; R3 in remove() all DELETEs of one matched lexicon share one `with conn` '
        'and the progress handler is reset in a finally; R4 scanning, pre-check and parsing complete before the '
        'transaction block is entered; R5 connect() only hands out the pooled connection. SQLite\'s own rollback '
        'is trusted. R6 the add/remove route keeps no state outside the database (nothing a rollback cannot undo). '
        'R7 every writing statement starts with INSERT/UPDATE/DELETE/REPLACE, the keywords for which sqlite3 opens its implicit transaction. R8 no progress callback follows the transaction block of add / remove (a handler raising there fails the call after the commit). R9 the callables registered with set_progress_handler (ProgressHandler.update and its overrides) return None on every path.'),
    'decides': ['one transaction per resource', 'no commit point inside', 'failures propagate', 'remove is one '
                'transaction per lexicon', 'parse before write', 'pooled connection', 'no state outside the transaction'],
    'not_decided': ['correctness of SQLite rollback', 'crash (power loss) durability: PRAGMA synchronous=OFF is outside the property'],
    'assumptions': ['user-supplied progress handlers may raise but do not touch the connection',
                    'python sqlite3 legacy transaction control: implicit BEGIN before DML, commit at `with` exit'],
}

TXN_SQL_VERBS = {'COMMIT', 'BEGIN', 'END', 'SAVEPOINT', 'RELEASE', 'ROLLBACK', 'CREATE', 'DROP', 'ALTER', 'VACUUM',
                 'ATTACH', 'DETACH', 'REINDEX'}


def _entries(ctx):
    return [ctx.repo.func('_add', 'add'), ctx.repo.func('_add', 'add_lexical_resource')]


def _site_key(s):
    v = s.variants[0] if s.variants else None
    what = f'{v.stmt.verb} {v.stmt.target}' if v is not None and v.stmt is not None else s.attr
    return f'{s.func.key}:{what}'


def r1_one_transaction(ctx, res):
    entries = _entries(ctx)
    reach, covered, withs = covered_functions(ctx, entries)
    wsites = [s for s in write_sites(ctx) if s.func.key in reach]
    if not wsites:
        raise AnalysisError('no DML reachable from add / add_lexical_resource (extractor or call graph collapsed)')
    # (a) every DML statement is inside a transaction extent
    for s in wsites:
        key = 'in-txn:' + _site_key(s)
        inside = any(lexically_inside(s.node, w) for w in withs[s.func.key])
        res.inst(key, s.loc, 'DML inside transaction extent')
        if not (inside or s.func.key in covered):
            res.find(key, s.loc,
                     f'{_site_key(s)} can execute outside any `with <connection>` block on a path from add(): '
                     f'its writes are committed or left pending independently of the rest of the resource')
    # (b) the transaction block that covers the importer contains the per-lexicon loop
    blocks = []
    for k, f in reach.items():
        for w in withs[k]:
            ext = extent(ctx, f, w)
            dml_in = [s for s in wsites if s.func.key in ext or (s.func.key == k and lexically_inside(s.node, w))]
            if dml_in:
                blocks.append((f, w, ext, dml_in))
    if not blocks:
        raise AnalysisError('no transaction block with DML found on the add path')
    for f, w, ext, dml_in in blocks:
        key = f'txn-block:{f.key}'
        res.inst(key, f.module.loc(w), f'transaction block covering {len(dml_in)} DML sites')
        loops = [p for p in parents(w) if isinstance(p, (ast.For, ast.While)) and p is not f.node]
        loops = [p for p in loops if _inside_func(p, f)]
        if loops:
            res.find(key, f.module.loc(w),
                     f'the `with <connection>` block in {f.qualname} is inside a loop ({norm(loops[0].target) if isinstance(loops[0], ast.For) else "while"}): '
                     f'each iteration commits separately, so a failure leaves earlier iterations in the database')
        # callers: only the package loop of add() may enclose the call chain
        for bad in _looped_call_chain(ctx, f, reach):
            res.find(key + ':caller-loop', bad[1],
                     f'{f.qualname} (which opens the transaction) is called inside the loop `{bad[0]}`: '
                     f'one transaction per iteration instead of one per resource')
    # the lexicon loop must be inside the block of _add_lexical_resource
    alr = ctx.repo.func('_add', '_add_lexical_resource')
    key = 'lexicon-loop-inside-block'
    res.inst(key, alr.module.loc(alr.node), 'loop over resource lexicons inside the transaction block')
    lex_loops = [n for n in walk_no_nested(alr.node) if isinstance(n, ast.For) and 'lexicons' in norm(n.iter)]
    aw = withs.get(alr.key, [])
    if not lex_loops:
        # loop may have moved to a helper: accept if every DML is covered (a) and no looped chain (b)
        res.note('no loop over resource["lexicons"] in _add_lexical_resource itself')
    for lp in lex_loops:
        if not any(lexically_inside(lp, w) for w in aw):
            res.find(key, alr.module.loc(lp),
                     'the loop over the lexicons of the resource is not inside the `with connect()` block: '
                     'lexicons of one resource are committed one by one')
    # (c) commit points inside the extents
    for f, w, ext, dml_in in blocks:
        scope_funcs = dict(ext)
        nodes = []
        for st in w.body:
            nodes.extend((f, n) for n in ast.walk(st))
        for g in scope_funcs.values():
            nodes.extend((g, n) for n in walk_no_nested(g.node))
        for g, n in nodes:
            cp = _commit_point(ctx, g, n, w)
            if cp:
                key = f'commit-point:{g.key}:{norm(n)[:50]}'
                res.inst(key, g.module.loc(n), cp)
                res.find(key, g.module.loc(n),
                         f'commit point inside the transaction extent of {f.qualname}: {cp}; a later failure '
                         f'can no longer roll back what was written before it')
        for s in ctx.sites:
            if s.func.key in scope_funcs or (s.func.key == f.key and lexically_inside(s.node, w)):
                for v in s.variants:
                    if v.stmt is not None and v.stmt.verb in TXN_SQL_VERBS:
                        key = f'commit-point:{s.func.key}:{v.stmt.verb}'
                        res.inst(key, s.loc, 'transaction-control / DDL text')
                        res.find(key, s.loc, f'statement `{v.stmt.verb} ...` inside the transaction extent commits or '
                                             f'restarts the transaction')
        res.inst(f'extent:{f.key}', f.module.loc(w), f'{len(scope_funcs)} functions in the dynamic extent, '
                                                      f'{len(nodes)} nodes searched for commit points')
    # connection-level autocommit settings
    for func in ctx.repo.all_funcs():
        for n in walk_no_nested(func.node):
            if isinstance(n, ast.Call) and norm(n.func).endswith('sqlite3.connect'):
                key = f'connect-args:{func.key}'
                res.inst(key, func.module.loc(n), 'sqlite3.connect arguments')
                for kw in n.keywords:
                    if kw.arg == 'isolation_level' or (kw.arg == 'autocommit' and not (
                            isinstance(kw.value, ast.Constant) and kw.value.value is False)):
                        res.find(key, func.module.loc(n),
                                 f'sqlite3.connect(..., {kw.arg}={norm(kw.value)}) changes transaction control: '
                                 f'`with connection` no longer brackets all writes of a resource')
            if isinstance(n, (ast.Assign, ast.AugAssign)):
                tg = n.targets if isinstance(n, ast.Assign) else [n.target]
                for t in tg:
                    if isinstance(t, ast.Attribute) and t.attr in ('isolation_level', 'autocommit'):
                        key = f'connect-args:{func.key}:{t.attr}'
                        res.inst(key, func.module.loc(n), 'connection attribute')
                        res.find(key, func.module.loc(n), f'`{norm(n)}` changes the transaction control of the connection')


def _inside_func(node, f):
    for p in parents(node):
        if p is f.node:
            return True
    return False


def _looped_call_chain(ctx, f, reach, depth=0, seen=None):
    """loops enclosing (transitively) the calls that lead to f, other than the package loop of add()."""
    seen = seen or set()
    out = []
    if f.key in seen or depth > 6:
        return out
    seen.add(f.key)
    for caller, call in ctx.cg.callers_of(f):
        if caller.key not in reach:
            continue
        for p in parents(call):
            if p is caller.node:
                break
            if isinstance(p, (ast.For, ast.While)):
                it = norm(p.iter) if isinstance(p, ast.For) else 'while'
                if 'iterpackages' in it:
                    continue
                out.append((f'for {norm(p.target)} in {it}' if isinstance(p, ast.For) else 'while', caller.module.loc(p)))
        out.extend(_looped_call_chain(ctx, caller, reach, depth + 1, seen))
    return out


def _commit_point(ctx, g, n, outer_with):
    if isinstance(n, ast.Call) and isinstance(n.func, ast.Attribute):
        if n.func.attr in ('commit', 'rollback') and not n.args:
            return f'`{norm(n)}`'
        if n.func.attr == 'executescript':
            return f'`{norm(n)[:60]}` (executescript commits any open transaction first)'
    if isinstance(n, (ast.With, ast.AsyncWith)) and n is not outer_with:
        for it in n.items:
            if is_connection_expr(g, it.context_expr):
                return (f'nested `with {norm(it.context_expr)}` (the pool hands out the same connection, so leaving '
                        f'the inner block commits the outer transaction)')
    return None


def r2_failures_propagate(ctx, res):
    entries = _entries(ctx) + [ctx.repo.func('_add', 'remove')]
    reach, covered, withs = covered_functions(ctx, entries)
    n = 0
    for k, f in reach.items():
        for w in withs[k]:
            ext = extent(ctx, f, w)
            cands = [(f, t) for st in w.body for t in ast.walk(st) if isinstance(t, ast.Try)]
            for g in ext.values():
                if g.module.short not in ('_add', '_db', '_queries', '_ili', 'lmf', 'project', '_util'):
                    continue
                cands.extend((g, t) for t in walk_no_nested(g.node) if isinstance(t, ast.Try))
            for g, t in cands:
                n += 1
                key = f'try:{g.key}:{norm(t.body[0])[:40]}'
                res.inst(key, g.module.loc(t), 'try statement inside a transaction extent')
                for h in t.handlers:
                    if not _always_raises(h.body):
                        res.find(key, g.module.loc(h),
                                 f'`except {norm(h.type) if h.type else ""}` in {g.qualname} does not re-raise: a failure '
                                 f'inside the transaction would be swallowed and the partial writes committed at '
                                 f'the end of the `with` block')
                for s in t.finalbody:
                    for x in ast.walk(s):
                        if isinstance(x, ast.Return):
                            res.find(key + ':finally-return', g.module.loc(x),
                                     f'`return` in a finally block of {g.qualname} discards the in-flight exception')
            # contextlib.suppress
            for g in [f] + list(ext.values()):
                for x in walk_no_nested(g.node):
                    if isinstance(x, ast.Call) and norm(x.func).split('.')[-1] == 'suppress':
                        key = f'suppress:{g.key}'
                        res.inst(key, g.module.loc(x), 'contextlib.suppress')
                        if g is not f or lexically_inside(x, w):
                            res.find(key, g.module.loc(x), f'contextlib.suppress in the transaction extent ({g.qualname})')
    res.inst('extent-searched', 'wn/_add.py', f'{n} try statements in transaction extents')


def _always_raises(body):
    if not body:
        return False
    last = body[-1]
    if isinstance(last, ast.Raise):
        return True
    if isinstance(last, ast.If) and last.orelse:
        return _always_raises(last.body) and _always_raises(last.orelse)
    return False


def r3_remove(ctx, res):
    rm = ctx.repo.func('_add', 'remove')
    reach, covered, withs = covered_functions(ctx, [rm])
    dels = [s for s in write_sites(ctx) if s.func.key in reach]
    if not dels:
        raise AnalysisError('no DML reachable from remove()')
    blocks = set()
    for s in dels:
        key = 'remove-in-txn:' + _site_key(s) + ':' + norm(s.node.args[1])[:30] if len(s.node.args) > 1 else _site_key(s)
        res.inst(key, s.loc, 'DELETE inside `with conn`')
        inside = [w for w in withs[s.func.key] if lexically_inside(s.node, w)]
        if not inside and s.func.key not in covered:
            res.find(key, s.loc, f'{_site_key(s)} in remove() runs outside a `with <connection>` block: an interrupted '
                                 f'removal is not rolled back as a whole')
        blocks.update(id(w) for w in inside)
    key = 'remove-one-block'
    res.inst(key, rm.module.loc(rm.node), 'all deletions of one matched lexicon share one transaction')
    if len(blocks) > 1:
        res.find(key, rm.module.loc(rm.node), 'the deletions of the extensions and of the lexicon itself are in '
                                              'different `with` blocks: an interruption leaves the lexicon without '
                                              'some of its extensions')
    # the transaction block must not be inside the extension loop
    for w in withs.get(rm.key, []):
        for p in parents(w):
            if p is rm.node:
                break
            if isinstance(p, ast.For):
                from ..pyutil import resolve_value
                src_it = resolve_value(rm.node, p.iter)
                if 'find_lexicons' not in norm(src_it):
                    res.find(key + ':loop', rm.module.loc(w), f'`with conn` of remove() is inside the loop over `{norm(p.iter)}` '
                                                              f'(only the loop over the matched lexicons may enclose it)')
    # commit points inside
    for w in withs.get(rm.key, []):
        for st in w.body:
            for n in ast.walk(st):
                cp = _commit_point(ctx, rm, n, w)
                if cp:
                    k2 = f'remove-commit-point:{norm(n)[:50]}'
                    res.inst(k2, rm.module.loc(n), cp)
                    res.find(k2, rm.module.loc(n), f'commit point inside the removal transaction: {cp}')
    # progress handler reset in finally
    key = 'remove-handler-reset'
    res.inst(key, rm.module.loc(rm.node), 'sqlite progress handler reset in finally')
    sets = [n for n in walk_no_nested(rm.node) if isinstance(n, ast.Call) and isinstance(n.func, ast.Attribute)
            and n.func.attr == 'set_progress_handler']
    installs = [n for n in sets if not (n.args and isinstance(n.args[0], ast.Constant) and n.args[0].value is None)]
    resets = [n for n in sets if n.args and isinstance(n.args[0], ast.Constant) and n.args[0].value is None]
    if installs:
        ok = False
        for r in resets:
            for p in parents(r):
                if isinstance(p, ast.Try) and any(r is x for s in p.finalbody for x in ast.walk(s)):
                    ok = True
        if not ok:
            res.find(key, rm.module.loc(installs[0]),
                     'remove() installs a connection-level progress handler but does not reset it in a finally block: '
                     'after a failed removal the pooled connection keeps calling the dead handler')


def r4_parse_before_write(ctx, res):
    add_lmf = ctx.repo.func('_add', '_add_lmf')
    alr = ctx.repo.func('_add', '_add_lexical_resource')
    reach, covered, withs = covered_functions(ctx, _entries(ctx))
    parse_funcs = {'lmf.load', 'lmf.scan_lexicons', 'lmf._make_parser', '_add._precheck'}
    if not withs.get(alr.key):
        res.inst('parse-outside-txn', alr.module.loc(alr.node), 'transaction block of _add_lexical_resource')
        res.find('parse-outside-txn', alr.module.loc(alr.node), '_add_lexical_resource no longer brackets its writes in a `with <connection>` block')
    for w in withs.get(alr.key, []):
        ext = extent(ctx, alr, w)
        for pk in sorted(parse_funcs):
            key = f'parse-outside-txn:{pk}'
            res.inst(key, alr.module.loc(w), f'{pk} not in the transaction extent')
            if pk in ext:
                res.find(key, alr.module.loc(w), f'{pk} is reachable from inside the transaction block: parsing happens '
                                                 f'while writes are pending')
    # order inside _add_lmf: scan, precheck, load, then the importer
    order = []
    for n in add_lmf.node.body:
        for x in ast.walk(n):
            if isinstance(x, ast.Call):
                nm = norm(x.func)
                if nm in ('lmf.scan_lexicons', '_precheck', 'lmf.load', '_add_lexical_resource'):
                    order.append(nm)
    key = 'add_lmf-order'
    res.inst(key, add_lmf.module.loc(add_lmf.node), f'call order {order}')
    want = ['lmf.scan_lexicons', '_precheck', 'lmf.load', '_add_lexical_resource']
    if order != want:
        res.find(key, add_lmf.module.loc(add_lmf.node),
                 f'_add_lmf calls {order}; expected {want} (scan and pre-check decide what to skip, the file is parsed '
                 f'completely before the first write)')
    # the resource handed to the importer is the result of lmf.load (fully parsed)
    ai = ctx.repo.func('_add', '_add_ili')
    first_dml = None
    load_line = None
    for n in walk_no_nested(ai.node):
        if isinstance(n, ast.Call) and isinstance(n.func, ast.Attribute) and n.func.attr in ('execute', 'executemany'):
            first_dml = n.lineno if first_dml is None else min(first_dml, n.lineno)
        if isinstance(n, ast.Call) and norm(n.func) == '_ili.load':
            par = getattr(n, '_parent', None)
            mat = isinstance(par, ast.Call) and isinstance(par.func, ast.Name) and par.func.id in ('list', 'tuple')
            load_line = (n.lineno, mat)
    key = 'add_ili-load-first'
    res.inst(key, ai.module.loc(ai.node), 'ILI file read completely before the first write')
    if load_line is None or first_dml is None:
        res.find(key, ai.module.loc(ai.node), '_add_ili no longer reads the file with _ili.load before writing')
    elif not (load_line[0] < first_dml and load_line[1]):
        res.find(key, ai.module.loc(ai.node), 'the ILI file is not fully materialised (list(_ili.load(...))) before the first DML')


def r5_pooled_connection(ctx, res):
    from ..speccheck import view
    cv = view(ctx, '_db', 'connect')
    cf = cv.f
    key = 'connect-returns-pooled'
    res.inst(key, cv.loc(), 'connect() returns pool[dbpath] on every path')
    rets = [r for r in cv.rows if r[0] == 'return']
    if not rets:
        res.find(key, cv.loc(), 'connect() has no return')
    stored = {x[1][len('pool[wn.config.database_path] = '):] for x in cv.rows if x[0] == 'store' and x[1].startswith('pool[wn.config.database_path] = ')}
    for r in rets:
        # the pooled object itself, or - on the path that has just created and stored it - that very object
        if r[1] != 'pool[wn.config.database_path]' and not (r[1] in stored and 'wn.config.database_path not in pool' in r[2]):
            res.find(key, cv.loc(r[4]), f'connect() returns `{r[1][:80]}` instead of the pooled connection: callers may get a private '
                                        f'connection outside the transaction')
    key = 'connect-store-guarded'
    res.inst(key, cv.loc(), 'pool store only when the path has no pooled connection')
    stores = [r for r in cv.rows if r[0] == 'store' and r[1].startswith('pool[')]
    for r in stores:
        if 'wn.config.database_path not in pool' not in r[2] or not r[1].startswith('pool[wn.config.database_path] = '):
            res.find(key, cv.loc(r[4]), f'connect() replaces a pooled connection (store `{r[1][:50]}` not guarded by `not in pool`: {sorted(r[2])})')
    if not stores:
        res.find(key, cf.module.loc(cf.node), 'connect() never stores the new connection in the pool')
    # nobody else writes the pool
    for func in ctx.repo.all_funcs():
        if func is cf:
            continue
        for n in walk_no_nested(func.node):
            tgts = []
            if isinstance(n, ast.Assign):
                tgts = n.targets
            elif isinstance(n, ast.Delete):
                tgts = n.targets
            for t in tgts:
                if isinstance(t, ast.Subscript) and norm(t.value) in ('pool', '_db.pool', 'wn._db.pool'):
                    k2 = f'pool-write:{func.key}'
                    res.inst(k2, func.module.loc(n), 'pool written outside connect()')
                    if func.module.short not in ('_config',):
                        res.find(k2, func.module.loc(n), f'{func.qualname} writes the connection pool')


def r6_no_state_outside_transaction(ctx, res):
    """a rolled-back add()/remove() leaves nothing behind: the add/remove route keeps no state outside the database (no
    module-level memo of what was inserted, no memoised helper) - SQLite rolls the rows back, not Python objects, and a later
    add in the same process would trust the stale memo (analysis shared with C16-R2, restricted to the writing modules)."""
    from .c16 import hidden_state_subset
    n = hidden_state_subset(ctx, res, ('_add', '_db'), 'no-state-outside-transaction')
    if n < 40:
        raise AnalysisError(f'only {n} functions of wn/_add.py and wn/_db.py examined for state outside the database')


def r7_writes_open_the_transaction(ctx, res):
    """python's sqlite3 (legacy transaction control, the mode wn uses) issues its implicit BEGIN only before a statement whose
    first keyword is INSERT, UPDATE, DELETE or REPLACE.  A write spelled `WITH ... DELETE` / `WITH ... INSERT` runs in
    autocommit when it is the first write of the block and is committed at once: a later failure rolls back only what
    followed it.  Every writing statement of the importer therefore starts with one of the four keywords."""
    n = 0
    for s in ctx.sites:
        if s.func.module.short != '_add':
            continue
        for v in s.variants:
            st = v.stmt
            if st is None or not st.is_write:
                continue
            n += 1
            first = (v.sql.split() or [''])[0].upper()
            key = f'write-keyword:{s.func.key}:{first}:{st.target}'
            res.inst(key, s.loc, f'{first} ... {st.verb} {st.target}')
            if first not in ('INSERT', 'UPDATE', 'DELETE', 'REPLACE'):
                res.find(key, s.loc, f'{s.func.qualname} writes to {st.target} with a statement that starts with {first}: sqlite3 does not '
                                     f'open its implicit transaction for it, so it is committed immediately and survives a rollback of the '
                                     f'enclosing `with conn:` block')
    if n < 30:
        raise AnalysisError(f'only {n} writing statement variants found in wn/_add.py')


def r8_no_callback_after_commit(ctx, res):
    """the caller's progress handler may raise; inside the transaction that aborts the add/remove and everything is rolled back.
    A set()/flash()/update() callback placed after the `with connect()` block runs when the transaction is already committed:
    the call fails although the database has changed.  In _add_lexical_resource and remove no statement that follows the
    transaction block (in its own or an enclosing block) calls back - only close() in the `finally`."""
    n = 0
    for fname in ('_add_lexical_resource', 'remove'):
        f = ctx.repo.func('_add', fname)
        from ..pyutil import binding_sites

        def is_connection(e):
            if isinstance(e, ast.Call) and norm(e.func) == 'connect':
                return True
            if isinstance(e, ast.Name):
                vals = [b[1] for b in binding_sites(f.node, e.id) if b[0] == 'assign']
                return bool(vals) and all(isinstance(x, ast.Call) and norm(x.func) == 'connect' for x in vals)
            return False
        withs = [w for w in walk_no_nested(f.node) if isinstance(w, ast.With) and any(is_connection(it.context_expr) for it in w.items)]
        key = f'callbacks-inside-transaction:{fname}'
        res.inst(key, f.module.loc(f.node), f'{len(withs)} transaction block(s)')
        if not withs:
            raise AnalysisError(f'anchor vanished: the transaction block of _add.{fname}')
        for w in withs:
            n += 1
            node = w
            after = []
            while node is not f.node:
                par = getattr(node, '_parent', None)
                if par is None:
                    break
                for fld in ('body', 'orelse', 'finalbody'):
                    blk = getattr(par, fld, None)
                    if isinstance(blk, list) and any(x is node for x in blk):
                        idx = next(i for i, x in enumerate(blk) if x is node)
                        if fld != 'finalbody':
                            after.extend(blk[idx + 1:])
                node = par
            for st in after:
                for c in ast.walk(st):
                    if isinstance(c, ast.Call) and isinstance(c.func, ast.Attribute) and c.func.attr in ('flash', 'set', 'update') \
                            and 'progress' in norm(c.func.value).lower():
                        res.find(key, f.module.loc(c), f'{fname} calls back `{norm(c)[:60]}` after its transaction block: if the handler raises '
                                                       f'there, the call fails but the database change is already committed')
    if n < 2:
        raise AnalysisError('transaction blocks of add/remove not found')


def r9_progress_callbacks_return_nothing(ctx, res):
    """SQLite aborts the running statement when the callback registered with set_progress_handler returns a non-zero value
    ("interrupted"): the callables registered there - `progress.update` of the ProgressHandler classes - return None on every
    path.  A removal that is aborted that way rolls back and leaves the lexicon installed."""
    n = 0
    regs = []
    for f in ctx.repo.all_funcs():
        for node in walk_no_nested(f.node):
            if isinstance(node, ast.Call) and isinstance(node.func, ast.Attribute) and node.func.attr == 'set_progress_handler' and node.args:
                regs.append((f, node))
    names = set()
    for f, node in regs:
        cb = node.args[0]
        if isinstance(cb, ast.Constant) and cb.value is None:
            continue
        if isinstance(cb, ast.Attribute):
            names.add(cb.attr)
        elif isinstance(cb, ast.Name):
            names.add(cb.id)
    util = ctx.repo.mod('util')
    for nm in sorted(names):
        impls = [fn for fn in ctx.repo.all_funcs() if fn.name == nm and fn.cls is not None and fn.module.short == 'util']
        for fn in impls:
            n += 1
            key = f'progress-callback:{fn.qualname}'
            rets = [r for r in walk_no_nested(fn.node) if isinstance(r, ast.Return) and r.value is not None
                    and not (isinstance(r.value, ast.Constant) and r.value.value in (None, 0, False))]
            res.inst(key, fn.module.loc(fn.node), f'registered as SQLite progress callback; value returns: {len(rets)}')
            for r in rets:
                res.find(key, fn.module.loc(r), f'{fn.qualname} is registered with set_progress_handler and returns `{norm(r.value)[:40]}`: a '
                                                f'non-zero value aborts the running statement with "interrupted" - remove() fails on any database '
                                                f'large enough for the callback to fire')
    if not regs or n < 1:
        raise AnalysisError(f'{len(regs)} set_progress_handler registrations, {n} callback implementations found')

RULES = [
    ('C06-R1', r1_one_transaction, 25),
    ('C06-R2', r2_failures_propagate, 1),
    ('C06-R3', r3_remove, 2),
    ('C06-R4', r4_parse_before_write, 5),
    ('C06-R5', r5_pooled_connection, 2),
    ('C06-R6', r6_no_state_outside_transaction, 40),
    ('C06-R7', r7_writes_open_the_transaction, 30),
    ('C06-R8', r8_no_callback_after_commit, 2),
    ('C06-R9', r9_progress_callbacks_return_nothing, 1),
]
